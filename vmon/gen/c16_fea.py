"""Generated feature files for the C16 hash-seed sweep: many `languagesystem` statements, features
with script/language-specific rules (include_dflt / exclude_dflt / required), `aalt` collecting
other features, `size` parameters, stylistic sets with names, class-based kerning in several
scripts.  Glyph names are those of the glyph set used by Tests/feaLib/builder_test.py."""

SCRIPTS = {
    "DFLT": ["dflt"],
    "latn": ["dflt", "TRK ", "ROM ", "DEU ", "NLD "],
    "cyrl": ["dflt", "SRB ", "BGR "],
    "grek": ["dflt", "PGR "],
    "arab": ["dflt", "URD "],
}
LOWER = list("abcdefghijklmnopqrstuvwxyz")
UPPER = list("ABCDEFGHIJKLMNOPQRSTUVWXYZ")
SC = [c + ".sc" for c in UPPER]
ALTS = {"A": ["A.alt1", "A.alt2", "A.alt3"], "B": ["B.alt1", "B.alt2", "B.alt3"], "C": ["C.alt1", "C.alt2", "C.alt3"],
        "a": ["a.alt1", "a.alt2", "a.alt3"], "d": ["d.alt"], "b": ["b.alt"]}
SWASH = [c + ".swash" for c in UPPER]
OLD = ["zero.oldstyle", "one.oldstyle", "two.oldstyle", "three.oldstyle", "four.oldstyle"]
DIGITS = ["zero", "one", "two", "three", "four"]


def generate(rnd):
    lines = []
    # ---- language systems: at least four, DFLT first as the specification requires
    systems = [("DFLT", "dflt")]
    scripts = rnd.sample([s for s in SCRIPTS if s != "DFLT"], rnd.randrange(2, 5))
    for sc in scripts:
        langs = ["dflt"] + rnd.sample(SCRIPTS[sc][1:], rnd.randrange(1, len(SCRIPTS[sc])))
        for lg in langs:
            systems.append((sc, lg))
    while len(systems) < 4:
        systems.append(("latn", "TRK "))
    seen = set()
    for sc, lg in systems:
        if (sc, lg) not in seen:
            seen.add((sc, lg))
            lines.append("languagesystem %s %s;" % (sc, lg.strip() if lg != "dflt" else "dflt"))
    systems = [s for s in systems if s[1] != "dflt"]
    lines.append("")

    # ---- aalt referencing features that carry language-specific lookups
    feats = rnd.sample(["salt", "smcp", "swsh", "onum", "ss01", "locl"], rnd.randrange(3, 6))
    lines.append("feature aalt {")
    for f in feats:
        if f != "locl" or rnd.random() < 0.5:
            lines.append("    feature %s;" % f)
    if rnd.random() < 0.5:
        lines.append("    sub z by z.end;")
    lines.append("} aalt;")
    lines.append("")

    def lang_blocks(default_rule, special_rules):
        out = ["    " + default_rule]
        for (sc, lg), rule in special_rules:
            out.append("    script %s;" % sc)
            mode = rnd.choice(["", " exclude_dflt", " include_dflt", " exclude_dflt required" if rnd.random() < 0.2 else ""])
            out.append("    language %s%s;" % (lg.strip(), mode))
            out.append("        " + rule)
        return out

    def specials(mk):
        chosen = rnd.sample(systems, min(len(systems), rnd.randrange(1, 4))) if systems else []
        return [(s, mk(i)) for i, s in enumerate(chosen)]

    for f in feats:
        lines.append("feature %s {" % f)
        if f == "salt":
            g = rnd.choice(["A", "B", "C", "a"])
            lines += lang_blocks("sub %s from [%s];" % (g, " ".join(ALTS[g])),
                                 specials(lambda i: "sub %s from [%s];" % (g, " ".join(reversed(ALTS[g][: 2 + i % 2])))))
        elif f == "smcp":
            k = rnd.randrange(3, 9)
            lines += lang_blocks("sub [%s] by [%s];" % (" ".join(LOWER[:k]), " ".join(SC[:k])),
                                 specials(lambda i: "sub %s by %s;" % (LOWER[k + i], SC[(k + i + 1) % 26])))
        elif f == "swsh":
            k = rnd.randrange(2, 7)
            lines += lang_blocks("sub [%s] by [%s];" % (" ".join(UPPER[:k]), " ".join(SWASH[:k])),
                                 specials(lambda i: "sub %s by %s;" % (UPPER[10 + i], SWASH[11 + i])))
        elif f == "onum":
            lines += lang_blocks("sub [%s] by [%s];" % (" ".join(DIGITS), " ".join(OLD)),
                                 specials(lambda i: "sub %s by %s;" % (DIGITS[i % 5], OLD[(i + 1) % 5])))
        elif f == "ss01":
            lines.append('    featureNames { name "Alternate %d"; name 3 1 0x411 "alt"; };' % rnd.randrange(9))
            lines += lang_blocks("sub b by b.alt;", specials(lambda i: "sub d by d.alt;"))
        else:  # locl
            lines += lang_blocks("sub i by idotless;", specials(lambda i: "sub %s by %s;" % (LOWER[i], SC[i])))
        lines.append("} %s;" % f)
        lines.append("")

    if rnd.random() < 0.6:
        lines += ["feature size {", "    parameters %d.0 %d 80 139;" % (rnd.randrange(8, 14), rnd.randrange(1, 4)),
                  '    sizemenuname "Win Minion Pro";', '    sizemenuname 1 "Mac Minion Pro";', "} size;", ""]

    # ---- class kerning with equal-sized classes in several scripts
    lines.append("feature kern {")
    groups = [UPPER[i:i + 2] for i in range(0, 12, 2)]
    rnd.shuffle(groups)
    rules = []
    for i in range(rnd.randrange(3, 6)):
        rules.append("pos [%s] [%s] %d;" % (" ".join(groups[i]), " ".join(groups[(i + 1) % len(groups)]), -10 * (i + 1)))
    lines.append("    " + "\n    ".join(rules))
    for (sc, lg) in (rnd.sample(systems, min(2, len(systems))) if systems else []):
        lines.append("    script %s;" % sc)
        lines.append("    language %s;" % lg.strip())
        lines.append("        pos [%s] [%s] %d;" % (" ".join(groups[0]), " ".join(groups[2]), -rnd.randrange(5, 90)))
    lines.append("} kern;")
    return "\n".join(l for l in lines if l is not None) + "\n"
