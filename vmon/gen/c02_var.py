"""Generators for gvar (TupleVariation), fvar and avar contents (C02). Plain values.

gvar content: axes [tag], glyphs [simple glyph description], variations {glyph index: [tuple]},
tuple = {"region": {tag: (start, peak, end)} floats in [-1, 1], "deltas": [None | (dx, dy)] * (points + 4)}.
Contract: deltas are integers; a region has start <= peak <= end, start and end on the same side of 0,
peak != 0 for at least one axis; every tuple of one glyph has points + 4 entries.
"""

GVAR_SHAPES = ["all_points", "some_points", "shared_points", "two_point_sets", "all_none", "zero_runs", "byte_runs",
               "word_runs", "mixed_runs", "intermediate", "shared_tuples", "many_points", "phantom_only", "long_values",
               "many_axes", "unquantised_peaks", "sparse_far_points"]

RUNLENS = [1, 2, 3, 62, 63, 64, 65, 66, 127, 128, 129, 130]
F = 16384.0


def _glyph(rnd, npts):
    """A simple glyph with exactly npts points in 1..3 contours, small integer coordinates."""
    ncont = 1 if npts < 6 else rnd.choice([1, 2, 3])
    sizes = [npts // ncont] * ncont
    sizes[-1] += npts - sum(sizes)
    contours = []
    x, y = rnd.randint(-50, 50), rnd.randint(-50, 50)
    for s in sizes:
        c = []
        for _ in range(s):
            x += rnd.choice([0, 3, 7, -5, 12, 40, -33])
            y += rnd.choice([0, 2, -8, 9, 25, -30])
            c.append((x, y, rnd.random() < 0.75))
        contours.append(c)
    return {"kind": "simple", "contours": contours, "instructions": b""}


def _delta_seq(rnd, n, kinds):
    out = []
    while len(out) < n:
        k = rnd.choice(kinds)
        ln = min(rnd.choice(RUNLENS), n - len(out))
        if k == "z":
            out.extend([0] * ln)
        elif k == "b":
            out.extend(rnd.choice([1, -1, 127, -128, 5, -77]) for _ in range(ln))
        elif k == "w":
            out.extend(rnd.choice([128, -129, 300, -300, 32767, -32768, 1000, -2000, 3000]) for _ in range(ln))
        elif k == "l":
            out.extend(rnd.choice([32768, -32769, 70000, -100000]) for _ in range(ln))
        else:  # 'x' mixed single values
            out.append(rnd.choice([0, 0, 1, -1, 127, 128, -128, -129, 300, 0]))
    return out[:n]


def _region(rnd, tags, shape):
    reg = {}
    peaks = [1.0, -1.0, 0.5, -0.5, 0.25, -0.75, 1 / F, -1 / F, 16383 / F]
    if shape == "unquantised_peaks":
        peaks = [0.3, -0.3, 1 / 3, 0.7, -0.123456, 0.99997, 0.5 + 0.4 / F, 0.5 + 0.6 / F]
    chosen = [t for t in tags if rnd.random() < 0.6] or [rnd.choice(tags)]
    for t in chosen:
        p = rnd.choice(peaks)
        if shape == "intermediate" and rnd.random() < 0.8:
            if p > 0:
                s = rnd.choice([0.0, p / 2, p])
                e = rnd.choice([p, (p + 1) / 2, 1.0])
            else:
                s = rnd.choice([-1.0, (p - 1) / 2, p])
                e = rnd.choice([p, p / 2, 0.0])
            reg[t] = (s, p, e)
        else:
            reg[t] = (min(p, 0.0), p, max(p, 0.0))
    return reg


def gen_gvar(rnd, shape):
    ntags = rnd.choice([1, 2, 3]) if shape != "many_axes" else rnd.choice([8, 20])
    tags = ["wght", "wdth", "opsz", "slnt"][:ntags] if ntags <= 4 else ["A%03d" % i for i in range(ntags)]
    nglyphs = rnd.randint(2, 5) if shape != "shared_tuples" else rnd.randint(6, 14)
    if shape == "long_offsets":
        nglyphs = 34          # > 131070 bytes of variation data: 32-bit glyph offsets
    glyphs = [{"kind": "simple", "contours": [], "instructions": b""}]      # .notdef (empty)
    variations = {}
    shared_region = _region(rnd, tags, shape)
    for gi in range(1, nglyphs + 1):
        if shape in ("zero_runs", "byte_runs", "word_runs", "mixed_runs"):
            npts = rnd.choice([59, 60, 61, 62, 123, 124, 125, 126, 200])      # + 4 phantom: 63..65, 127..130
        elif shape in ("many_points", "sparse_far_points"):
            npts = rnd.choice([130, 260, 300, 600])
        elif shape == "long_offsets":
            npts = 600
        else:
            npts = rnd.choice([1, 3, 4, 10, 30])
        g = _glyph(rnd, npts)
        glyphs.append(g)
        n = npts + 4
        if shape == "all_none" and gi == 1:
            variations[gi] = [{"region": _region(rnd, tags, shape), "deltas": [None] * n}]
            continue
        tuples = []
        ntup = rnd.randint(1, 4) if shape != "long_offsets" else 2
        kinds = {"long_offsets": ["w"], "zero_runs": ["z", "b"], "byte_runs": ["b", "z"], "word_runs": ["w", "z", "b"], "mixed_runs": ["z", "b", "w", "x"],
                 "long_values": ["l", "w", "z"]}.get(shape, ["x", "b", "z"])
        base_set = None
        if shape in ("shared_points", "two_point_sets"):
            base_set = sorted(rnd.sample(range(n), max(1, n // 2)))
        for ti in range(ntup):
            reg = dict(shared_region) if shape == "shared_tuples" and rnd.random() < 0.8 else _region(rnd, tags, shape)
            dx = _delta_seq(rnd, n, kinds)
            dy = _delta_seq(rnd, n, kinds)
            deltas = list(zip(dx, dy))
            if shape in ("some_points", "many_points", "intermediate") and rnd.random() < 0.7:
                keep = set(rnd.sample(range(n), rnd.randint(1, n)))
                deltas = [d if i in keep else None for i, d in enumerate(deltas)]
            elif shape == "sparse_far_points":
                # point numbers more than 255 apart: word-sized point number runs
                keep = set(range(0, n, rnd.choice([256, 257, 300]))) | {n - 1}
                deltas = [d if i in keep else None for i, d in enumerate(deltas)]
            elif shape == "shared_points":
                deltas = [d if i in base_set else None for i, d in enumerate(deltas)]
            elif shape == "two_point_sets":
                other = sorted(rnd.sample(range(n), max(1, n // 3)))
                use = base_set if ti % 2 == 0 else other
                deltas = [d if i in use else None for i, d in enumerate(deltas)]
            elif shape == "phantom_only":
                deltas = [d if i >= npts else None for i, d in enumerate(deltas)]
            elif shape == "all_none" and rnd.random() < 0.3:
                deltas = [None] * n
            tuples.append({"region": reg, "deltas": deltas})
        variations[gi] = tuples
    return {"axes": tags, "glyphs": glyphs, "variations": variations}


# ---------------------------------------------------------------- fvar / avar
FVAR_SHAPES = ["one_axis", "three_axes", "many_axes", "fixed_rounding", "extremes", "instances", "instances_ps", "hidden"]


def gen_fvar(rnd, shape):
    n = {"one_axis": 1, "three_axes": 3, "many_axes": rnd.choice([16, 64])}.get(shape, rnd.randint(1, 4))
    tags = (["wght", "wdth", "opsz", "slnt", "ital"] + ["X%03d" % i for i in range(64)])[:n]
    axes = []
    for t in tags:
        if shape == "fixed_rounding":
            mn, df, mx = sorted(rnd.choice([0.1, 100.3, -7.77, 1 / 3, 900.00001, 0.5 / 65536, 1.5 / 65536, -0.5 / 65536]) for _ in range(3))
        elif shape == "extremes":
            mn, df, mx = rnd.choice([(-32768.0, 0.0, 32767.0), (-32768.0, -32768.0, 32767 + 65535 / 65536), (0.0, 0.0, 0.0),
                                     (1.0, 1.0, 1000.0), (-1.0, 0.0, 1.0)])
        else:
            df = float(rnd.choice([0, 100, 400, 12]))
            mn = df - rnd.choice([0, 1, 50, 300])
            mx = df + rnd.choice([0, 1, 100, 500])
        axes.append({"tag": t, "min": mn, "default": df, "max": mx,
                     "flags": 1 if (shape == "hidden" and rnd.random() < 0.5) else 0, "nameID": rnd.choice([256, 257, 300, 32767, 65535])})
    instances = []
    if shape in ("instances", "instances_ps", "hidden", "many_axes", "fixed_rounding"):
        for _ in range(rnd.randint(1, 6)):
            coords = {a["tag"]: rnd.choice([a["min"], a["default"], a["max"], (a["min"] + a["max"]) / 2]) for a in axes}
            instances.append({"coords": coords, "subfamilyNameID": rnd.choice([2, 17, 258, 300, 65535]), "flags": rnd.choice([0, 0, 1]),
                              "postscriptNameID": (rnd.choice([6, 259, 400, 0]) if shape == "instances_ps" and rnd.random() < 0.8 else 0xFFFF)})
    return {"axes": axes, "instances": instances}


AVAR_SHAPES = ["identity", "segments", "steep", "flat", "many", "negative_only", "unquantised"]


def gen_avar(rnd, shape, tags):
    """-> {tag: {from: to}} with the three required mappings, strictly increasing `from`, non-decreasing `to`."""
    out = {}
    for t in tags:
        m = {-1.0: -1.0, 0.0: 0.0, 1.0: 1.0}
        if shape != "identity" and not (shape == "negative_only" and rnd.random() < 0.3):
            k = {"many": rnd.randint(10, 40)}.get(shape, rnd.randint(1, 5))
            for side in (1, -1):
                if shape == "negative_only" and side == 1:
                    continue
                fr = sorted(rnd.sample(range(1, 16384), k))
                if shape == "steep":
                    to = sorted(rnd.sample(range(1, 16384), k))
                    to = [min(16383, v * 3) for v in to]
                    to.sort()
                elif shape == "flat":
                    v = rnd.randrange(1, 16384)
                    to = [v] * k
                else:
                    to = sorted(rnd.randrange(1, 16384) for _ in range(k))
                for a, b in zip(fr, to):
                    if shape == "unquantised":
                        m[side * (a + rnd.choice([0.3, -0.3, 0.0])) / F] = side * (b + rnd.choice([0.2, -0.2, 0.0])) / F
                    else:
                        m[side * a / F] = side * b / F
        out[t] = m
    return out


# ---------------------------------------------------------------- delta-set index maps (HVAR/VVAR/avar2/COLR VarIndexMap)
IDXMAP_SHAPES = ["inner_pow2", "inner_pow2_minus1", "inner_pow2_plus1", "outer_pow2", "outer_pow2_minus1", "outer_pow2_plus1",
                 "entry_size_boundary", "single_row", "no_variation", "trailing_run", "random"]


def gen_index_map(rnd, shape, n, big=False):
    """-> [(outer, inner)] * n (one entry per glyph / slot).  The binary entry format packs outer and inner index with
    innerBits = bits of the OR of all inner indices and 1..4 bytes per entry: the shapes put that OR (and the OR of the
    outer indices, and the sum of both widths) at 2^k - 1, 2^k and 2^k + 1."""
    kmax = 15 if big else 9
    def ored(target, cnt):
        """`cnt` values whose OR is exactly `target` (sparse: single bits and sub-masks)."""
        bits = [1 << b for b in range(target.bit_length()) if target >> b & 1]
        if not bits:
            return [0] * cnt
        vals = [0] * cnt if rnd.random() < 0.5 else [rnd.choice(bits) for _ in range(cnt)]
        for i, b in enumerate(bits):
            vals[rnd.randrange(cnt)] |= b if rnd.random() < 0.5 else 0
        # make sure every bit occurs and nothing else does
        for b in bits:
            if not any(v & b for v in vals):
                vals[rnd.randrange(cnt)] |= b
        return vals
    k = rnd.randint(1, kmax)
    inner_t, outer_t = rnd.choice([0, 1, 3, 7]), rnd.choice([0, 1, 2])
    if shape.startswith("inner_pow2"):
        inner_t = max(0, (1 << k) + {"inner_pow2": 0, "inner_pow2_minus1": -1, "inner_pow2_plus1": 1}[shape])
    elif shape.startswith("outer_pow2"):
        ko = rnd.randint(1, 9 if big else 5)
        outer_t = max(0, (1 << ko) + {"outer_pow2": 0, "outer_pow2_minus1": -1, "outer_pow2_plus1": 1}[shape])
    elif shape == "entry_size_boundary":
        total = rnd.choice([8, 9, 16, 17] + ([24, 25] if big else []))
        ib = rnd.randint(max(1, total - (9 if big else 6)), min(total - 1, 16 if big else 12))
        ob = total - ib
        inner_t = rnd.choice([(1 << ib) - 1, 1 << (ib - 1)])
        outer_t = rnd.choice([(1 << ob) - 1, 1 << (ob - 1)])
    elif shape == "single_row":
        r = rnd.choice([0, 1, 2, 4, 5, 16, 64])
        return [(0, r)] * n
    elif shape == "random":
        return [(rnd.randrange(3), rnd.randrange(1 << k)) for _ in range(n)]
    inner = ored(inner_t, n)
    outer = ored(outer_t, n)
    out = list(zip(outer, inner))
    if shape == "no_variation":
        out = [(0xFFFF, 0xFFFF) if rnd.random() < 0.4 else e for e in out]
    if shape == "trailing_run" and n > 3:
        t = rnd.randint(1, n - 1)
        out = out[:n - t] + [out[n - t - 1]] * t
    return out


# ---------------------------------------------------------------- gvar with a number of shared peak tuples at the 12-bit limit
def gen_gvar_shared_count(rnd, k):
    """k distinct peak tuples, each used by two glyphs (=> candidates for the shared tuple list, whose index field has
    12 bits).  Tiny glyphs (1 point), at most 2500 tuples per glyph."""
    tags = ["wght"] if rnd.random() < 0.5 else ["wght", "wdth"]
    glyphs = [{"kind": "simple", "contours": [], "instructions": b""}]
    variations = {}
    peaks = list(range(1, k + 1))
    chunk = 2500
    gi = 0
    for lo in range(0, k, chunk):
        part = peaks[lo:lo + chunk]
        for _twice in range(2):
            gi += 1
            glyphs.append({"kind": "simple", "contours": [[(rnd.randint(0, 40), rnd.randint(0, 40), True)]], "instructions": b""})
            tl = []
            for p in part:
                reg = {"wght": (0.0, p / F, p / F)}
                if len(tags) == 2:
                    q = (p * 7) % 16384 + 1
                    reg["wdth"] = (0.0, q / F, q / F)
                d = (p % 7 - 3, (p // 7) % 5 - 2)
                tl.append({"region": reg, "deltas": [d, (0, 0), (d[1], 0), (0, 0), (0, 0)]})
            variations[gi] = tl
    # a few peaks used only once (never shared) and one used three times
    gi += 1
    glyphs.append({"kind": "simple", "contours": [[(5, 5, True)]], "instructions": b""})
    variations[gi] = [{"region": {"wght": (-1.0, -1.0, 0.0)}, "deltas": [(1, 1)] * 5},
                      {"region": {"wght": (0.0, 1 / F, 1 / F)} if len(tags) == 1 else {"wght": (0.0, 1 / F, 1 / F), "wdth": (0.0, 8 / F, 8 / F)},
                       "deltas": [(2, -2)] * 5}]
    return {"axes": tags, "glyphs": glyphs, "variations": variations}
