"""Generated CFF fonts with accented glyphs expressed through the Type 2 `endchar` seac form
(`[w] adx ady bchar achar endchar`), with and without an explicit width operand, optionally
subroutinised by hand, plus a little GSUB/GPOS so that shaping is exercised (C07).

Base and accent glyphs carry their StandardEncoding names (the seac operands are StandardEncoding
codes).  Every glyph is mapped from U+F0000 + glyph id.
"""
import io

PUA = 0xF0000
BASES = {"A": 65, "E": 69, "O": 79, "U": 85, "a": 97, "e": 101, "o": 111, "u": 117}
ACCENTS = {"grave": 193, "acute": 194, "circumflex": 195, "tilde": 196, "dieresis": 200}


def program(rnd):
    bases = rnd.sample(sorted(BASES), rnd.randint(3, 6))
    accents = rnd.sample(sorted(ACCENTS), rnd.randint(2, 4))
    default_w = rnd.choice([500, 520, 600])
    nominal_w = rnd.choice([0, 480, 600])
    glyphs = [{"name": ".notdef", "adv": default_w, "kind": "box", "uid": 0}]
    for i, b in enumerate(bases):
        glyphs.append({"name": b, "adv": rnd.choice([default_w, 480 + 20 * i, 640]), "kind": "box", "uid": 3 + i})
    for i, a in enumerate(accents):
        glyphs.append({"name": a, "adv": rnd.choice([default_w, 300 + 10 * i]), "kind": "box", "uid": 40 + i, "accent": True})
    n = 0
    for b in bases:
        for a in accents:
            if rnd.random() < 0.55:
                # width equal to defaultWidthX (4 operands) or explicit (5 operands)
                adv = default_w if rnd.random() < 0.4 else rnd.choice([560, 610, 655, 700]) + n
                glyphs.append({"name": b + a, "adv": adv, "kind": "seac", "base": b, "accent_name": a,
                               "adx": rnd.randrange(40, 200), "ady": rnd.randrange(0, 250)})
                n += 1
    plain = ["x%d" % i for i in range(rnd.randint(2, 4))]
    for i, p in enumerate(plain):
        glyphs.append({"name": p, "adv": 450 + 30 * i, "kind": "box", "uid": 60 + i})
    x0, x1 = plain[0], plain[1]
    fea = "languagesystem DFLT dflt;\nfeature liga { sub %s %s by %s_%s; } liga;\nfeature kern { pos %s %s -40; pos %s %s 25; } kern;\n" % (
        x0, x1, x0, x1, bases[0], bases[1], x0, bases[0])
    glyphs.append({"name": "%s_%s" % (x0, x1), "adv": 800, "kind": "box", "uid": 90})
    return {"glyphs": glyphs, "fea": fea, "defaultWidthX": default_w, "nominalWidthX": nominal_w,
            "subr": rnd.choice([None, None, "global", "local", "both"])}


def build(prog):
    from fontTools.fontBuilder import FontBuilder
    from fontTools.misc.psCharStrings import T2CharString

    order = [g["name"] for g in prog["glyphs"]]
    dw, nw = prog["defaultWidthX"], prog["nominalWidthX"]
    fb = FontBuilder(1000, isTTF=False)
    fb.setupGlyphOrder(order)
    fb.setupCharacterMap({PUA + i: n for i, n in enumerate(order)})
    cs = {}
    for g in prog["glyphs"]:
        width = [] if g["adv"] == dw else [g["adv"] - nw]
        if g["kind"] == "seac":
            p = width + [g["adx"], g["ady"], BASES[g["base"]], ACCENTS[g["accent_name"]], "endchar"]
        else:
            u = g["uid"]
            w, h = 100 + 9 * (u % 23), 120 + 11 * (u % 31)
            y0 = 500 if g.get("accent") else 0
            if g.get("accent"):
                w, h = 60 + 5 * (u % 7), 60 + 7 * (u % 5)
            p = width + [30, y0, "rmoveto", 0, h, "rlineto", w, -(u % 9) - 1, "rlineto", 0, -(h - (u % 9) - 1), "rlineto", "endchar"]
        cs[g["name"]] = T2CharString(program=p)
    fb.setupCFF("SeacGen-Regular", {"FullName": "Seac Gen"}, cs, {"defaultWidthX": dw, "nominalWidthX": nw})
    fb.setupHorizontalMetrics({g["name"]: (g["adv"], 30) for g in prog["glyphs"]})
    fb.setupHorizontalHeader(ascent=800, descent=-200)
    fb.setupNameTable({"familyName": "SeacGen", "styleName": "Regular"})
    fb.setupOS2()
    fb.setupPost()
    fb.addOpenTypeFeatures(prog["fea"])
    b = io.BytesIO()
    fb.save(b)
    data = b.getvalue()
    if prog.get("subr"):
        from vmon.gen.c18_fonts import subroutinise

        data = subroutinise(data, prog["subr"])
    return data
