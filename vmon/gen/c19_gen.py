"""Seeded generators for C19: designspace specs, glyph records, fontinfo, kerning/groups,
layer names, glyph-name sequences and plist trees.  Pure functions of a random.Random;
no import of the library under test."""
import datetime

# ---------------------------------------------------------------------------
# strings
# ---------------------------------------------------------------------------
ASCII_WORDS = ["Regular", "Bold", "Light Italic", "Condensed", "wght", "Display", "Text", "a.alt", "A_B", "x"]
UNI_WORDS = ["Wéíght", "قطر", "モンセラート", "半ば", "Demi-gras", "Ж", "ß", "İi", "𝔘𝔫𝔦", "🅰️", "é", "Ǆǅǆ", "ς σ"]
XML_WORDS = ["a<b", "R&D", 'say "hi"', "it's", "x>y", "<!--c-->", "&amp;", "]]>", "<![CDATA[x]]>", "a&#10;b"]
WS_WORDS = ["two  spaces", " lead", "trail ", "tab\there", "line\nbreak", " ", "a\n b"]


def text(rnd, xml=True, ws=False, empty=False):
    pools = [ASCII_WORDS, ASCII_WORDS, UNI_WORDS]
    if xml:
        pools.append(XML_WORDS)
    if ws:
        pools.append(WS_WORDS)
    s = rnd.choice(rnd.choice(pools))
    if rnd.random() < 0.3:
        s = s + rnd.choice([" ", "-", "."]) + rnd.choice(rnd.choice(pools))
    if empty and rnd.random() < 0.05:
        return ""
    return s


def ident(rnd, used):
    """UFO identifier: 1..100 chars in 0x20..0x7E, unique in `used`."""
    while True:
        n = rnd.choice([1, 2, 3, 8, 10, 36, 99, 100, 100])      # 100 is the longest identifier the UFO 3 spec allows
        alphabet = "abcXYZ019-_ <&>\"'~ !" if rnd.random() < 0.3 else "abcdefghijklmnopqrstuvwxyzABCDEF0123456789"
        s = "".join(rnd.choice(alphabet) for _ in range(n))
        if s not in used:
            used.add(s)
            return s


def color(rnd):
    return rnd.choice(["1,0,0,1", "0,0,0,0", "0.5,0.25,1,0.75", ".5,.5,.5,.5", "0, 1, 0, 1", "1,1,1,0.125"])


# ---------------------------------------------------------------------------
# numbers
# ---------------------------------------------------------------------------
def ds_number(rnd, lo=-1000, hi=2000):
    """Numbers a designspace can carry losslessly: integers (as int or float) and
    decimals with at most 4 fractional digits."""
    r = rnd.random()
    if r < 0.45:
        return rnd.randrange(int(lo), int(hi) + 1)
    if r < 0.6:
        return float(rnd.randrange(int(lo), int(hi) + 1))
    if r < 0.9:
        return round(rnd.uniform(lo, hi), rnd.choice([1, 2, 3, 4]))
    return rnd.choice([0, 0.5, -0.25, 1000000, 12.125, 0.0001, -0.0001, 99999.9999])


def glif_number(rnd, big=False):
    r = rnd.random()
    if r < 0.5:
        return rnd.randrange(-2000, 3000)
    if r < 0.65:
        return float(rnd.randrange(-2000, 3000))
    if r < 0.9:
        return rnd.uniform(-2000, 3000)
    return rnd.choice([0, 0.0, -0.0, 1e-7, -1.5e-9, 1e21, 123456789012345678, -2 ** 63, 0.1 + 0.2, 1 / 3,
                       2.5e-300, 1.7976931348623157e308, 5e-324, 100000.0, 1e16, 16777217])


# ---------------------------------------------------------------------------
# plist trees
# ---------------------------------------------------------------------------
INT_EDGES = [0, 1, -1, 2 ** 31 - 1, 2 ** 31, -2 ** 31, 2 ** 32, 2 ** 53, 2 ** 63 - 1, -2 ** 63, 2 ** 63, 2 ** 64 - 1,
             10 ** 15, -10 ** 18]
FLOAT_EDGES = [0.0, -0.0, 1.0, -1.0, 0.1, 1e-7, 1e-300, 5e-324, 1e22, 1e300, 1.7976931348623157e308, 2.0 ** 53,
               100.0, 1e16, 0.30000000000000004, -123456.789]
STR_EDGES = ["", " ", "  two  ", "\t", "a\nb", "\n", "a\r\nb", "\r", "<&>\"'", "]]>", "&lt;", "<string>x</string>",
             "𝔘𝔫𝔦𝔠𝔬𝔡𝔢", "\U0010FFFD", "é", " ", " ", "﻿bom", "ünï", "0", "true", "1.0",
             "x" * 300, " lead and trail "]
DATES = [datetime.datetime(2001, 1, 1), datetime.datetime(1970, 1, 1, 0, 0, 0), datetime.datetime(2024, 2, 29, 23, 59, 59),
         datetime.datetime(1, 1, 1), datetime.datetime(9999, 12, 31, 23, 59, 59), datetime.datetime(1904, 1, 1, 12, 30, 1)]


def plist_bytes(rnd):
    n = rnd.choice([0, 1, 2, 3, 4, 5, 30, 45, 46, 47, 48, 57, 58, 60, 100, 300, 1000])
    kind = rnd.random()
    if kind < 0.2:
        return bytes(n)
    if kind < 0.3:
        return bytes([255]) * n
    return bytes(rnd.randrange(256) for _ in range(n))


def plist_leaf(rnd):
    r = rnd.random()
    if r < 0.14:
        return rnd.choice(INT_EDGES) if rnd.random() < 0.5 else rnd.randrange(-10 ** 6, 10 ** 6)
    if r < 0.30:
        return rnd.choice(FLOAT_EDGES) if rnd.random() < 0.5 else rnd.uniform(-1e4, 1e4) * 10 ** rnd.randrange(-8, 9)
    if r < 0.38:
        return rnd.random() < 0.5
    if r < 0.62:
        return rnd.choice(STR_EDGES) if rnd.random() < 0.5 else text(rnd, ws=True)
    if r < 0.76:
        return plist_bytes(rnd)
    if r < 0.84:
        return rnd.choice(DATES) if rnd.random() < 0.6 else datetime.datetime(
            rnd.randrange(1, 9999), rnd.randrange(1, 13), rnd.randrange(1, 29), rnd.randrange(24), rnd.randrange(60), rnd.randrange(60))
    if r < 0.92:
        return [] if rnd.random() < 0.5 else {}
    return text(rnd)


def plist_key(rnd):
    r = rnd.random()
    if r < 0.05:
        return ""            # the empty string is a legal dictionary key
    if r < 0.6:
        return rnd.choice(["com.example.key", "public.thing", "a", "B", "key with space", "k1", "k2", "k3", "z.last"])
    if r < 0.8:
        return rnd.choice(STR_EDGES[2:3] + STR_EDGES[8:12] + STR_EDGES[12:15] + ["ünï", "0", " "])
    return text(rnd) + str(rnd.randrange(100))


def plist_tree(rnd, depth=0, maxdepth=4, container=None):
    if container is None:
        if depth >= maxdepth or rnd.random() < 0.45:
            return plist_leaf(rnd)
        container = rnd.choice(["dict", "list"])
    n = rnd.choice([0, 1, 2, 3, 5, 8]) if depth else rnd.choice([1, 3, 6, 12])
    if container == "dict":
        d = {}
        for _ in range(n):
            d[plist_key(rnd)] = plist_tree(rnd, depth + 1, maxdepth)
        return d
    return [plist_tree(rnd, depth + 1, maxdepth) for _ in range(n)]


def plist_deep(rnd, depth):
    v = plist_leaf(rnd)
    for i in range(depth):
        v = {"k%d" % i: v, "s": i} if i % 2 else [v, i]
    return v


def plist_classes(v, out=None, depth=0):
    """Structural classes present in a tree (for distinct-nontrivial keys)."""
    if out is None:
        out = set()
    if isinstance(v, bool):
        out.add("bool")
    elif isinstance(v, int):
        out.add("int>63" if v >= 2 ** 63 else "int>53" if abs(v) >= 2 ** 53 else "int")
    elif isinstance(v, float):
        out.add("real-0" if (v == 0 and str(v)[0] == "-") else "real-int" if v == int(v) and abs(v) < 1e15 else "real-exp" if "e" in repr(v) else "real")
    elif isinstance(v, str):
        out.add("str-empty" if v == "" else "str-ws" if v != v.strip() or "\n" in v or "\t" in v or "\r" in v else
                "str-xml" if any(c in v for c in "<&>") else "str-nonbmp" if any(ord(c) > 0xFFFF for c in v) else "str")
    elif isinstance(v, (bytes, bytearray)):
        out.add("data%d%s" % (len(v) % 3, "-long" if len(v) > 57 else "-0" if len(v) == 0 else ""))
    elif isinstance(v, datetime.datetime):
        out.add("date")
    elif isinstance(v, dict):
        out.add("dict-empty" if not v else "dict")
        if "" in v:
            out.add("key-empty")
        for x in v.values():
            plist_classes(x, out, depth + 1)
    elif isinstance(v, (list, tuple)):
        out.add("array-empty" if not v else "array")
        for x in v:
            plist_classes(x, out, depth + 1)
    if depth >= 6:
        out.add("deep")
    return out


def lib_dict(rnd, small=False):
    d = {}
    for _ in range(rnd.choice([1, 2, 3] if small else [1, 2, 4, 7])):
        d[rnd.choice(["com.example.lib", "public.skipExportGlyphs", "org.test.data", "k", "com.x.nested", "ünï.key"])
          + str(rnd.randrange(4))] = plist_tree(rnd, 1, 3 if small else 4)
    if rnd.random() < 0.12:
        d[""] = plist_tree(rnd, 1, 2)      # empty-string key at the top level of a lib
    return d


# ---------------------------------------------------------------------------
# designspace specs (plain dicts; the check builds descriptors from them)
# ---------------------------------------------------------------------------
LANGS = ["fr", "de", "ja", "fa-IR", "zh-Hant", "nl", "pt-BR"]


def localised(rnd, p=0.5, n=(1, 2, 3)):
    if rnd.random() > p:
        return {}
    return {lang: text(rnd) for lang in rnd.sample(LANGS, rnd.choice(n))}


def r4(x):
    return round(x, 4) if isinstance(x, float) else x


def ds_axis(rnd, i, v5, discrete=False):
    name = ["Weight", "Width", "Optical", "Italic", "Grade", "Ünï axis", "x<&>y"][i % 7] + ("" if i < 7 else str(i))
    tag = ["wght", "wdth", "opsz", "ital", "GRAD", "UNIA", "XMLA"][i % 7]
    ax = {"name": name, "tag": tag, "hidden": rnd.random() < 0.25, "labelNames": localised(rnd, 0.5),
          "map": [], "axisOrdering": None, "axisLabels": []}
    if rnd.random() < 0.3:
        ax["labelNames"]["en"] = text(rnd)
    if discrete:
        vals = sorted(set(ds_number(rnd, 0, 10) for _ in range(rnd.choice([2, 3, 4]))))
        if len(vals) < 2:
            vals = [0, 1]
        ax.update(kind="discrete", values=vals, default=rnd.choice(vals))
        if rnd.random() < 0.6:
            outs = rnd.sample(range(-20, 40), len(vals))
            ax["map"] = [(v, o) for v, o in zip(vals, outs)]
    else:
        lo = ds_number(rnd, -200, 400)
        hi = r4(lo + abs(ds_number(rnd, 1, 900)) + 1)
        de = rnd.choice([lo, hi, round((lo + hi) / 2, 2), r4(lo + (hi - lo) / 4)])
        if rnd.random() < 0.5:
            lo, hi, de = int(lo), int(hi) + 1, int(de) if lo <= int(de) else int(lo)
            de = min(max(de, lo), hi)
        ax.update(kind="continuous", minimum=lo, maximum=hi, default=de)
        if rnd.random() < 0.65:
            ax["map"] = ds_map(rnd, lo, de, hi)
    if v5 and rnd.random() < 0.6:
        ax["axisOrdering"] = rnd.choice([0, 1, 2, 5, i])
    if v5 and rnd.random() < 0.6:
        for _ in range(rnd.choice([1, 2, 3])):
            fmt = rnd.choice([1, 2, 3])
            uv = ds_number(rnd, 0, 1000)
            lab = {"name": text(rnd), "userValue": uv, "userMinimum": None, "userMaximum": None,
                   "linkedUserValue": None, "elidable": rnd.random() < 0.3, "olderSibling": rnd.random() < 0.2,
                   "labelNames": localised(rnd, 0.4)}
            if fmt == 2:
                lab["userMinimum"] = r4(uv - abs(ds_number(rnd, 0, 50)))
                lab["userMaximum"] = r4(uv + abs(ds_number(rnd, 0, 50)))
            elif fmt == 3:
                lab["linkedUserValue"] = ds_number(rnd, 0, 1000)
            ax["axisLabels"].append(lab)
    return ax


def ds_map(rnd, lo, de, hi, integral=None):
    """A strictly increasing map covering [lo, hi] (most of the time)."""
    n = rnd.choice([2, 3, 4, 6])
    ins = sorted({lo, hi, de} | {round(rnd.uniform(lo, hi), 2) for _ in range(n - 2)})
    if integral or (integral is None and rnd.random() < 0.5):
        ins = sorted({int(x) for x in ins})
    o = rnd.choice([0, 10, -50, 20.5]) if not integral else rnd.choice([0, 10, -50])
    outs = []
    for _ in ins:
        o += rnd.choice([1, 5, 20, 77, 150]) if integral else rnd.choice([1, 5, 20.25, 77, 150.5, 0.5])
        outs.append(o)
    return [(r4(a), r4(b)) for a, b in zip(ins, outs)]


def ds_location(rnd, axes, partial, design=True, aniso=False):
    loc = {}
    for ax in axes:
        if partial and rnd.random() < 0.4:
            continue
        if ax["kind"] == "discrete":
            v = rnd.choice(ax["values"])
            if design and ax["map"]:
                v = dict(ax["map"]).get(v, v)
        else:
            v = ds_number(rnd, 0, 1000)
        if aniso and design and rnd.random() < 0.25:
            v = (v, ds_number(rnd, 0, 1000))
        loc[ax["name"]] = v
    return loc


def ds_spec(rnd, fmt, features):
    """fmt: '4.0', '4.1', '5.0', None.  features: set of strings steering which
    optional constructs appear (the structural class of the case)."""
    v5 = fmt is None or fmt.startswith("5") or "up" in features
    naxes = rnd.choice([1, 2, 3, 4])
    axes = []
    for i in range(naxes):
        axes.append(ds_axis(rnd, i, v5 and "labels" in features, discrete=(v5 and "discrete" in features and (i == naxes - 1 or rnd.random() < 0.3))))
    spec = {"formatVersion": fmt, "elidedFallbackName": (text(rnd) if v5 and "labels" in features and rnd.random() < 0.6 else None),
            "axes": axes, "axisMappings": [], "locationLabels": [], "rules": [], "rulesProcessingLast": False,
            "sources": [], "variableFonts": [], "instances": [], "lib": {}}
    cont = [a for a in axes if a["kind"] == "continuous"]
    if "mappings" in features and v5 and len(cont) >= 1:
        # group descriptions are a per-mapping attribute of an ORDERED list: groups need not be contiguous
        # (["low", "high", "low"], [None, "x", None]); also contiguous runs and a single group
        gpool = [None, text(rnd), text(rnd) + " 2"]
        nmap = rnd.choice([1, 2, 3, 4, 4, 6])
        style = rnd.random()
        for k in range(nmap):
            gd = gpool[0] if style < 0.15 else gpool[(k * 3 // max(nmap, 1)) % 3] if style < 0.4 else rnd.choice(gpool)
            for _ in range(1):
                spec["axisMappings"].append({
                    "inputLocation": {a["name"]: ds_number(rnd, 0, 1000) for a in rnd.sample(cont, rnd.randrange(1, len(cont) + 1))},
                    "outputLocation": {a["name"]: ds_number(rnd, 0, 1000) for a in rnd.sample(cont, rnd.randrange(1, len(cont) + 1))},
                    "description": rnd.choice([None, text(rnd)]), "groupDescription": gd})
    if "loclabels" in features and v5:
        for i in range(rnd.choice([1, 2, 3])):
            spec["locationLabels"].append({
                "name": "Label %d %s" % (i, text(rnd)), "elidable": rnd.random() < 0.3, "olderSibling": rnd.random() < 0.3,
                "userLocation": ds_location(rnd, axes, partial=True, design=False) or {axes[0]["name"]: 5},
                "labelNames": localised(rnd, 0.5)})
    if "rules" in features:
        spec["rulesProcessingLast"] = rnd.random() < 0.5
        for i in range(rnd.choice([1, 2, 3])):
            sets = []
            for _ in range(rnd.choice([0, 1, 2, 3])):
                cs = []
                for a in rnd.sample(axes, rnd.randrange(0, len(axes) + 1)):
                    lo = ds_number(rnd, 0, 500)
                    k = rnd.random()
                    cs.append({"name": a["name"], "minimum": None if k < 0.2 else lo,
                               "maximum": None if 0.2 <= k < 0.4 else r4(lo + abs(ds_number(rnd, 0, 500)))})
                sets.append(cs)
            spec["rules"].append({"name": rnd.choice([None, "rule%d" % i, text(rnd)]), "conditionSets": sets,
                                  "subs": [(text(rnd, xml=True) + str(j), rnd.choice(["a.alt", "dollar.alt", "ß.alt", "x<y"]))
                                           for j in range(rnd.choice([1, 2, 4]))]})
    nsrc = rnd.choice([1, 2, 3, 5])
    for i in range(nsrc):
        s = {"filename": rnd.choice([None, "masters/M%d.ufo" % i, "M %d é.ufo" % i, "../up/M%d.ufo" % i]),
             "path": None, "name": rnd.choice(["master.%d" % i, text(rnd) + str(i)]),
             "designLocation": ds_location(rnd, axes, partial=(v5 and "partial" in features)),
             "layerName": rnd.choice([None, None, "background", text(rnd)]),
             "familyName": rnd.choice([None, text(rnd)]), "styleName": rnd.choice([None, text(rnd)]),
             "localisedFamilyName": localised(rnd, 0.5) if (v5 and "localised" in features) else {},
             "copyLib": False, "copyInfo": False, "copyGroups": False, "copyFeatures": False,
             "muteKerning": False, "muteInfo": False, "mutedGlyphNames": []}
        if "flags" in features:
            for f in ("copyLib", "copyInfo", "copyGroups", "copyFeatures", "muteKerning", "muteInfo"):
                s[f] = rnd.random() < 0.5
            s["mutedGlyphNames"] = [text(rnd) for _ in range(rnd.choice([0, 1, 3]))]
        spec["sources"].append(s)
    if "vfs" in features and v5:
        for i in range(rnd.choice([1, 2])):
            subs = []
            for a in rnd.sample(axes, rnd.randrange(1, len(axes) + 1)):
                if a["kind"] == "discrete" or rnd.random() < 0.35:
                    subs.append({"kind": "value", "name": a["name"],
                                 "userValue": rnd.choice(a["values"]) if a["kind"] == "discrete" else ds_number(rnd, 0, 900)})
                elif rnd.random() < 0.5:
                    subs.append({"kind": "range", "name": a["name"], "userMinimum": None, "userDefault": None, "userMaximum": None})
                else:
                    lo = ds_number(rnd, 0, 400)
                    subs.append({"kind": "range", "name": a["name"], "userMinimum": lo, "userDefault": r4(lo + 1),
                                 "userMaximum": r4(lo + 1 + abs(ds_number(rnd, 0, 400)))})
            spec["variableFonts"].append({"name": "VF%d %s" % (i, text(rnd)), "filename": rnd.choice([None, "VF%d.ttf" % i, "out/VF é.ttf"]),
                                          "axisSubsets": subs, "lib": lib_dict(rnd, small=True) if rnd.random() < 0.5 else {}})
    for i in range(rnd.choice([0, 1, 2, 4])):
        inst = {"filename": rnd.choice([None, "instances/I%d.ufo" % i, "I %d ü.ufo" % i]), "path": None,
                "name": rnd.choice([None, "instance.%d" % i, text(rnd) + str(i)]),
                "locationLabel": None, "designLocation": {}, "userLocation": {},
                "familyName": rnd.choice([None, text(rnd)]), "styleName": rnd.choice([None, text(rnd)]),
                "postScriptFontName": rnd.choice([None, "Fam-Style%d" % i]),
                "styleMapFamilyName": rnd.choice([None, text(rnd)]),
                "styleMapStyleName": rnd.choice([None, "regular", "bold italic"]),
                "localisedFamilyName": {}, "localisedStyleName": {}, "localisedStyleMapFamilyName": {},
                "localisedStyleMapStyleName": {}, "glyphs": {}, "kerning": True, "info": True,
                "lib": lib_dict(rnd, small=True) if ("lib" in features and rnd.random() < 0.6) else {}}
        if "localised" in features:
            for k in ("localisedFamilyName", "localisedStyleName", "localisedStyleMapFamilyName", "localisedStyleMapStyleName"):
                inst[k] = localised(rnd, 0.6)
        if v5:
            mode = rnd.choice(["design", "user", "mixed", "label"]) if "userloc" in features else "design"
            if mode == "label" and spec["locationLabels"]:
                inst["locationLabel"] = rnd.choice(spec["locationLabels"])["name"]
            elif mode == "user":
                inst["userLocation"] = ds_location(rnd, axes, partial="partial" in features, design=False)
            elif mode == "mixed":
                for a in axes:
                    one = ds_location(rnd, [a], partial=False, design=rnd.random() < 0.5, aniso=True)
                    if rnd.random() < 0.5:
                        inst["designLocation"].update(ds_location(rnd, [a], False, True, aniso="aniso" in features))
                    else:
                        inst["userLocation"].update(ds_location(rnd, [a], False, False))
                    del one
            else:
                inst["designLocation"] = ds_location(rnd, axes, partial="partial" in features, aniso="aniso" in features)
        else:
            inst["designLocation"] = ds_location(rnd, axes, partial=False, aniso="aniso" in features)
            if "glyphs" in features:
                for g in range(rnd.choice([1, 2, 3])):
                    gd = {}
                    if rnd.random() < 0.4:
                        gd["mute"] = True
                    if rnd.random() < 0.5:
                        gd["unicodes"] = [rnd.choice([0x41, 0x1F600, 0xE9, 0x10FFFF]) for _ in range(rnd.choice([1, 2]))]
                    if rnd.random() < 0.5:
                        gd["note"] = text(rnd)
                    if rnd.random() < 0.6:
                        gd["instanceLocation"] = ds_location(rnd, axes, partial=False, aniso="aniso" in features)
                    if rnd.random() < 0.5:
                        gd["masters"] = [{"font": "master.%d" % m, "glyphName": rnd.choice(["g%d" % g, "g.alt", "ß"]),
                                          "location": ds_location(rnd, axes, partial=False)} for m in range(rnd.choice([1, 2]))]
                    inst["glyphs"]["g%d%s" % (g, rnd.choice(["", ".ü", "<x>"]))] = gd
        spec["instances"].append(inst)
    if "lib" in features:
        spec["lib"] = lib_dict(rnd)
    return spec


# ---------------------------------------------------------------------------
# glyph records
# ---------------------------------------------------------------------------
def glyph_contour(rnd, fmt, used_ids, kinds):
    pts = []

    def pt(t, smooth=False):
        p = {"x": glif_number(rnd), "y": glif_number(rnd), "type": t, "smooth": bool(smooth and t is not None and rnd.random() < 0.4),
             "name": rnd.choice([None, None, None, text(rnd), "ünï", "<&>"]), "identifier": None}
        if fmt == 2 and rnd.random() < 0.25:
            p["identifier"] = ident(rnd, used_ids)
        return p

    kind = rnd.choice(kinds)
    if kind == "offcurve-only":
        pts = [pt(None) for _ in range(rnd.choice([2, 3, 4, 8]))]
    else:
        open_ = kind == "open"
        nseg = rnd.choice([1, 2, 3, 5, 9])
        if open_:
            pts.append(pt("move"))
        for s in range(nseg):
            st = rnd.choice(["line", "curve", "curve", "qcurve"])
            if st == "curve":
                for _ in range(rnd.choice([0, 1, 2, 2])):
                    pts.append(pt(None))
            elif st == "qcurve":
                for _ in range(rnd.choice([0, 1, 2, 3, 5])):
                    pts.append(pt(None))
            pts.append(pt(st, smooth=True))
        if not open_ and rnd.random() < 0.5 and len(pts) > 1:
            # rotate so that the contour starts with off-curves belonging to the last segment
            first_on = next(i for i, p in enumerate(pts) if p["type"] is not None)
            # leading offcurves wrap onto the *first* on-curve's segment; keep arity legal:
            k = rnd.randrange(len(pts))
            rot = pts[k:] + pts[:k]
            # legal iff no line point is preceded (cyclically) by an offcurve and curve has <=2
            ok = True
            for i, p in enumerate(rot):
                cnt = 0
                j = i - 1
                while rot[j % len(rot)]["type"] is None and cnt < len(rot):
                    cnt += 1
                    j -= 1
                if p["type"] == "line" and cnt:
                    ok = False
                if p["type"] == "curve" and cnt > 2:
                    ok = False
            if ok:
                pts = rot
            del first_on
    c = {"identifier": ident(rnd, used_ids) if (fmt == 2 and rnd.random() < 0.3) else None, "points": pts}
    return c


def glyph_component(rnd, fmt, used_ids):
    r = rnd.random()
    if r < 0.25:
        tr = (1, 0, 0, 1, 0, 0)
    elif r < 0.4:
        tr = (1.0, 0.0, 0.0, 1.0, 0.0, 0.0)
    elif r < 0.6:
        tr = (1, 0, 0, 1, glif_number(rnd), glif_number(rnd))
    else:
        tr = tuple(rnd.choice([d, d, glif_number(rnd), rnd.uniform(-2, 2), float(d), 0.5, -1, 0, 0.0, 1])
                   for d in (1, 0, 0, 1, 0, 0))
    return {"base": rnd.choice(["a", "acute", "A.sc", "ünï", "x<&>\"y", "uni0301"]), "transformation": tr,
            "identifier": ident(rnd, used_ids) if (fmt == 2 and rnd.random() < 0.4) else None}


def glyph_spec(rnd, fmt, features):
    used = set()
    g = {"name": rnd.choice(["a", "A", "a.alt", "Aacute_V.swash", "ünï", "x<&>\"y", ".notdef", "con", "uni0041", "ß"]),
         "width": None, "height": None, "unicodes": None, "note": None, "image": None, "guidelines": None,
         "anchors": None, "lib": None, "outline": None}
    if "advance" in features:
        g["width"] = rnd.choice([0, 500, 512.5, glif_number(rnd), 1000.0])
        g["height"] = rnd.choice([None, 0, 1000, 0.25, glif_number(rnd)])
    if "unicodes" in features:
        g["unicodes"] = [rnd.choice([0x41, 0x61, 0xE9, 0x1F600, 0x10FFFF, 0, 0xFFFF, 0x20AC]) for _ in range(rnd.choice([1, 2, 4]))]
    if "note" in features:
        g["note"] = "\n".join(text(rnd).strip() or "x" for _ in range(rnd.choice([1, 2, 3])))
        g["note"] = "\n".join(l.strip() for l in g["note"].split("\n") if l.strip())
    if "image" in features and fmt == 2:
        img = {"fileName": rnd.choice(["a.png", "Ünï image.png", "x&y.png"])}
        for k, d in (("xScale", 1), ("xyScale", 0), ("yxScale", 0), ("yScale", 1), ("xOffset", 0), ("yOffset", 0)):
            if rnd.random() < 0.5:
                img[k] = rnd.choice([d, float(d), glif_number(rnd), 0.5])
        if rnd.random() < 0.5:
            img["color"] = color(rnd)
        g["image"] = img
    if "guidelines" in features and fmt == 2:
        gl = []
        for _ in range(rnd.choice([1, 2, 4])):
            k = rnd.choice(["x", "y", "xya"])
            d = {}
            if "x" in k:
                d["x"] = glif_number(rnd)
            if "y" in k:
                d["y"] = glif_number(rnd)
            if k == "xya":
                d["angle"] = rnd.choice([0, 90, 360, 45.5, 0.0, rnd.uniform(0, 360)])
            if rnd.random() < 0.5:
                d["name"] = text(rnd)
            if rnd.random() < 0.4:
                d["color"] = color(rnd)
            if rnd.random() < 0.4:
                d["identifier"] = ident(rnd, used)
            gl.append(d)
        g["guidelines"] = gl
    if "anchors" in features:
        an = []
        for i in range(rnd.choice([1, 2, 3])):
            d = {"x": glif_number(rnd), "y": glif_number(rnd)}
            if fmt == 1:
                d["name"] = rnd.choice(["top", "_top", "bottom", "ünï", "a<b"]) + str(i)
            else:
                if rnd.random() < 0.7:
                    d["name"] = rnd.choice(["top", "_top", "bottom", "ünï", "a<b"])
                if rnd.random() < 0.4:
                    d["color"] = color(rnd)
                if rnd.random() < 0.4:
                    d["identifier"] = ident(rnd, used)
            an.append(d)
        g["anchors"] = an
    if "lib" in features:
        g["lib"] = lib_dict(rnd, small=rnd.random() < 0.5)
        if rnd.random() < 0.3:
            g["lib"]["public.markColor"] = color(rnd)
    if "outline" in features or "components" in features or "empty-outline" in features:
        out = []
        if "outline" in features:
            kinds = ["closed", "closed", "open", "offcurve-only"]
            for _ in range(rnd.choice([1, 2, 3, 6])):
                c = glyph_contour(rnd, fmt, used, kinds)
                if fmt == 1 and len(c["points"]) == 1 and c["points"][0]["type"] == "move" and c["points"][0]["name"] is not None:
                    c["points"][0]["name"] = None      # would be a GLIF 1 anchor by convention
                out.append(("contour", c))
            if rnd.random() < 0.15:
                out.append(("contour", {"identifier": None, "points": []}))
        if "components" in features:
            for _ in range(rnd.choice([1, 2, 4])):
                out.insert(rnd.randrange(len(out) + 1), ("component", glyph_component(rnd, fmt, used)))
        g["outline"] = out
    return g


# ---------------------------------------------------------------------------
# fontinfo
# ---------------------------------------------------------------------------
def _int(rnd, lo=-2000, hi=3000):
    return rnd.randrange(lo, hi)


def _numv(rnd):
    return rnd.choice([_int(rnd), float(_int(rnd)), round(rnd.uniform(-2000, 3000), 3), rnd.uniform(-1, 1)])


def _intlist(rnd, options):
    return sorted(rnd.sample(options, rnd.randrange(0, min(len(options), 6) + 1)))


def _created(rnd):
    import calendar
    y = rnd.choice([1904, 1970, 2000, 2024, 9999, 1, 2038])
    m = rnd.randrange(1, 13)
    d = rnd.randrange(1, calendar.monthrange(y, m)[1] + 1)
    return "%04d/%02d/%02d %02d:%02d:%02d" % (y, m, d, rnd.randrange(24), rnd.randrange(60), rnd.randrange(60))


def _wofftext(rnd):
    d = {"text": text(rnd, ws=True)}
    if rnd.random() < 0.5:
        d["language"] = rnd.choice(LANGS + ["en"])
    if rnd.random() < 0.4:
        d["dir"] = rnd.choice(["ltr", "rtl"])
    if rnd.random() < 0.3:
        d["class"] = "c1 c2"
    return d


def fontinfo_v3(rnd, density=0.6, v2_compatible=False):
    """Every fontinfo.plist attribute of UFO 3 (UFO 2 when v2_compatible) inside its valid range."""
    S = lambda: text(rnd, ws=True, empty=True)
    info = {}

    def put(k, v):
        if rnd.random() < density:
            info[k] = v

    for k in ("familyName", "styleName", "styleMapFamilyName", "copyright", "trademark", "note",
              "openTypeNameDesigner", "openTypeNameDesignerURL", "openTypeNameManufacturer", "openTypeNameManufacturerURL",
              "openTypeNameLicense", "openTypeNameLicenseURL", "openTypeNameVersion", "openTypeNameUniqueID",
              "openTypeNameDescription", "openTypeNamePreferredFamilyName", "openTypeNamePreferredSubfamilyName",
              "openTypeNameCompatibleFullName", "openTypeNameSampleText", "openTypeNameWWSFamilyName",
              "openTypeNameWWSSubfamilyName", "openTypeOS2VendorID", "postscriptFontName", "postscriptFullName",
              "postscriptWeightName", "postscriptDefaultCharacter", "macintoshFONDName"):
        put(k, S())
    put("styleMapStyleName", rnd.choice(["regular", "italic", "bold", "bold italic"]))
    put("versionMajor", _int(rnd, 0, 100))
    put("versionMinor", _int(rnd, 0, 1000))
    put("year", _int(rnd, 1900, 2100))
    put("unitsPerEm", rnd.choice([1000, 2048, 16, 1000.0, 1024.5, 0]))
    for k in ("descender", "xHeight", "capHeight", "ascender", "italicAngle", "postscriptSlantAngle",
              "postscriptUnderlineThickness", "postscriptUnderlinePosition", "postscriptBlueFuzz", "postscriptBlueShift",
              "postscriptBlueScale", "postscriptDefaultWidthX", "postscriptNominalWidthX"):
        put(k, _numv(rnd))
    put("openTypeHeadCreated", _created(rnd))
    put("openTypeHeadLowestRecPPEM", _int(rnd, 0, 100))
    put("openTypeHeadFlags", _intlist(rnd, list(range(0, 15))))
    for k in ("openTypeHheaAscender", "openTypeHheaDescender", "openTypeHheaLineGap", "openTypeHheaCaretSlopeRise",
              "openTypeHheaCaretSlopeRun", "openTypeHheaCaretOffset", "openTypeOS2TypoAscender", "openTypeOS2TypoDescender",
              "openTypeOS2TypoLineGap", "openTypeOS2SubscriptXSize", "openTypeOS2SubscriptYSize", "openTypeOS2SubscriptXOffset",
              "openTypeOS2SubscriptYOffset", "openTypeOS2SuperscriptXSize", "openTypeOS2SuperscriptYSize",
              "openTypeOS2SuperscriptXOffset", "openTypeOS2SuperscriptYOffset", "openTypeOS2StrikeoutSize",
              "openTypeOS2StrikeoutPosition", "openTypeVheaVertTypoAscender", "openTypeVheaVertTypoDescender",
              "openTypeVheaVertTypoLineGap", "openTypeVheaCaretSlopeRise", "openTypeVheaCaretSlopeRun",
              "openTypeVheaCaretOffset", "postscriptUniqueID", "macintoshFONDFamilyID"):
        put(k, _int(rnd))
    put("openTypeOS2WinAscent", _int(rnd, 0, 3000))
    put("openTypeOS2WinDescent", _int(rnd, 0, 3000))
    put("openTypeOS2WidthClass", rnd.randrange(1, 10))
    put("openTypeOS2WeightClass", rnd.choice([0, 1, 100, 400, 950, 1000]))
    put("openTypeOS2Selection", _intlist(rnd, [1, 2, 3, 4, 7, 8, 9]))
    put("openTypeOS2Panose", [rnd.randrange(0, 16) for _ in range(10)])
    put("openTypeOS2FamilyClass", [rnd.randrange(0, 15), rnd.randrange(0, 16)])
    put("openTypeOS2UnicodeRanges", _intlist(rnd, list(range(128))))
    put("openTypeOS2CodePageRanges", _intlist(rnd, list(range(64))))
    put("openTypeOS2Type", _intlist(rnd, [0, 1, 2, 3, 8, 9]))
    put("postscriptIsFixedPitch", rnd.random() < 0.5)
    put("postscriptForceBold", rnd.random() < 0.5)
    put("postscriptBlueValues", [_numv(rnd) for _ in range(rnd.choice([0, 2, 4, 14]))])
    put("postscriptOtherBlues", [_numv(rnd) for _ in range(rnd.choice([0, 2, 10]))])
    put("postscriptFamilyBlues", [_numv(rnd) for _ in range(rnd.choice([0, 2, 6, 14]))])
    put("postscriptFamilyOtherBlues", [_numv(rnd) for _ in range(rnd.choice([0, 4, 10]))])
    put("postscriptStemSnapH", [_numv(rnd) for _ in range(rnd.choice([0, 1, 12]))])
    put("postscriptStemSnapV", [_numv(rnd) for _ in range(rnd.choice([0, 3, 12]))])
    put("postscriptWindowsCharacterSet", rnd.randrange(1, 21))
    if not v2_compatible:
        ppems = sorted(rnd.sample(range(0, 70000), rnd.choice([0, 1, 3])))
        put("openTypeGaspRangeRecords", [{"rangeMaxPPEM": p, "rangeGaspBehavior": _intlist(rnd, [0, 1, 2, 3])} for p in ppems])
        put("openTypeNameRecords", [{"nameID": rnd.randrange(0, 300), "platformID": rnd.choice([0, 1, 3]), "encodingID": rnd.randrange(0, 11),
                                     "languageID": rnd.choice([0, 0x409, 0x411]), "string": text(rnd, ws=True)} for _ in range(rnd.choice([0, 1, 3]))])
        put("woffMajorVersion", _int(rnd, 0, 10))
        put("woffMinorVersion", _int(rnd, 0, 100))
        put("woffMetadataUniqueID", {"id": text(rnd)})
        v = {"name": text(rnd)}
        if rnd.random() < 0.5:
            v["url"] = "http://example.com/?a=1&b=<2>"
        if rnd.random() < 0.3:
            v["dir"] = rnd.choice(["ltr", "rtl"])
        if rnd.random() < 0.3:
            v["class"] = "x"
        put("woffMetadataVendor", v)
        put("woffMetadataCredits", {"credits": [dict({"name": text(rnd)}, **({"role": text(rnd)} if rnd.random() < 0.5 else {}))
                                                for _ in range(rnd.choice([1, 2]))]})
        put("woffMetadataDescription", dict({"text": [_wofftext(rnd) for _ in range(rnd.choice([0, 1, 2]))]},
                                            **({"url": "http://d.example"} if rnd.random() < 0.5 else {})))
        lic = {}
        if rnd.random() < 0.6:
            lic["url"] = "http://l.example"
        if rnd.random() < 0.6:
            lic["text"] = [_wofftext(rnd)]
        if rnd.random() < 0.4:
            lic["id"] = "lic-1"
        put("woffMetadataLicense", lic)
        put("woffMetadataCopyright", {"text": [_wofftext(rnd)]})
        put("woffMetadataTrademark", {"text": [_wofftext(rnd) for _ in range(rnd.choice([1, 2]))]})
        put("woffMetadataLicensee", {"name": text(rnd)})
        put("woffMetadataExtensions", [{"items": [{"names": [_wofftext(rnd)], "values": [_wofftext(rnd)]}],
                                        **({"names": [_wofftext(rnd)]} if rnd.random() < 0.5 else {}),
                                        **({"id": "ext1"} if rnd.random() < 0.5 else {})}])
        used = set()
        gl = []
        for _ in range(rnd.choice([0, 1, 3])):
            d = {rnd.choice(["x", "y"]): _numv(rnd)}
            if rnd.random() < 0.3:
                d = {"x": _numv(rnd), "y": _numv(rnd), "angle": rnd.choice([0, 45.5, 360])}
            if rnd.random() < 0.5:
                d["name"] = text(rnd)
            if rnd.random() < 0.4:
                d["color"] = color(rnd)
            if rnd.random() < 0.4:
                d["identifier"] = ident(rnd, used)
            gl.append(d)
        put("guidelines", gl)
    return info


def fontinfo_invalid(rnd):
    """(attr, value) pairs that the UFO 3 spec forbids: validators must reject them."""
    return rnd.choice([
        ("openTypeOS2WidthClass", 0), ("openTypeOS2WidthClass", 10), ("openTypeOS2WeightClass", -1),
        ("styleMapStyleName", "Bold"), ("openTypeHeadCreated", "2000-01-01 00:00:00"),
        ("openTypeHeadCreated", "2000/13/01 00:00:00"), ("openTypeHeadCreated", "2001/02/29 00:00:00"),
        ("openTypeOS2Panose", [0] * 9), ("openTypeOS2Panose", [0] * 9 + [-1]), ("openTypeOS2FamilyClass", [15, 0]),
        ("openTypeOS2FamilyClass", [0, 16]), ("postscriptBlueValues", [1, 2, 3]), ("postscriptBlueValues", list(range(16))),
        ("postscriptOtherBlues", list(range(12))), ("postscriptStemSnapH", list(range(13))),
        ("postscriptWindowsCharacterSet", 0), ("postscriptWindowsCharacterSet", 21), ("openTypeOS2Selection", [0]),
        ("openTypeOS2Selection", [5]), ("openTypeHeadFlags", [15]), ("openTypeOS2UnicodeRanges", [128]),
        ("openTypeOS2CodePageRanges", [64]), ("openTypeOS2Type", [4]), ("versionMinor", -1), ("unitsPerEm", -1000),
        ("openTypeOS2WinAscent", -1), ("openTypeHheaAscender", 750.5), ("familyName", 12), ("versionMajor", "1"),
        ("woffMajorVersion", -1), ("woffMetadataVendor", {"url": "x"}), ("woffMetadataCredits", {"credits": []}),
        ("woffMetadataVendor", {"name": "n", "dir": "up"}), ("woffMetadataExtensions", []),
        ("openTypeGaspRangeRecords", [{"rangeMaxPPEM": 10, "rangeGaspBehavior": [4]}]),
        ("openTypeGaspRangeRecords", [{"rangeMaxPPEM": 20, "rangeGaspBehavior": [0]}, {"rangeMaxPPEM": 10, "rangeGaspBehavior": [0]}]),
        ("openTypeNameRecords", [{"nameID": 1, "platformID": 3, "encodingID": 1, "languageID": 1}]),
        ("guidelines", [{"x": 1, "angle": 361}]), ("guidelines", [{"x": 1, "color": "2,0,0,0"}]),
        ("guidelines", [{"x": 1, "identifier": ""}]), ("guidelines", [{"x": 1, "identifier": "a"}, {"y": 1, "identifier": "a"}]),
    ])


# ---------------------------------------------------------------------------
# kerning / groups
# ---------------------------------------------------------------------------
GLYPHS = ["A", "B", "C", "D", "E", "O", "T", "V", "a", "e", "o", "period", "Aacute", "ünï", "x<y", "uni0041.alt"]


def kerning_v3(rnd):
    glyphs = list(GLYPHS)
    groups = {}
    for side in (1, 2):
        pool = list(glyphs)
        rnd.shuffle(pool)
        for i in range(rnd.choice([0, 1, 2, 4])):
            k = rnd.randrange(0, 4)
            members, pool = pool[:k], pool[k:]
            groups["public.kern%d.%s" % (side, rnd.choice(["A", "O", "round", "ünï", "x<&>", "A.alt"]) + str(i))] = members
    for i in range(rnd.choice([0, 1, 3])):
        groups[rnd.choice(["caps", "lower", "public.other", "ünï group", "@MMK_L_stale"]) + str(i)] = rnd.sample(glyphs, rnd.randrange(0, 5))
    firsts = glyphs + [g for g in groups if g.startswith("public.kern1.")]
    seconds = glyphs + [g for g in groups if g.startswith("public.kern2.")]
    kerning = {}
    for _ in range(rnd.choice([0, 1, 5, 20, 60])):
        kerning[(rnd.choice(firsts), rnd.choice(seconds))] = rnd.choice([_int(rnd, -200, 200), float(_int(rnd, -200, 200)),
                                                                         round(rnd.uniform(-100, 100), 3), 0, -0.5, 1e-5])
    return kerning, groups, glyphs


def kerning_v2(rnd, collide=False):
    """UFO 1/2 style data: @MMK_L_/@MMK_R_ groups and unprefixed groups referenced from kerning.
    Membership is disjoint per side (a glyph may be in one first-side and one second-side group)."""
    glyphs = list(GLYPHS)
    pool1, pool2 = list(glyphs), list(glyphs)
    rnd.shuffle(pool1)
    rnd.shuffle(pool2)

    def take(pool, k):
        out = pool[:k]
        del pool[:k]
        return out

    groups = {}
    base = ["A", "O", "round", "ünï", "x", "T.alt"]
    if rnd.random() < 0.3:
        groups["public.kern1.already"] = take(pool1, 1)
        groups["public.kern2.already"] = take(pool2, 1)
    for i in range(rnd.choice([1, 2, 4])):
        groups["@MMK_L_" + rnd.choice(base) + str(i)] = take(pool1, rnd.randrange(0, 3))
    for i in range(rnd.choice([1, 2, 4])):
        groups["@MMK_R_" + rnd.choice(base) + str(i)] = take(pool2, rnd.randrange(0, 3))
    plain = []
    for i in range(rnd.choice([0, 1, 3])):
        n = rnd.choice(["grpA", "grpO", "Mixed", "ünï grp"]) + str(i)
        both = [g for g in pool1 if g in pool2][:rnd.randrange(0, 3)]
        for g in both:
            pool1.remove(g)
            pool2.remove(g)
        groups[n] = both
        plain.append(n)
    if collide:
        # an unprefixed group and a prefixed group whose stripped names coincide, both used on the same side
        n = rnd.choice(["A0", "clash", "O1"])
        groups["@MMK_L_" + n] = ["Q"]
        groups[n] = ["R"]
        plain.append(n)
        groups["@MMK_R_" + n] = ["U"]
    firsts = glyphs + [g for g in groups if g.startswith(("@MMK_L_", "public.kern1."))] + plain
    seconds = glyphs + [g for g in groups if g.startswith(("@MMK_R_", "public.kern2."))] + plain
    kerning = {}
    for _ in range(rnd.choice([3, 10, 40])):
        kerning.setdefault(rnd.choice(firsts), {})[rnd.choice(seconds)] = rnd.choice([_int(rnd, -200, 200), -12.5, 0])
    if collide:
        kerning.setdefault(n, {})["B"] = 11
        kerning.setdefault("@MMK_L_" + n, {})["B"] = 22
        kerning.setdefault("A", {})[n] = 33
        kerning.setdefault("A", {})["@MMK_R_" + n] = 44
    return kerning, groups, glyphs


# ---------------------------------------------------------------------------
# names
# ---------------------------------------------------------------------------
RESERVED_NAMES = ["con", "CON", "Con", "aux", "aux.glif", "nul", "prn", "clock$", "com1", "com4", "com5", "com9", "lpt1", "lpt3",
                  "lpt4", "lpt9", "con.alt", "alt.con", "a.aux.b", "nul.", ".con", "COM1", "cOm1", "con ", "_con"]
CASE_NAMES = ["A", "a", "A_", "a_", "AE", "ae", "Ae", "aE", "AE_", "a_e", "A_E_", "T_H", "t_h", "T_h", "F_F_I", "f_f_i",
              "Aacute", "aacute", "AACUTE", "İ", "i", "I", "ı", "ß", "ẞ", "SS", "ǅ", "ǆ", "Ǆ", "K", "k", "K", "Å", "Å", "å"]
FOLD_NAMES = ["ς", "σ", "Σ", "ſ", "s", "S", "ß", "ss", "ﬁ", "fi", "µ", "μ", "ǰ", "ǰ", "ẛ", "ṡ", "ͅ", "ι", "ΐ", "ΐ"]
ODD_NAMES = [".notdef", ".", "..", "...", "a.", "a..", "a ", " a", " ", "a.b.", ".a", ".A", "a/b", "a\\b", "a:b", "a*b", "a?b",
             'a"b', "a<b>", "a|b", "a+b", "[a]", "(a)", "a\tb", "a\nb", "a\x00b", "a\x7fb", "a\x1fb", "é", "é",
             "𝔄", "🅰", "نقطة", "日本語", "a" * 254, "a" * 255, "a" * 256, "A" * 127, "A" * 128, "A" * 200, "é" * 255]


def name_sequence(rnd, kind, n):
    """A sequence of user glyph/layer names of a structural class `kind`."""
    out = []
    if kind == "case":
        pool = CASE_NAMES
        out = [rnd.choice(pool) + rnd.choice(["", "", ".alt", ".ALT", "_"]) for _ in range(n)]
    elif kind == "reserved":
        out = [rnd.choice(RESERVED_NAMES) for _ in range(n)]
    elif kind == "reserved-long":
        for _ in range(n):
            r = rnd.choice(["con", "aux", "nul", "com1", "lpt9", "prn"])
            pad = rnd.choice([240, 245, 246, 247, 248, 249, 250, 251, 252, 255, 300])
            out.append(rnd.choice([r + "." + "a" * pad, "a" * pad + "." + r, "b" * (pad // 2) + "." + r + "." + "c" * (pad // 2)]))
    elif kind == "odd":
        out = [rnd.choice(ODD_NAMES) for _ in range(n)]
    elif kind == "long-prefix":
        prefix = "".join(rnd.choice("ab") for _ in range(250))
        for _ in range(n):
            out.append(prefix + "".join(rnd.choice("abAB") for _ in range(rnd.choice([0, 1, 2, 5, 10, 50]))))
    elif kind == "truncation-case":
        # names that differ only by case (or only beyond the cut) after clipping to 255
        L = rnd.choice([244, 248, 249, 250, 254, 255])
        prefix = "".join(rnd.choice("abc") for _ in range(L))
        for _ in range(n):
            out.append(prefix + rnd.choice(["A", "a", "Aa", "aA", "AA", "aa", "A_", "a_", "B", "b", "ab", "Ab"]) +
                       rnd.choice(["", "x", "XYZ", "zzzzzzzzzz"]))
    elif kind == "generated-echo":
        # names equal to file names that earlier names generate ("A" -> "A_", then user name "A_" / "a_")
        base = [rnd.choice(["A", "AB", "Ab", "T_H", "con", ".notdef", "a.B"]) for _ in range(n // 2 + 1)]
        for b in base:
            out.append(b)
            gen = "".join(c + "_" if c != c.lower() else c for c in b)
            out.append(rnd.choice([gen, gen.lower(), gen + "000000000000001", "_" + b, gen.upper()]))
    elif kind == "clip-reserved":
        # names of every length around the 255-character limit with a reserved device word (or a longer word that
        # starts with one: "console", "com10") as a dot-part at every position around the clip boundary.  The
        # boundary depends on prefix/suffix: 255, 250 (".glif"), 248 ("glyphs."), 238.  Also two reserved-ish parts,
        # which interact through the "_" shift (regression witness: probe names-reserved-after-shift).
        words = ["con", "aux", "nul", "prn", "com1", "com9", "lpt1", "lpt9", "clock$"]
        conts = ["", "", "1", "0", "sole", "x", "tours", "iliary", "ly", "_"]
        for _ in range(n):
            b = rnd.choice([255, 250, 250, 248, 238])
            r = rnd.choice(words)
            if rnd.random() < 0.3:
                r = rnd.choice([r.upper(), r.capitalize()])
            shape = rnd.random()
            if shape < 0.2:
                # a reserved part as typed in front (gets "_", shifting everything by one) AND a word around the boundary
                r1 = rnd.choice(words)
                d = rnd.randrange(-4, 5)
                pos = max(1, b + d - 2 - len(r) - len(r1) - 1)
                name = r1 + "." + "x" * pos + "." + r + rnd.choice(conts)
            elif shape < 0.6:
                # ... '.' + word ends d characters before/after the boundary
                d = rnd.randrange(-5, 6)
                upper = sum(1 for c in r if c != c.lower())      # capitals get a '_' appended each
                pos = max(1, b + d - 1 - len(r) - upper)
                name = "x" * pos + "." + r + rnd.choice(conts)
                if rnd.random() < 0.3:
                    name += "." + rnd.choice(["z", "alt", "x" * 20])
            elif shape < 0.8:
                # the word is the first part, total length sweeps 245..262
                L = rnd.randrange(245, 263)
                name = r + rnd.choice(conts) + "." + "y" * max(1, L - len(r) - 1)
            else:
                # plain length sweep without any reserved word
                L = rnd.randrange(236, 263)
                name = "".join(rnd.choice("ab.") for _ in range(L)).strip(".") or "a"
            out.append(name)
    elif kind == "unicode":
        pool = UNI_WORDS + ["é", "é", "É", "é", "Ж", "ж", "𝔄", "𝔞", "Ա", "ա", "Ⴀ", "ⴀ", "Ꭰ", "ꭰ", "𐐀", "𐐨", "Ⓐ", "ⓐ"]
        out = [rnd.choice(pool) + rnd.choice(["", ".sc", "1"]) for _ in range(n)]
    elif kind == "fold":
        out = [rnd.choice(FOLD_NAMES) + rnd.choice(["", "", ".alt"]) for _ in range(n)]
    elif kind == "counter":
        # force handleClash1 counters: repeat the same lowercase-clashing names and pre-seed counters
        b = rnd.choice(["a_", "A", "x"])
        out = [b] * (n // 2) + [rnd.choice(["a_", "A", "a_000000000000001", "A_000000000000002", "a_000000000000003"]) for _ in range(n - n // 2)]
    else:  # mixed
        pools = [CASE_NAMES, RESERVED_NAMES, ODD_NAMES, UNI_WORDS, ASCII_WORDS]
        out = [rnd.choice(rnd.choice(pools)) for _ in range(n)]
    return out


NAME_KINDS = ["case", "reserved", "odd", "long-prefix", "truncation-case", "generated-echo",
              "unicode", "counter", "mixed", "clip-reserved"]
