"""Semantic-spec generators of LARGE layout tables for C06.

A spec is a rule-level model in the vocabulary of vmon/oracle/otlref.py (kerning
dictionary, class-kerning matrix, ligature dictionary, multiple / alternate dictionary,
mark-to-base anchor sets with many classes, single-position maps, many small lookups).
`make(name, rnd, size)` returns the spec and probe texts; `build_font(spec)` turns it into
in-memory otTables objects with otlLib.builder and puts them on a fontBuilder font.  The
shaping result of every probe text is predicted from the SPEC by the reference
interpreter, independently of any serialiser; sizes are chosen so that 16-bit offsets
overflow at a particular level of the table.
"""
import io

FEATURE = "tst1"


def names(n):
    return [".notdef"] + ["g%05d" % i for i in range(1, n)]


def _adv(i):
    return 400 + (i * 7) % 300


def _model(nglyph, gsub=(), gpos=(), gdef=None):
    order = names(nglyph)
    ls = {"GSUB": {}, "GPOS": {}}
    if gsub:
        ls["GSUB"] = {"DFLT": {"dflt": {"features": {FEATURE: list(range(len(gsub)))}, "required": []}}}
    if gpos:
        ls["GPOS"] = {"DFLT": {"dflt": {"features": {FEATURE: list(range(len(gpos)))}, "required": []}}}
    return {"advances": {g: _adv(i) for i, g in enumerate(order)}, "gdef": gdef, "GSUB": list(gsub), "GPOS": list(gpos),
            "langsys": ls, "order": order}


def _nz(rnd, lo=-200, hi=200):
    return rnd.randint(lo, hi) or 7


# ---------------------------------------------------------------- specs
def kern_pairs(rnd, size):
    """One PairPos lookup with a big glyph-pair dictionary: Lookup->SubTable and
    PairPos->PairSet offsets overflow (Extension promotion + PairPos format 1 split)."""
    n, nleft, per = {0: (120, 60, 12), 1: (440, 380, 60), 2: (700, 600, 70)}[size]
    order = names(n)
    pairs = []
    for a in order[1:nleft]:
        for b in rnd.sample(order[1:], per):
            if rnd.random() < 0.1:
                pairs.append((a, b, (0, 0, _nz(rnd), 0), (0, 0, _nz(rnd, -50, 50), 0)))
            else:
                pairs.append((a, b, (0, 0, _nz(rnd), 0), None))
    m = _model(n, gpos=[{"kind": "ppos", "flag": {}, "pairs": pairs, "classes": []}])
    texts = []
    for a, b, v1, v2 in rnd.sample(pairs, min(len(pairs), 1500 if size else 300)):
        texts.append([a, b])
    for _ in range(300):
        texts.append([rnd.choice(order[1:]), rnd.choice(order[1:])])
        texts.append([rnd.choice(order[1:]) for _i in range(rnd.randrange(3, 7))])
    # boundaries of possible splits: first / last left glyphs and their first / last partners
    byleft = {}
    for a, b, v1, v2 in pairs:
        byleft.setdefault(a, []).append(b)
    # runs in which the second glyph of one pair is the first glyph of the next one (a second
    # value record consumes it), and runs of repeated glyphs
    for a, b, v1, v2 in rnd.sample(pairs, min(len(pairs), 400 if size else 120)):
        if b in byleft:
            c = rnd.choice(byleft[b])
            texts.append([a, b, c])
            texts.append([a, b, c, a, b])
        texts.append([a, b, a, b])
        texts.append([a, a, b, b])
    lefts = sorted(byleft)
    for a in lefts[:3] + lefts[-3:] + lefts[len(lefts) // 2 - 2:len(lefts) // 2 + 2] + lefts[len(lefts) // 4 - 1:len(lefts) // 4 + 1]:
        bs = sorted(byleft[a])
        for b in (bs[0], bs[-1]):
            texts.append([a, b])
    return m, texts


def _partition(rnd, glyphs, nclasses, maxsize=4):
    glyphs = list(glyphs)
    rnd.shuffle(glyphs)
    out, i = [], 0
    for _ in range(nclasses):
        k = rnd.randint(1, maxsize)
        if i + k > len(glyphs):
            break
        out.append(sorted(glyphs[i:i + k]))
        i += k
    return out


def class_kern(rnd, size, shadow=True):
    """Class-kerning matrix.  size 0: small sparse block matrix (compaction levels);
    size 1: one PairPos format 2 subtable > 64 KiB through many Class2 columns (offsets to
    Coverage/ClassDef overflow -> split by Class1Records); size 2: many Class1Records."""
    n1, n2, n = {0: (36, 48, 400), 1: (150, 260, 1500), 2: (640, 60, 2600)}[size]
    order = names(n)
    half = (n - 1) // 2
    lefts = _partition(rnd, order[1:half], n1)
    rights = _partition(rnd, order[half:], n2)
    st = []
    if size == 0:
        # block structure with empty areas, so that compaction has something to do
        nb = 4
        for bi in range(nb):
            ls = lefts[bi::nb]
            rs = rights[bi::nb] + (rights[(bi + 1) % nb::nb][:2] if bi % 2 else [])
            for l in ls:
                for r in rs:
                    if rnd.random() < 0.7:
                        st.append((l, r, (0, 0, _nz(rnd), 0), None))
    else:
        for l in lefts:
            for r in rights:
                if rnd.random() < 0.5:
                    st.append((l, r, (0, 0, _nz(rnd), 0), None))
    classes = [st]
    if shadow:
        # a second subtable that the first one shadows for the glyphs it covers, and adds
        # values for left glyphs the first one does not cover
        extra_l = _partition(rnd, [g for g in order[1:half] if not any(g in l for l in lefts)][:40], 6)
        st2 = []
        for l in lefts[:5] + extra_l:
            for r in rights[:6]:
                st2.append((l, r, (0, 0, _nz(rnd), 0), None))
        if st2:
            classes.append(st2)
    m = _model(n, gpos=[{"kind": "ppos", "flag": {}, "pairs": [], "classes": classes}])
    texts = []
    reps = rnd.sample(st, min(len(st), 2500 if size else 600))
    for l, r, v1, v2 in reps:
        texts.append([rnd.choice(l), rnd.choice(r)])
    for l in lefts[:8] + lefts[-8:] + lefts[len(lefts) // 2 - 4:len(lefts) // 2 + 4]:
        for r in rights[:3] + rights[-3:]:
            texts.append([l[0], r[-1]])
    if shadow and len(classes) > 1:
        for l, r, v1, v2 in classes[1]:
            texts.append([l[0], r[0]])
            texts.append([l[-1], r[-1]])
    for _ in range(400):
        texts.append([rnd.choice(order[1:]), rnd.choice(order[1:])])
        texts.append([rnd.choice(order[1:half]), rnd.choice(order[half:]), rnd.choice(order[1:half]), rnd.choice(order[half:])])
    return m, texts


def class_kern_v2(rnd, size):
    """Class kerning that also adjusts the SECOND glyph (ValueFormat2 != 0) in some blocks of
    the class matrix while whole blocks of rows have no second value at all.  First and second
    classes are two independent partitions of the same glyphs, so in a run of three or more
    glyphs the second glyph of one pair is (or, because a non-empty ValueFormat2 consumes it,
    is not) the first glyph of the next pair.  Probed with runs of repeated glyphs."""
    n = 120
    order = names(n)
    pool = order[1:61]
    lefts = _partition(rnd, pool, 14, 3)
    rights = _partition(rnd, pool, 14, 3)
    nb = 3
    st = []
    for bi in range(nb):
        ls, rs = lefts[bi::nb], rights[bi::nb] + rights[(bi + 1) % nb::nb][:1]
        with_v2 = bi != 1          # block 1: rows whose second values are all absent
        for l in ls:
            for r in rs:
                q = rnd.random()
                if q < 0.25:
                    continue
                v2 = None
                if with_v2 and q < 0.7:
                    v2 = (rnd.choice([0, 0, _nz(rnd, -40, 40)]), 0, _nz(rnd, -90, 90), 0)
                st.append((l, r, (0, 0, _nz(rnd), 0), v2))
    m = _model(n, gpos=[{"kind": "ppos", "flag": {}, "pairs": [], "classes": [st]}])
    covered = sorted({g for l in lefts for g in l}, key=order.index)
    both = [g for g in covered if any(g in r for r in rights)] or covered
    texts = []
    for g in both[:30]:
        texts.append([g, g, g])
        texts.append([g, g, g, g])
        h = rnd.choice(both)
        texts.append([g, h, g, h, g])
        texts.append([h, g, g, h])
    for l, r, v1, v2 in rnd.sample(st, min(len(st), 120)):
        a, b = rnd.choice(l), rnd.choice(r)
        texts.append([a, b])
        texts.append([a, b, rnd.choice(both)])
        texts.append([rnd.choice(both), a, b, a, b])
    for _ in range(300):
        texts.append([rnd.choice(pool + order[61:64]) for _i in range(rnd.randrange(3, 8))])
    return m, texts


def zero_row_shadow(rnd, size):
    """Two class subtables; in the first one a left class has only zero values (an explicit
    'no kerning' exception) and the second subtable has a value for the same pair: the first
    covering subtable must win.  Small; meant for the compaction levels."""
    n = 60
    order = names(n)
    A, B, C = order[1:4], order[4:7], order[7:10]
    X, Y = order[20:23], order[23:26]
    st1 = [(A, X, (0, 0, -40, 0), None), (A, Y, (0, 0, -30, 0), None), (B, X, (0, 0, 0, 0), None), (B, Y, (0, 0, 0, 0), None),
           (C, X, (0, 0, 25, 0), None)]
    st2 = [(B, X, (0, 0, 77, 0), None), (order[10:12], X, (0, 0, 55, 0), None), (C, Y, (0, 0, 66, 0), None)]
    m = _model(n, gpos=[{"kind": "ppos", "flag": {}, "pairs": [], "classes": [st1, st2]}])
    texts = [[a, b] for a in order[1:13] for b in order[19:27]]
    return m, texts


def class0_column(rnd, size):
    """Class kerning whose ClassDef2 *class 0* column ("any other second glyph") holds non-zero
    values next to values for listed classes: kerning that regrouping glyph classes cannot
    express, so compaction must leave it intact.  feaLib never builds this; the tables are
    made directly as otTables.  size 1 wraps the lookup in Extension subtables (in memory)."""
    n = 400          # the glyph set of class_kern size 0, used for the second lookup
    order = names(n)
    lefts = _partition(rnd, order[1:40], 7, 3)
    rights = _partition(rnd, order[40:80], 6, 3)
    st, class0 = [], []
    for i, l in enumerate(lefts):
        for r in rights:
            if rnd.random() < 0.6:
                st.append((l, r, (0, 0, _nz(rnd), 0), None))
        if not any(x[0] == l for x in st):
            st.append((l, rights[0], (0, 0, _nz(rnd), 0), None))
        if i % 3 != 2:
            class0.append((l, (0, 0, _nz(rnd), 0)))
    # the rule-level meaning: class 0 of ClassDef2 is the set of all glyphs not listed there -- and ClassDef2 lists
    # only the right-hand classes that occur in some pair (a right class that no left class happened to pair with
    # is not in the table at all, so its glyphs fall into class 0 too)
    listed = {g for _l, r, _v1, _v2 in st for g in r}
    others = [g for g in order[1:] if g not in listed]
    rules = list(st) + [(l, others, v0, None) for l, v0 in class0]
    lk = {"kind": "ppos", "flag": {}, "pairs": [], "classes": [rules], "_build": {"classes": [st], "class0": class0}}
    # a second lookup (plain class kerning) so that there is something to compact as well
    m2, _t = class_kern(rnd, 0, shadow=False)
    lk2 = m2["GPOS"][0]
    assert len(m2["order"]) == n
    m = _model(n, gpos=[lk, lk2])
    m["extension"] = bool(size)
    texts = []
    for l in lefts:
        for g in (l[0], l[-1]):
            for o in rnd.sample(others, 6) + [r[0] for r in rights]:
                texts.append([g, o])
    for _ in range(150):
        texts.append([rnd.choice(order[1:]) for _i in range(rnd.randrange(2, 6))])
    texts += _t[:150]
    return m, texts


def permuted(rnd, size):
    """Tables whose Coverage-parallel arrays (PairSet[], Value[], MarkRecord[], BaseRecord[],
    EntryExitRecord[]) are built first and whose font then gets another glyph order
    (TTFont.setGlyphOrder with everything in memory): Coverage glyph lists are no longer in
    glyph-id order when they are written, and every glyph must keep its own record.  Only the
    glyphs that sit in such coverages are moved; second glyphs of pairs keep their relative
    order (PairValueRecords inside a PairSet are not re-sorted by the library, a separate
    matter)."""
    k = {0: 14, 1: 120}[size]
    n = 6 * k + 10
    order = names(n)
    A = order[1:1 + k]              # first glyphs of pairs
    S = order[1 + k:1 + 2 * k]      # single-position glyphs
    Mk = order[1 + 2 * k:1 + 3 * k]  # marks
    Bs = order[1 + 3 * k:1 + 4 * k]  # bases
    Cu = order[1 + 4 * k:1 + 5 * k]  # cursive glyphs
    R = order[1 + 5 * k:]           # second glyphs (never moved)
    pairs = []
    for a in A:
        for b in sorted(rnd.sample(R, rnd.choice([1, 2, 3])), key=order.index):
            pairs.append((a, b, (0, 0, _nz(rnd), 0), None))
    spos = {g: (_nz(rnd), _nz(rnd), _nz(rnd), 0) for g in S}
    marks = {mk: ("C%d" % (i % 3), (rnd.randrange(0, 300), rnd.randrange(300, 800))) for i, mk in enumerate(Mk)}
    bases = {b: {"C%d" % c: (rnd.randrange(0, 600), rnd.randrange(-200, 900)) for c in range(3)} for b in Bs}
    curs = {g: ((rnd.randrange(0, 100), rnd.randrange(-50, 50)), (rnd.randrange(300, 600), rnd.randrange(-50, 50))) for g in Cu}
    gdef = {g: 1 for g in order[1:]}
    gdef.update({g: 3 for g in Mk})
    subst = [((g,), (rnd.choice(R),)) for g in rnd.sample(A + S, max(3, k // 2))]
    ligs = [((a, rnd.choice(R)), (rnd.choice(R),)) for a in rnd.sample(Bs + Cu, max(3, k // 2))]
    m = _model(n, gsub=[{"kind": "subst", "flag": {}, "subtables": [subst]}, {"kind": "subst", "flag": {}, "subtables": [ligs]}],
               gpos=[{"kind": "ppos", "flag": {}, "pairs": pairs, "classes": []},
                     {"kind": "spos", "flag": {}, "values": spos},
                     {"kind": "mbase", "flag": {}, "marks": marks, "bases": bases},
                     {"kind": "curs", "flag": {}, "anchors": curs}], gdef=gdef)
    m["permute"] = [A, S, Mk, Bs, Cu]
    texts = [[a, b] for a, b, v1, v2 in pairs] + [[g] for g in S] + [[b, mk] for b in Bs[:k] for mk in rnd.sample(Mk, 3)]
    texts += [[rnd.choice(Cu) for _i in range(rnd.randrange(2, 5))] for _ in range(3 * k)]
    texts += [list(r[0]) for r in subst + ligs]
    texts += [[rnd.choice(order[1:]) for _i in range(rnd.randrange(2, 6))] for _ in range(150)]
    return m, texts


def permute_order(rnd, order, groups):
    """New glyph order: the glyphs of each group are shuffled among their own positions."""
    new = list(order)
    for g in groups:
        pos = sorted(order.index(x) for x in g)
        sh = list(g)
        rnd.shuffle(sh)
        if sh == list(g) and len(sh) > 1:
            sh = sh[1:] + sh[:1]
        for p_, x in zip(pos, sh):
            new[p_] = x
    return new


def _device(rnd):
    """Hinting Device table over an arbitrary ppem range, any DeltaFormat, with zero runs at
    either end (so that the last, partially filled word of the packed deltas is often all
    zero).  -> extra-field dict for the reference model."""
    fmt = rnd.choice([1, 2, 3])
    lo, hi = {1: (-2, 1), 2: (-8, 7), 3: (-128, 127)}[fmt]
    cap = {1: 8, 2: 4, 3: 2}[fmt]
    start = rnd.randrange(7, 16)
    lead = rnd.choice([0, 0, 1, 2, 3])
    mid = rnd.randrange(1, 2 * cap + 2)
    trail = rnd.choice([0, 0, 1, 2, cap - 1, cap, cap + 1])
    vals = [0] * lead + [rnd.choice([v for v in range(lo, hi + 1) if v] + [0]) for _ in range(mid)] + [0] * trail
    if not any(vals):
        vals[lead] = lo
    end = start + len(vals) - 1
    return {"dev": {start + i: v for i, v in enumerate(vals)}, "devspec": (start, end, fmt)}


def _devvalue(rnd, plain_zero=False):
    v = [0, 0, 0, 0]
    if not plain_zero:
        v[2] = _nz(rnd)
        if rnd.random() < 0.3:
            v[0] = _nz(rnd, -60, 60)
    ex = {}
    for f in rnd.sample(["xa", "xa", "xp", "yp"], rnd.choice([1, 1, 2])):
        ex[f] = _device(rnd)
    return (v[0], v[1], v[2], v[3], ex)


def _devanchor(rnd):
    a = (rnd.randrange(0, 600), rnd.randrange(-200, 900))
    if rnd.random() < 0.6:
        ex = {}
        for f in rnd.sample(["x", "y"], rnd.choice([1, 2])):
            ex[f] = _device(rnd)
        return a + (ex,)
    return a


def devices(rnd, size):
    """Hinting Device tables everywhere they can occur: single and pair values (glyph pairs
    and class pairs, among them pairs whose plain values are all zero), mark and base anchors,
    cursive anchors, GDEF ligature carets.  Shaped at every ppem of the device ranges."""
    n = 90
    order = names(n)
    S, A, R = order[1:11], order[11:21], order[21:31]
    L1, R1 = order[31:43], order[43:55]
    Mk, Bs, Cu = order[55:63], order[63:71], order[71:79]
    spos = {g: _devvalue(rnd) for g in S}
    pairs = []
    for a in A:
        for b in sorted(rnd.sample(R, rnd.choice([1, 2])), key=order.index):
            v2 = _devvalue(rnd) if rnd.random() < 0.25 else None
            pairs.append((a, b, _devvalue(rnd, plain_zero=rnd.random() < 0.3), v2))
    lefts, rights = _partition(rnd, L1, 4, 3), _partition(rnd, R1, 4, 3)
    rules = []
    for l in lefts:
        rr = list(rights)
        rnd.shuffle(rr)
        rules.append((l, rr[0], (0, 0, _nz(rnd), 0), None))                 # ordinary pair
        rules.append((l, rr[1], _devvalue(rnd, plain_zero=True), None))       # zero plain values, Device only
        if len(rr) > 2 and rnd.random() < 0.7:
            rules.append((l, rr[2], _devvalue(rnd), None))
    marks = {mk: ("C%d" % (i % 2), _devanchor(rnd)) for i, mk in enumerate(Mk)}
    bases = {b: {"C%d" % c: _devanchor(rnd) for c in range(2)} for b in Bs}
    curs = {g: (_devanchor(rnd), _devanchor(rnd)) for g in Cu}
    gdef = {g: 1 for g in order[1:]}
    gdef.update({g: 3 for g in Mk})
    m = _model(n, gpos=[{"kind": "spos", "flag": {}, "values": spos},
                        {"kind": "ppos", "flag": {}, "pairs": pairs, "classes": [rules]},
                        {"kind": "mbase", "flag": {}, "marks": marks, "bases": bases},
                        {"kind": "curs", "flag": {}, "anchors": curs}], gdef=gdef)
    m["carets"] = {g: [(rnd.randrange(100, 500), _device(rnd)) for _ in range(rnd.choice([1, 2]))] for g in order[80:86]}
    ppems = set()

    def scan(x):
        if isinstance(x, dict):
            if "devspec" in x:
                ppems.update(range(x["devspec"][0] - 1, x["devspec"][1] + 2))
            for v in x.values():
                scan(v)
        elif isinstance(x, (list, tuple)):
            for v in x:
                scan(v)

    scan(m["GPOS"])
    m["ppems"] = [None] + sorted(ppems)
    texts = [[g] for g in S] + [[a, b] for a, b, v1, v2 in pairs] + [[rnd.choice(l), rnd.choice(r)] for l, r, v1, v2 in rules]
    texts += [[b, mk] for b in Bs for mk in rnd.sample(Mk, 2)] + [[rnd.choice(Cu) for _i in range(rnd.randrange(2, 4))] for _ in range(12)]
    texts += [[rnd.choice(order[1:80]) for _i in range(rnd.randrange(2, 5))] for _ in range(30)]
    return m, texts


def varkern(rnd, size):
    """Class and glyph kerning with variable scalars on a one-axis variable font, built from
    feature-file text: pairs that are zero at the default location and kerned elsewhere sit in
    the same Class1 row as ordinary pairs; the masters of the scalars are listed in varying
    order.  Shaped at several axis locations (and through the compaction levels)."""
    n = 60
    order = names(n)
    axis = ("wght", 200, 400, 1000)
    lefts, rights = _partition(rnd, order[1:20], 5, 3), _partition(rnd, order[20:40], 5, 3)

    def scalar(zero_default):
        pts = [(200, 40 * rnd.randrange(-3, 4)), (400, 0 if zero_default else 40 * rnd.choice([-3, -2, -1, 1, 2, 3])), (1000, 40 * rnd.randrange(-4, 5))]
        if zero_default and not (pts[0][1] or pts[2][1]):
            pts[2] = (1000, -80)
        show = list(pts)
        rnd.shuffle(show)
        return "(%s)" % " ".join("wght=%d:%d" % p for p in show), (0, 0, pts[1][1], 0, {"xa": {"var": pts}})

    cls = lambda gl: "[" + " ".join(gl) + "]"
    lines, pairs, rules = [], [], []
    for a in order[40:48]:
        b = rnd.choice(order[48:56])
        t, v = scalar(rnd.random() < 0.4)
        lines.append("    pos %s %s %s;" % (a, b, t))
        pairs.append((a, b, v, None))
    for l in lefts:
        rr = list(rights)
        rnd.shuffle(rr)
        k = _nz(rnd)
        lines.append("    pos %s %s %d;" % (cls(l), cls(rr[0]), k))
        rules.append((l, rr[0], (0, 0, k, 0), None))
        t, v = scalar(True)
        lines.append("    pos %s %s %s;" % (cls(l), cls(rr[1]), t))
        rules.append((l, rr[1], v, None))
        if rnd.random() < 0.7:
            t, v = scalar(False)
            lines.append("    pos %s %s %s;" % (cls(l), cls(rr[2]), t))
            rules.append((l, rr[2], v, None))
    m = _model(n, gpos=[{"kind": "ppos", "flag": {}, "pairs": pairs, "classes": [rules]}])
    m["axis"] = axis
    m["fea"] = "feature %s {\n%s\n} %s;\n" % (FEATURE, "\n".join(lines), FEATURE)
    m["locs"] = [None, 200, 300, 400, 550, 700, 850, 1000]
    texts = [[a, b] for a, b, v1, v2 in pairs] + [[rnd.choice(l), rnd.choice(r)] for l, r, v1, v2 in rules for _ in range(2)]
    texts += [[rnd.choice(order[1:56]) for _i in range(rnd.randrange(2, 5))] for _ in range(40)]
    return m, texts


def ligatures(rnd, size):
    """Ligature dictionary: LigatureSubst->LigatureSet offsets overflow (split by first glyph)."""
    nfirst, per, n = {0: (30, 8, 300), 1: (330, 42, 900), 2: (500, 50, 1200)}[size]
    order = names(n)
    comp = order[1:n - 260]
    ligs = order[n - 260:]
    rules, seen = [], set()
    for f in rnd.sample(comp, nfirst):
        for _ in range(per):
            k = rnd.choice([2, 2, 3, 3, 4])
            s = (f,) + tuple(rnd.choice(comp) for _i in range(k - 1))
            if s in seen:
                continue
            seen.add(s)
            rules.append((s, (rnd.choice(ligs),)))
    m = _model(n, gsub=[{"kind": "subst", "flag": {}, "subtables": [rules]}])
    texts = []
    for s, o in rnd.sample(rules, min(len(rules), 1500 if size else 200)):
        texts.append(list(s))
        t = list(s)
        t[-1] = rnd.choice(comp)
        texts.append(t)
        texts.append(list(s) + list(s)[:2])
    firsts = sorted({r[0][0] for r in rules})
    for f in firsts[:3] + firsts[-3:] + firsts[len(firsts) // 2 - 1:len(firsts) // 2 + 2]:
        for s, o in [r for r in rules if r[0][0] == f][:3]:
            texts.append(list(s))
    for _ in range(200):
        texts.append([rnd.choice(comp) for _i in range(rnd.randrange(2, 6))])
    return m, texts


def multiple(rnd, size):
    """Multiple-substitution dictionary: MultipleSubst->Sequence offsets overflow."""
    n = {0: 300, 1: 9500, 2: 14000}[size]
    order = names(n)
    src = order[1:n - 50]
    rules = [((g,), tuple(rnd.choice(order[1:]) for _i in range(rnd.choice([2, 3, 3, 4])))) for g in src]
    m = _model(n, gsub=[{"kind": "subst", "flag": {}, "subtables": [rules]}])
    texts = [[g] for g in rnd.sample(src, min(len(src), 1500 if size else 200))]
    texts += [[g] for g in src[:4] + src[-4:] + src[len(src) // 2 - 3:len(src) // 2 + 3] + order[n - 50:n - 46]]
    texts += [[rnd.choice(order[1:]) for _i in range(3)] for _ in range(200)]
    return m, texts


def alternate(rnd, size):
    """Alternate dictionary: AlternateSubst->AlternateSet offsets overflow."""
    n = {0: 300, 1: 8000, 2: 12000}[size]
    order = names(n)
    src = order[1:n - 50]
    alts = {g: [rnd.choice(order[1:]) for _i in range(rnd.choice([3, 4, 5]))] for g in src}
    m = _model(n, gsub=[{"kind": "alt", "flag": {}, "alternates": alts}])
    texts = [[g] for g in rnd.sample(src, min(len(src), 1200 if size else 200))]
    texts += [[g] for g in src[:4] + src[-4:] + src[len(src) // 2 - 3:len(src) // 2 + 3]]
    return m, texts


def markbase(rnd, size):
    """Mark-to-base with many mark classes: BaseArray->Anchor offsets overflow (split by mark class)."""
    ncls, nbase, nmark = {0: (4, 20, 12), 1: (40, 330, 200), 2: (64, 420, 300)}[size]
    n = nbase + nmark + 10
    order = names(n)
    bases_g = order[1:1 + nbase]
    marks_g = order[1 + nbase:1 + nbase + nmark]
    marks = {}
    for i, mk in enumerate(marks_g):
        marks[mk] = ("C%03d" % (i % ncls), (rnd.randrange(-100, 400), rnd.randrange(-300, 900)))
    bases = {}
    for b in bases_g:
        d = {}
        for c in range(ncls):
            if rnd.random() < 0.9:
                d["C%03d" % c] = (rnd.randrange(-100, 700), rnd.randrange(-300, 900))
        bases[b] = d
    gdef = {g: 1 for g in bases_g}
    gdef.update({g: 3 for g in marks_g})
    m = _model(n, gpos=[{"kind": "mbase", "flag": {}, "marks": marks, "bases": bases}], gdef=gdef)
    texts = []
    for _ in range(1500 if size else 200):
        texts.append([rnd.choice(bases_g), rnd.choice(marks_g)])
    for c in (0, 1, ncls // 2 - 1, ncls // 2, ncls // 2 + 1, ncls - 2, ncls - 1):
        ms = [mk for mk, v in marks.items() if v[0] == "C%03d" % (c % ncls)]
        for b in (bases_g[0], bases_g[-1], bases_g[len(bases_g) // 2]):
            texts.append([b, ms[0]])
            texts.append([b, ms[-1], ms[0]])
    for _ in range(200):
        texts.append([rnd.choice(bases_g), rnd.choice(marks_g), rnd.choice(marks_g), rnd.choice(order[-5:]), rnd.choice(marks_g)])
    return m, texts


def singlepos(rnd, size):
    """Single-position map with a distinct value per glyph: SinglePos format 2 value array
    plus a huge Coverage -> offset to Coverage overflows."""
    n = {0: 300, 1: 9000, 2: 12000}[size]
    order = names(n)
    src = order[1:n - 50]
    values = {g: (rnd.randint(-300, 300) or 3, _nz(rnd), _nz(rnd), _nz(rnd)) for i, g in enumerate(src)}
    m = _model(n, gpos=[{"kind": "spos", "flag": {}, "values": values}])
    texts = [[g] for g in rnd.sample(src, min(len(src), 1500 if size else 200))]
    texts += [[g] for g in src[:4] + src[-4:] + src[len(src) // 2 - 3:len(src) // 2 + 3] + order[n - 50:n - 46]]
    texts += [[rnd.choice(order[1:]) for _i in range(4)] for _ in range(150)]
    return m, texts


def many_lookups(rnd, size):
    """Many medium-sized lookups: LookupList->Lookup offsets overflow (Extension promotion of
    the preceding lookups).  Substitutions feed each other across lookups, so the order of
    the lookups is observable."""
    nl, per, n = {0: (12, 30, 300), 1: (110, 330, 1400), 2: (200, 400, 2000)}[size]
    order = names(n)
    gsub = []
    for li in range(nl):
        src = rnd.sample(order[1:], per)
        if li % 3 == 2:
            rules = [((g, rnd.choice(order[1:])), (rnd.choice(order[1:]),)) for g in src]
        else:
            rules = [((g,), (rnd.choice(order[1:]),)) for g in src]
        gsub.append({"kind": "subst", "flag": {}, "subtables": [rules]})
    m = _model(n, gsub=gsub)
    texts = []
    for li in range(nl):
        for r in rnd.sample(gsub[li]["subtables"][0], 6 if size else 4):
            texts.append(list(r[0]))
            texts.append(list(r[0]) + list(r[0]))
    for _ in range(600 if size else 100):
        texts.append([rnd.choice(order[1:]) for _i in range(rnd.randrange(1, 6))])
    return m, texts


def mixed(rnd, size):
    """GSUB and GPOS together: ligatures + kerning pairs + single positions + GDEF."""
    m1, t1 = ligatures(rnd, 0)
    m2, t2 = kern_pairs(rnd, 0)
    n = max(len(m1["order"]), len(m2["order"]))
    m = _model(n, gsub=m1["GSUB"], gpos=m2["GPOS"])
    return m, t1 + t2


# --- tables for which no valid packing exists ------------------------------------------
def huge_ligature_set(rnd, size):
    """One LigatureSet > 64 KiB: all ligatures start with the same glyph, the offsets from the
    LigatureSet to its Ligature tables cannot fit and the set cannot be split."""
    n = 400
    order = names(n)
    comp = order[2:n - 20]
    first = order[1]
    rules, seen = [], set()
    while len(rules) < 8200:
        s = (first,) + tuple(rnd.choice(comp) for _i in range(rnd.choice([3, 4])))
        if s in seen:
            continue
        seen.add(s)
        rules.append((s, (rnd.choice(order[n - 20:]),)))
    m = _model(n, gsub=[{"kind": "subst", "flag": {}, "subtables": [rules]}])
    return m, [list(r[0]) for r in rules[:50]]


def huge_chain_format3(rnd, size):
    """One ChainContextSubst format 3 rule whose coverage tables exceed 64 KiB in total."""
    n = 6000
    order = names(n)
    sets = []
    for _ in range(44):
        sets.append(sorted(rnd.sample(order[1:], 900), key=order.index))
    inline = {"kind": "subst", "flag": {}, "subtables": [[((g,), (order[1],)) for g in sets[20]]]}
    rule = {"back": sets[:20], "input": [sets[20]], "ahead": sets[21:], "lookups": [[inline]]}
    m = _model(n, gsub=[{"kind": "chain", "flag": {}, "subtables": [[rule]]}])
    return m, []


def huge_marklig(rnd, size):
    """One LigatureAttach (a ligature with many components x many mark classes, all anchors
    distinct) > 64 KiB: MarkLigPos has no split function."""
    ncomp, ncls = 110, 110
    n = ncls + 20
    order = names(n)
    lig = order[1]
    marks_g = order[2:2 + ncls]
    marks = {mk: ("C%03d" % i, (i, 500 + i)) for i, mk in enumerate(marks_g)}
    comps = []
    k = 0
    for c in range(ncomp):
        d = {}
        for i in range(ncls):
            k += 1
            d["C%03d" % i] = (k % 30000, k // 7)
        comps.append(d)
    gdef = {lig: 2}
    gdef.update({g: 3 for g in marks_g})
    m = _model(n, gpos=[{"kind": "mlig", "flag": {}, "marks": marks, "ligs": {lig: comps}}], gdef=gdef)
    return m, []


SPECS = {
    "kern_pairs": kern_pairs, "class_kern": class_kern, "zero_row_shadow": zero_row_shadow, "ligatures": ligatures,
    "multiple": multiple, "alternate": alternate, "markbase": markbase, "singlepos": singlepos,
    "many_lookups": many_lookups, "mixed": mixed, "class0_column": class0_column, "permuted": permuted, "devices": devices, "varkern": varkern, "class_kern_v2": class_kern_v2,
}
UNPACKABLE = {"huge_ligature_set": huge_ligature_set, "huge_chain_format3": huge_chain_format3, "huge_marklig": huge_marklig}
LEVEL_OF = {
    "kern_pairs": "Lookup->SubTable and PairPos->PairSet", "class_kern": "PairPos format 2 -> Coverage/ClassDef (Class1Records)",
    "ligatures": "LigatureSubst->LigatureSet", "multiple": "MultipleSubst->Sequence / Coverage", "alternate": "AlternateSubst->AlternateSet / Coverage",
    "markbase": "BaseArray->Anchor (mark classes)", "singlepos": "SinglePos->Coverage", "many_lookups": "LookupList->Lookup",
}


def make(name, rnd, size):
    f = SPECS.get(name) or UNPACKABLE[name]
    return f(rnd, size)


# ---------------------------------------------------------------- spec -> in-memory tables
def base_font(order, advances, gdef=None):
    from fontTools.fontBuilder import FontBuilder
    from fontTools.pens.ttGlyphPen import TTGlyphPen

    fb = FontBuilder(1000, isTTF=True)
    fb.setupGlyphOrder(order)
    from fontTools.ttLib import newTable
    from fontTools.ttLib.tables._c_m_a_p import CmapSubtable

    cm = newTable("cmap")
    cm.tableVersion = 0
    st = CmapSubtable.newSubtable(12)
    st.platformID, st.platEncID, st.language = 3, 10, 0
    st.cmap = {0xF0000 + i: g for i, g in enumerate(order)}
    cm.tables = [st]
    fb.font["cmap"] = cm
    g = TTGlyphPen(None).glyph()
    fb.setupGlyf({n: g for n in order})
    fb.setupHorizontalMetrics({n: (advances[n], 0) for n in order})
    fb.setupHorizontalHeader(ascent=800, descent=-200)
    fb.setupNameTable({"familyName": "T", "styleName": "R"})
    fb.setupOS2()
    fb.setupPost(keepGlyphNames=False)
    b = io.BytesIO()
    fb.save(b)
    return b.getvalue()


def _dev(ex):
    from fontTools.ttLib.tables import otTables as ot

    if not ex or "devspec" not in ex:
        return None
    start, end, fmt = ex["devspec"]
    d = ot.Device()
    d.StartSize, d.EndSize, d.DeltaFormat = start, end, fmt
    d.DeltaValue = [ex["dev"].get(p, 0) for p in range(start, end + 1)]
    return d


def _value(v):
    from fontTools.otlLib import builder as B

    if v is None:
        return None
    d = {}
    for k, x in zip(("XPlacement", "YPlacement", "XAdvance", "YAdvance"), v):
        if x:
            d[k] = x
    if len(v) > 4 and v[4]:
        for f, name in (("xp", "XPlaDevice"), ("yp", "YPlaDevice"), ("xa", "XAdvDevice"), ("ya", "YAdvDevice")):
            dev = _dev(v[4].get(f))
            if dev is not None:
                d[name] = dev
    if not d:
        d = {"XAdvance": 0}
    return B.buildValue(d)


def _anc(a):
    from fontTools.otlLib import builder as B

    if a is None:
        return None
    ex = a[2] if len(a) > 2 and a[2] else {}
    return B.buildAnchor(a[0], a[1], deviceX=_dev(ex.get("x")), deviceY=_dev(ex.get("y")))


def _lookup_tables(lk, gm):
    from fontTools.otlLib import builder as B
    from fontTools.ttLib.tables import otTables as ot

    from fontTools.ttLib.tables.otBase import ValueRecord

    k = lk["kind"]
    if k == "subst":
        out = []
        for st in lk["subtables"]:
            if all(len(i) == 1 and len(o) == 1 for i, o in st):
                out.append(B.buildSingleSubstSubtable({i[0]: o[0] for i, o in st}))
            elif all(len(i) == 1 for i, o in st):
                out.append(B.buildMultipleSubstSubtable({i[0]: list(o) for i, o in st}))
            else:
                out.append(B.buildLigatureSubstSubtable({tuple(i): o[0] for i, o in st}))
        return out
    if k == "alt":
        return [B.buildAlternateSubstSubtable({g: list(a) for g, a in lk["alternates"].items()})]
    if k == "spos":
        return B.buildSinglePos({g: _value(v) for g, v in lk["values"].items()}, gm)
    if k == "ppos":
        out = []
        if lk["pairs"]:
            out.extend(B.buildPairPosGlyphs({(a, b): (_value(v1), _value(v2)) for a, b, v1, v2 in lk["pairs"]}, gm))
        bld = lk.get("_build")
        for st in (bld["classes"] if bld else lk["classes"]):
            t = B.buildPairPosClassesSubtable({(tuple(l), tuple(r)): (_value(v1), _value(v2)) for l, r, v1, v2 in st}, gm)
            if bld:
                # non-zero values in the class-0 column of ClassDef2 ("any other glyph")
                for l, v0 in bld["class0"]:
                    rows = {t.ClassDef1.classDefs.get(g, 0) for g in l}
                    assert len(rows) == 1
                    t.Class1Record[rows.pop()].Class2Record[0].Value1 = ValueRecord(src=_value(v0), valueFormat=t.ValueFormat1)
            out.append(t)
        return out
    if k == "curs":
        return [B.buildCursivePosSubtable({g: (_anc(e), _anc(x))
                                           for g, (e, x) in lk["anchors"].items()}, gm)]
    if k == "mbase":
        cls = sorted({c for c, a in lk["marks"].values()})
        cid = {c: i for i, c in enumerate(cls)}
        marks = {mk: (cid[c], _anc(a)) for mk, (c, a) in lk["marks"].items()}
        bases = {b: {cid[c]: _anc(a) for c, a in d.items() if c in cid} for b, d in lk["bases"].items()}
        return [B.buildMarkBasePosSubtable(marks, bases, gm)]
    if k == "mlig":
        cls = sorted({c for c, a in lk["marks"].values()})
        cid = {c: i for i, c in enumerate(cls)}
        marks = {mk: (cid[c], _anc(a)) for mk, (c, a) in lk["marks"].items()}
        ligs = {l: [{cid[c]: _anc(a) for c, a in d.items() if c in cid} for d in comps] for l, comps in lk["ligs"].items()}
        return [B.buildMarkLigPosSubtable(marks, ligs, gm)]
    if k == "chain":
        out = []
        for st in lk["subtables"]:
            for r in st:
                t = ot.ChainContextSubst()
                t.Format = 3
                t.BacktrackCoverage = [B.buildCoverage(set(s), gm) for s in reversed(r["back"])]
                t.BacktrackGlyphCount = len(t.BacktrackCoverage)
                t.InputCoverage = [B.buildCoverage(set(s), gm) for s in r["input"]]
                t.InputGlyphCount = len(t.InputCoverage)
                t.LookAheadCoverage = [B.buildCoverage(set(s), gm) for s in r["ahead"]]
                t.LookAheadGlyphCount = len(t.LookAheadCoverage)
                t.SubstLookupRecord = []
                for seq, refs in enumerate(r["lookups"]):
                    for ref in refs:
                        rec = ot.SubstLookupRecord()
                        rec.SequenceIndex = seq
                        rec.LookupListIndex = ref["_index"]
                        t.SubstLookupRecord.append(rec)
                t.SubstCount = len(t.SubstLookupRecord)
                out.append(t)
        return out
    raise KeyError(k)


def add_tables(font, model):
    """Put GSUB/GPOS/GDEF built from the spec on the font (in-memory otTables objects)."""
    from fontTools.otlLib import builder as B
    from fontTools.ttLib import newTable
    from fontTools.ttLib.tables import otTables as ot

    gm = font.getReverseGlyphMap()
    for tag in ("GSUB", "GPOS"):
        lks = model[tag]
        if not lks:
            continue
        # inline lookups of contextual rules go to the end of the list
        extra = []
        for lk in lks:
            if lk["kind"] == "chain":
                for st in lk["subtables"]:
                    for r in st:
                        for refs in r["lookups"]:
                            for ref in refs:
                                ref["_index"] = len(lks) + len(extra)
                                extra.append(ref)
        lookups = []
        for lk in list(lks) + extra:
            sts = [s for s in _lookup_tables(lk, gm) if s is not None]
            lkp = B.buildLookup(sts, 0)
            if model.get("extension") and tag == "GPOS":
                for si, sub in enumerate(lkp.SubTable):
                    ext = ot.ExtensionPos()
                    ext.Format = 1
                    ext.ExtSubTable = sub
                    ext.ExtensionLookupType = sub.LookupType
                    lkp.SubTable[si] = ext
                lkp.LookupType = 9
            lookups.append(lkp)
        t = getattr(ot, tag)()
        t.Version = 0x00010000
        t.LookupList = ot.LookupList()
        t.LookupList.Lookup = lookups
        t.LookupList.LookupCount = len(lookups)
        fr = ot.FeatureRecord()
        fr.FeatureTag = FEATURE
        fr.Feature = ot.Feature()
        fr.Feature.FeatureParams = None
        fr.Feature.LookupListIndex = list(range(len(lks)))
        fr.Feature.LookupCount = len(lks)
        t.FeatureList = ot.FeatureList()
        t.FeatureList.FeatureRecord = [fr]
        t.FeatureList.FeatureCount = 1
        sr = ot.ScriptRecord()
        sr.ScriptTag = "DFLT"
        sr.Script = ot.Script()
        sr.Script.DefaultLangSys = ot.DefaultLangSys()
        sr.Script.DefaultLangSys.ReqFeatureIndex = 0xFFFF
        sr.Script.DefaultLangSys.FeatureIndex = [0]
        sr.Script.DefaultLangSys.FeatureCount = 1
        sr.Script.DefaultLangSys.LookupOrder = None
        sr.Script.LangSysRecord = []
        sr.Script.LangSysCount = 0
        t.ScriptList = ot.ScriptList()
        t.ScriptList.ScriptRecord = [sr]
        t.ScriptList.ScriptCount = 1
        tb = newTable(tag)
        tb.table = t
        font[tag] = tb
    if model.get("gdef"):
        g = ot.GDEF()
        g.Version = 0x00010000
        g.GlyphClassDef = ot.GlyphClassDef()
        g.GlyphClassDef.classDefs = dict(model["gdef"])
        g.AttachList = g.LigCaretList = g.MarkAttachClassDef = None
        if model.get("carets"):
            # ligature carets by coordinate with a Device table each (CaretValue format 3)
            lcl = ot.LigCaretList()
            glyphs = sorted(model["carets"], key=gm.__getitem__)
            lcl.Coverage = B.buildCoverage(glyphs, gm)
            lcl.LigGlyph = []
            for gl in glyphs:
                lg = ot.LigGlyph()
                lg.CaretValue = []
                for coord, ex in model["carets"][gl]:
                    cv = ot.CaretValue()
                    cv.Format = 3
                    cv.Coordinate = coord
                    cv.DeviceTable = _dev(ex)
                    lg.CaretValue.append(cv)
                lg.CaretCount = len(lg.CaretValue)
                lcl.LigGlyph.append(lg)
            lcl.LigGlyphCount = len(lcl.LigGlyph)
            g.LigCaretList = lcl
        tb = newTable("GDEF")
        tb.table = g
        font["GDEF"] = tb
