"""Generated AAT 'morx' tables for the C16 hash-seed sweep: state tables whose transitions carry
several *distinct actions of equal length*, which the compiler collects in a set before laying
them out (insertion subtables: tuples of glyph names; ligature subtables: packed action words).
Plain text generation; the XML follows the dumps in Tests/ttLib/tables/_m_o_r_x_test.py."""

GLYPHS = [".notdef"] + ["g.%d" % i for i in range(1, 120)]

_HEAD = """<Version value="2"/>
<Reserved value="0"/>
<MorphChain index="0">
  <DefaultFlags value="0x00000001"/>
  <MorphSubtable index="0">
    <TextDirection value="Horizontal"/>
    <ProcessingOrder value="LayoutOrder"/>
    <SubFeatureFlags value="0x00000001"/>
    <%(kind)s>
      <StateTable>
%(body)s
      </StateTable>
    </%(kind)s>
  </MorphSubtable>
</MorphChain>
"""


def _classes(rnd, n):
    glyphs = rnd.sample(GLYPHS[1:60], n * 2)
    lines = []
    for i, g in enumerate(sorted(glyphs, key=lambda s: int(s[2:]))):
        lines.append('        <GlyphClass glyph="%s" value="%d"/>' % (g, 4 + i % n))
    return lines


def morx_insertion(rnd):
    """(tag, xml, glyph order): every user class inserts its own glyph list; all lists of one kind
    have the same length, none is a sub-sequence of another."""
    ncls = rnd.randrange(3, 7)
    nstates = rnd.randrange(3, 6)
    len_cur = rnd.randrange(1, 4)
    len_mark = rnd.randrange(1, 4)
    pool = GLYPHS[60:]
    rnd_pool = pool[:]
    rnd.shuffle(rnd_pool)
    it = iter(rnd_pool)
    lines = _classes(rnd, ncls)
    for st in range(nstates):
        lines.append('        <State index="%d">' % st)
        for cls in range(4 + ncls):
            lines.append('          <Transition onGlyphClass="%d">' % cls)
            new = 0 if cls < 4 else rnd.randrange(nstates)
            lines.append('            <NewState value="%d"/>' % new)
            if cls >= 4 and st >= 1 and rnd.random() < 0.8:
                cur = rnd.random() < 0.6
                mark = rnd.random() < 0.5 or not cur
                flags = []
                if cur and rnd.random() < 0.5:
                    flags.append("CurrentInsertBefore")
                if mark and rnd.random() < 0.5:
                    flags.append("MarkedInsertBefore")
                if rnd.random() < 0.3:
                    flags.append("SetMark")
                if flags:
                    lines.append('            <Flags value="%s"/>' % ",".join(flags))
                if cur:
                    for _ in range(len_cur):
                        lines.append('            <CurrentInsertionAction glyph="%s"/>' % next(it, "g.60"))
                if mark:
                    for _ in range(len_mark):
                        lines.append('            <MarkedInsertionAction glyph="%s"/>' % next(it, "g.61"))
            lines.append("          </Transition>")
        lines.append("        </State>")
    return "morx", _HEAD % {"kind": "InsertionMorph", "body": "\n".join(lines)}, GLYPHS


def morx_ligature(rnd):
    ncls = rnd.randrange(3, 6)
    nstates = rnd.randrange(3, 6)
    nact = rnd.randrange(1, 4)
    lines = _classes(rnd, ncls)
    used = set()
    for st in range(nstates):
        lines.append('        <State index="%d">' % st)
        for cls in range(4 + ncls):
            lines.append('          <Transition onGlyphClass="%d">' % cls)
            lines.append('            <NewState value="%d"/>' % (0 if cls < 4 else rnd.randrange(nstates)))
            if cls >= 4:
                lines.append('            <Flags value="SetComponent"/>')
                if st >= 1 and rnd.random() < 0.8:
                    for i in range(nact):
                        while True:
                            d = rnd.randrange(-40, 40)
                            if (d, i) not in used:
                                used.add((d, i))
                                break
                        store = ' Flags="Store"' if (i == nact - 1 or rnd.random() < 0.3) else ""
                        lines.append('            <Action GlyphIndexDelta="%d"%s/>' % (d, store))
            lines.append("          </Transition>")
        lines.append("        </State>")
    lines.append("        <LigComponents>")
    for i in range(8):
        lines.append('          <LigComponent index="%d" value="%d"/>' % (i, rnd.randrange(0, 6)))
    lines.append("        </LigComponents>")
    lines.append("        <Ligatures>")
    for i in range(6):
        lines.append('          <Ligature glyph="%s" index="%d"/>' % (GLYPHS[100 + i], i))
    lines.append("        </Ligatures>")
    return "morx", _HEAD % {"kind": "LigatureMorph", "body": "\n".join(lines)}, GLYPHS


GENERATORS = {"morx-insertion": morx_insertion, "morx-ligature": morx_ligature}
