"""Workload of check C04: fontBuilder fonts built to stress derived fields, the
save sweep, collections and the foreign workloads (subset, instancer, merge, varLib,
ttx, woff2.compress).  Everything here only *produces saves*; the verdicts come from
the monitors in vmon/checks/c04.py and the oracles in vmon/oracle."""
import io
import itertools
import math
import os
import struct

from vmon import corpus, env
from vmon.case import short_hash, LibRaised

# ============================================================================ glyph construction
def _simple(contours, instr=b"", overlap=False):
    """contours: list of lists of (x, y, on)."""
    from fontTools.ttLib.tables._g_l_y_f import Glyph, GlyphCoordinates
    from fontTools.ttLib.tables import ttProgram
    g = Glyph()
    g.numberOfContours = len(contours)
    pts, flags, ends = [], bytearray(), []
    for c in contours:
        for x, y, on in c:
            pts.append((x, y))
            flags.append(1 if on else 0)
        ends.append(len(pts) - 1)
    if overlap:
        flags[0] |= 0x40
    g.coordinates = GlyphCoordinates(pts)
    g.flags = flags
    g.endPtsOfContours = ends
    g.program = ttProgram.Program()
    g.program.fromBytecode(bytes(instr))
    return g


def _empty():
    from fontTools.ttLib.tables._g_l_y_f import Glyph
    return Glyph()


def _comp(parts, instr=None):
    """parts: dicts(name, x, y, t=((xx,xy),(yx,yy))|None, flags=0, pm=(firstPt, secondPt)|None)."""
    from fontTools.ttLib.tables._g_l_y_f import Glyph, GlyphComponent
    from fontTools.ttLib.tables import ttProgram
    g = Glyph()
    g.numberOfContours = -1
    g.components = []
    for p in parts:
        c = GlyphComponent()
        c.glyphName = p["name"]
        c.flags = p.get("flags", 0)
        if p.get("pm"):
            c.firstPt, c.secondPt = p["pm"]
        else:
            c.x, c.y = p.get("x", 0), p.get("y", 0)
        if p.get("t") is not None:
            c.transform = [list(p["t"][0]), list(p["t"][1])]
        g.components.append(c)
    if instr is not None:
        g.program = ttProgram.Program()
        g.program.fromBytecode(bytes(instr))
    return g


def _box(x0, y0, x1, y1):
    return [(x0, y0, 1), (x0, y1, 1), (x1, y1, 1), (x1, y0, 1)]


def _build(glyphs, metrics, upem=1000, vmetrics=None, extra_tables=0, dsig=False, cmap=None):
    """glyphs: ordered dict name -> Glyph ; metrics: name -> (adv, lsb)."""
    from fontTools.fontBuilder import FontBuilder
    from fontTools.ttLib import newTable
    order = list(glyphs)
    fb = FontBuilder(upem, isTTF=True)
    fb.setupGlyphOrder(order)
    fb.setupCharacterMap(cmap if cmap is not None else {0x41 + i: n for i, n in enumerate(order[1:27])})
    fb.setupGlyf(dict(glyphs))
    fb.setupHorizontalMetrics(metrics)
    fb.setupHorizontalHeader(ascent=800, descent=-200)
    if vmetrics:
        fb.setupVerticalMetrics(vmetrics)
        fb.setupVerticalHeader()
    fb.setupNameTable({"familyName": "C04 Test", "styleName": "Regular"})
    fb.setupOS2()
    fb.setupPost()
    if dsig:
        fb.setupDummyDSIG()
    font = fb.font
    for i in range(extra_tables):
        t = newTable("zz%02d" % i)
        t.data = bytes((i * 7 + k) & 0xFF for k in range(i * 3 + (i % 4)))
        font["zz%02d" % i] = t
    return font


def _auto_metrics(glyphs, rnd, mode="xmin"):
    from fontTools.ttLib.tables._g_l_y_f import Glyph
    m = {}
    for n, g in glyphs.items():
        m[n] = (rnd.choice([0, 250, 500, 600, 1000]), 0)
    return m


def _fix_lsb(font, how="xmin"):
    """lsb = xMin for every glyph with an outline (bounds are known after setupGlyf)."""
    glyf, hmtx = font["glyf"], font["hmtx"]
    for n in font.getGlyphOrder():
        g = glyf[n]
        adv, lsb = hmtx.metrics[n]
        if g.numberOfContours != 0 and how == "xmin":
            hmtx.metrics[n] = (adv, g.xMin)


# ---------------------------------------------------------------------------- the fonts
def g_nested(rnd):
    gl = {".notdef": _simple([_box(50, 0, 450, 700)])}
    gl["base"] = _simple([_box(10, 20, 110, 220), [(30, 40, 1), (60, 300, 0), (90, 40, 1)]])
    gl["dot"] = _simple([_box(0, 0, 40, 40)])
    prev = "base"
    for d in range(1, 7):
        name = "n%d" % d
        parts = [{"name": prev, "x": rnd.randrange(-60, 200), "y": rnd.randrange(-100, 100)}]
        if d % 2:
            parts.append({"name": "dot", "x": 300 + 10 * d, "y": -50 * d})
        gl[name] = _comp(parts)
        prev = name
    gl["wide"] = _comp([{"name": "dot", "x": i * 50, "y": 0} for i in range(9)])      # many elements, depth 1
    gl["mix"] = _comp([{"name": "n3", "x": 0, "y": 0}, {"name": "wide", "x": 5, "y": 500}, {"name": "n6", "x": -400, "y": 7}])
    met = {n: (rnd.choice([300, 500, 700]), rnd.randrange(-20, 30)) for n in gl}
    return _build(gl, met)


def g_xform(rnd):
    gl = {".notdef": _empty()}
    gl["tri"] = _simple([[(0, 0, 1), (333, 777, 1), (501, 13, 1)]])
    gl["arc"] = _simple([[(0, 0, 1), (100, 301, 0), (203, 299, 0), (307, 3, 1)], _box(401, 401, 433, 477)])
    c30, s30 = math.cos(math.radians(30)), math.sin(math.radians(30))
    gl["half"] = _comp([{"name": "tri", "x": 10, "y": 20, "t": ((0.5, 0), (0, 0.5))}])
    gl["flip"] = _comp([{"name": "arc", "x": 0, "y": 0, "t": ((-1.0, 0), (0, 1.0))}])
    gl["xy"] = _comp([{"name": "tri", "x": 33, "y": -7, "t": ((1.25, 0), (0, 0.3333))}])
    gl["rot"] = _comp([{"name": "arc", "x": 100, "y": 50, "t": ((c30, s30), (-s30, c30))}])
    gl["apple"] = _comp([{"name": "tri", "x": 120, "y": 60, "t": ((0.75, 0), (0, 0.75)), "flags": 0x0800}])
    gl["ms"] = _comp([{"name": "tri", "x": 120, "y": 60, "t": ((0.75, 0), (0, 0.75)), "flags": 0x1000}])
    gl["shear"] = _comp([{"name": "arc", "x": -30, "y": 9, "t": ((1.0, 0.37), (-0.21, 1.0)), "flags": 0x0004 | 0x0200}])
    gl["nest1"] = _comp([{"name": "rot", "x": 11, "y": 13, "t": ((0.61, 0), (0, 0.61))}, {"name": "half", "x": 700, "y": 0}])
    gl["nest2"] = _comp([{"name": "nest1", "x": -3, "y": 5, "t": ((1.9, 0), (0, -1.3))},
                         {"name": "tri", "x": 0, "y": 0, "flags": 0x0400}], instr=b"\xb0\x01\xb0\x02")
    gl["inttr"] = _comp([{"name": "nest1", "x": 40, "y": 40}])          # integer translate of a transformed subtree
    r = rnd.random
    gl["rand"] = _comp([{"name": "arc", "x": rnd.randrange(-500, 500), "y": rnd.randrange(-500, 500),
                         "t": ((r() * 3 - 1.5, r() - 0.5), (r() - 0.5, r() * 3 - 1.5))},
                        {"name": "tri", "x": rnd.randrange(-50, 50), "y": rnd.randrange(-50, 50),
                         "t": ((r() * 2 - 1, 0), (0, r() * 2 - 1))}])
    met = {n: (rnd.choice([0, 400, 900]), rnd.randrange(-100, 100)) for n in gl}
    return _build(gl, met, upem=2048)


def g_empty(rnd):
    gl = {".notdef": _empty(), "space": _empty(), "A": _simple([_box(0, 0, 10, 10)]), "e1": _empty(), "e2": _empty()}
    gl["ce"] = _comp([{"name": "e1", "x": 100, "y": 100}])                  # composite of an empty glyph only
    gl["cm"] = _comp([{"name": "e1", "x": 5, "y": 5}, {"name": "A", "x": 700, "y": -300}, {"name": "e2", "x": 0, "y": 0}])
    gl["cce"] = _comp([{"name": "ce", "x": 1, "y": 1}])
    gl["z"] = _empty()
    met = {n: (500, 0) for n in gl}
    met["A"] = (20, 0)
    return _build(gl, met)


def g_allempty(rnd):
    gl = {".notdef": _empty(), "a": _empty(), "b": _empty()}
    return _build(gl, {".notdef": (500, 0), "a": (0, 0), "b": (250, 10)})


def g_negsb(rnd):
    gl = {".notdef": _simple([_box(-50, -100, 650, 900)])}
    gl["over"] = _simple([_box(-200, 0, 900, 300)])                        # wider than its advance on both sides
    gl["left"] = _simple([_box(-700, -10, -600, 10)])                      # entirely left of the origin
    gl["right"] = _simple([_box(1500, 0, 1600, 10)])
    gl["c"] = _comp([{"name": "left", "x": -100, "y": 0}, {"name": "right", "x": 100, "y": 0}])
    gl["thin"] = _simple([[(0, 0, 1), (0, 500, 1)]])                       # zero-width box
    met = {".notdef": (600, -50), "over": (500, -200), "left": (100, -650), "right": (50, 1400), "c": (300, 17),
           "thin": (0, 0)}
    return _build(gl, met)


def g_offcurve(rnd):
    gl = {".notdef": _empty()}
    gl["o4"] = _simple([[(0, 0, 0), (0, 400, 0), (400, 400, 0), (400, 0, 0)]])
    gl["o3"] = _simple([[(100, 100, 0), (333, 901, 0), (-77, 15, 0)], [(0, 0, 0), (10, 10, 0), (20, -5, 0)]])
    gl["o1"] = _simple([[(55, 66, 0)]])
    gl["mixed"] = _simple([[(0, 0, 1), (50, 100, 0), (100, 0, 0), (50, -100, 0)]], overlap=True)
    gl["co"] = _comp([{"name": "o4", "x": 10, "y": 10}, {"name": "o1", "x": -500, "y": 2000}])
    met = {n: (400 + 10 * i, 7 * i - 20) for i, n in enumerate(gl)}
    return _build(gl, met)


def g_adv0(rnd):
    gl = {".notdef": _simple([_box(0, 0, 100, 100)])}
    for i in range(12):
        gl["g%d" % i] = _simple([_box(i, 0, 50 + i, 60)]) if i % 3 else _empty()
    variant = rnd.randrange(4)
    met = {}
    for i, n in enumerate(gl):
        adv = {0: 0, 1: 777, 2: (i * 100 if i < 5 else 432), 3: (65535 if i == 3 else (0 if i > 8 else 10 * i))}[variant]
        met[n] = (adv, rnd.randrange(-5, 5))
    return _build(gl, met)


def g_single(rnd):
    v = rnd.randrange(3)
    gl = {".notdef": [_empty(), _simple([_box(0, -10, 500, 700)]), _simple([[(5, 5, 0)]])][v]}
    return _build(gl, {".notdef": (rnd.choice([0, 500]), rnd.choice([0, -3, 5]))}, cmap={})


def g_singlept(rnd):
    gl = {".notdef": _empty(), "pt": _simple([[(100, 100, 1)]]), "pt0": _simple([[(0, 0, 1)]]),
          "dup": _simple([[(40, 40, 1), (40, 40, 1), (40, 40, 0)]]), "sq": _simple([_box(0, 0, 50, 50)])}
    gl["c_pt"] = _comp([{"name": "sq", "x": 0, "y": 0}, {"name": "pt", "x": 200, "y": 300}])
    gl["c_only"] = _comp([{"name": "pt", "x": -10, "y": -20}])
    gl["c_dup"] = _comp([{"name": "dup", "x": 500, "y": 500}, {"name": "sq", "x": 0, "y": 0}])
    gl["c_pt0"] = _comp([{"name": "pt0", "x": 0, "y": 0}, {"name": "sq", "x": 10, "y": 10}])
    met = {n: (300, 0) for n in gl}
    return _build(gl, met)


def g_pointmatch(rnd):
    gl = {".notdef": _empty(), "base": _simple([_box(0, 0, 400, 400), [(200, 500, 1), (210, 520, 1), (190, 520, 1)]]),
          "mark": _simple([[(0, 0, 1), (30, 60, 1), (-30, 60, 1)]])}
    gl["pm"] = _comp([{"name": "base", "x": 0, "y": 0}, {"name": "mark", "pm": (4, 0)}])
    gl["pmt"] = _comp([{"name": "base", "x": 15, "y": -15}, {"name": "mark", "pm": (2, 1), "t": ((0.5, 0), (0, 1.75))}])
    gl["pm2"] = _comp([{"name": "pm", "x": 100, "y": 0}, {"name": "mark", "pm": (9, 2)}])
    met = {n: (450, 0) for n in gl}
    return _build(gl, met)


def g_vert(rnd):
    gl = {".notdef": _simple([_box(50, -100, 450, 800)]), "a": _simple([_box(0, 0, 300, 500)]), "e": _empty(),
          "tall": _simple([_box(10, -900, 20, 1900)]), "c": None}
    gl["c"] = _comp([{"name": "a", "x": 0, "y": 600}, {"name": "a", "x": 0, "y": -600}])
    met = {n: (500, 0) for n in gl}
    v = rnd.randrange(3)
    vmet = {n: ((1000 if v == 0 else 1000 + 10 * i if v == 1 else 0), rnd.randrange(-300, 300)) for i, n in enumerate(gl)}
    return _build(gl, met, vmetrics=vmet)


def g_triplets(rnd):
    """Point deltas on every WOFF2 triplet-class boundary, both signs; instructions; overlap bits."""
    vals = [0, 1, 63, 64, 65, 255, 256, 257, 767, 768, 769, 1023, 1024, 1279, 1280, 1281, 4095, 4096, 4097, 9000]
    gl = {".notdef": _empty()}
    k = 0
    for dx, dy in itertools.product(vals, repeat=2):
        if (dx, dy) == (0, 0) or (dx > 1300 and dy > 1300 and (dx + dy) % 3):
            continue
        if k % 8 == 0:
            cur = [(0, 0, 1)]
            gl["t%d" % (k // 8)] = None
        sx, sy = (1, -1)[k & 1], (1, -1)[(k >> 1) & 1]
        x, y = cur[-1][0] + sx * dx, cur[-1][1] + sy * dy
        if abs(x) > 30000 or abs(y) > 30000:
            x, y = cur[-1][0] - sx * dx, cur[-1][1] - sy * dy
        cur.append((x, y, (k >> 2) & 1))
        k += 1
        if k % 8 == 0:
            name = "t%d" % ((k - 1) // 8)
            gl[name] = _simple([cur], instr=bytes(range(k % 5)) if k % 16 == 0 else b"", overlap=bool(k % 24 == 0))
    gl = {n: g for n, g in gl.items() if g is not None}
    gl["big"] = _simple([[(i * 7 % 300, i * 13 % 400, i % 3 != 0) for i in range(300)]], instr=b"\x00" * 300)
    gl["many"] = _simple([_box(i * 10, 0, i * 10 + 5, 5) for i in range(260)])     # > 253 contours: 255UInt16 forms
    gl["pc"] = _simple([[(i, (i * i) % 50, 1) for i in range(600)]])               # > 506 points in a contour
    gl["ci"] = _comp([{"name": "big", "x": 1, "y": 2}, {"name": "many", "x": 300, "y": 4000}], instr=b"\x01\x02\x03")
    met = {n: (1000, 0) for n in gl}
    return _build(gl, met, upem=16384)


def _sized_font(rnd, delta, odd=False):
    """A font whose glyf table, compiled unpadded, ends `delta` bytes from the 0x20000
    short/long loca boundary.  With odd=True every glyph has an odd length and the
    boundary meant is the one of glyf.padding=1 (one pad byte per glyph still fits or not)."""
    body = [(i % 40 * 3, i // 40 * 5, 1) for i in range(150)]

    def per_glyph(ilen):
        f = _build({".notdef": _empty(), "g": _simple([body], instr=b"\x00" * ilen)}, {".notdef": (0, 0), "g": (0, 0)})
        f["glyf"].padding = 0
        return len(f["glyf"].compile(f))

    ilen = 0
    per = per_glyph(ilen)
    if (per % 2 == 1) != odd:
        ilen = 1
        per = per_glyph(ilen)
    assert (per % 2 == 1) == odd
    n = (0x20000 - 3000) // (per + (1 if odd else 0))
    total = 0x20000 + delta - (n if odd else 0)
    r = total - n * per
    assert r >= 0 and r % 2 == 0, (r, per, n)
    gl = {".notdef": _empty()}
    for i in range(n):
        gl["g%d" % i] = _simple([body], instr=b"\x00" * (ilen + (r if i == n - 1 else 0)))
    font = _build(gl, {k: (500, 0) for k in gl})
    font["glyf"].padding = 0
    got = len(font["glyf"].compile(font))
    assert got == total, (got, total)
    font["glyf"].padding = 1
    return font


def g_loca_lo(rnd):
    return _sized_font(rnd, -2)


def g_loca_eq(rnd):
    return _sized_font(rnd, 0)


def g_loca_hi(rnd):
    return _sized_font(rnd, 2)


def g_loca_odd_fit(rnd):
    return _sized_font(rnd, -2, odd=True)


def g_loca_odd_nofit(rnd):
    return _sized_font(rnd, 0, odd=True)


def g_loca_odd_small(rnd):
    gl = {".notdef": _empty()}
    for i in range(7):
        gl["o%d" % i] = _simple([_box(0, 0, 10 + i, 10)], instr=b"\x00" * (i % 2 + 1))
    return _build(gl, {n: (100, 0) for n in gl})


def g_dsig(rnd):
    gl = {".notdef": _simple([_box(0, 0, 100, 100)]), "a": _simple([_box(5, 5, 10, 10)], overlap=True)}
    return _build(gl, {".notdef": (100, 0), "a": (20, 5)}, dsig=True, extra_tables=3)


def g_cff(rnd):
    from fontTools.fontBuilder import FontBuilder
    from fontTools.pens.t2CharStringPen import T2CharStringPen
    order = [".notdef", "space", "A", "neg", "curve", "frac", "two"]
    fb = FontBuilder(1000, isTTF=False)
    fb.setupGlyphOrder(order)
    fb.setupCharacterMap({32: "space", 65: "A"})
    cs = {}

    def draw(name, fn, width=500):
        pen = T2CharStringPen(width, None)
        fn(pen)
        cs[name] = pen.getCharString()

    def box(x0, y0, x1, y1):
        def f(pen):
            pen.moveTo((x0, y0)); pen.lineTo((x0, y1)); pen.lineTo((x1, y1)); pen.lineTo((x1, y0)); pen.closePath()
        return f

    def curve(pen):
        pen.moveTo((0, 0)); pen.curveTo((100, 400), (300, 400), (400, 0)); pen.closePath()
        pen.moveTo((600, 600)); pen.curveTo((900, 600), (900, 900), (600, 900)); pen.closePath()

    def frac(pen):
        pen.moveTo((10.5, 10.25)); pen.lineTo((10.5, 99.75)); pen.lineTo((77.3, 50)); pen.closePath()

    def two(pen):
        box(-300, -250, -200, -150)(pen)
        box(1200, 1100, 1300, 1250)(pen)

    draw(".notdef", box(50, 0, 450, 700))
    draw("space", lambda pen: None, 250)
    draw("A", box(rnd.randrange(0, 50), 0, 500 + rnd.randrange(0, 100), 700), 600)
    draw("neg", box(-150, -50, 700, 20), 400)
    draw("curve", curve, 1000)
    draw("frac", frac, 100)
    draw("two", two, 0)
    fb.setupCFF("C04Test-Regular", {"FullName": "C04 Test"}, cs, {})
    met = {"\x2enotdef": (500, 50), "space": (250, 0), "A": (600, 0), "neg": (400, -150), "curve": (1000, 0),
           "frac": (100, 10), "two": (0, -300)}
    fb.setupHorizontalMetrics(met)
    fb.setupHorizontalHeader(ascent=800, descent=-200)
    fb.setupNameTable({"familyName": "C04 Test", "styleName": "Regular"})
    fb.setupOS2()
    fb.setupPost()
    return fb.font


GENERATORS = {
    "nested": g_nested, "xform": g_xform, "empty": g_empty, "allempty": g_allempty, "negsb": g_negsb,
    "offcurve": g_offcurve, "adv0": g_adv0, "single": g_single, "singlept": g_singlept, "pointmatch": g_pointmatch,
    "vert": g_vert, "triplets": g_triplets, "loca_lo": g_loca_lo, "loca_eq": g_loca_eq, "loca_hi": g_loca_hi,
    "loca_odd_fit": g_loca_odd_fit, "loca_odd_nofit": g_loca_odd_nofit, "loca_odd_small": g_loca_odd_small, "dsig": g_dsig, "cff": g_cff,
}
# several seeds of the random ones
NAMES = sorted(GENERATORS) + ["xform@%d" % i for i in range(1, 4)] + ["adv0@%d" % i for i in range(1, 4)] \
    + ["nested@1", "single@1", "single@2", "vert@1", "vert@2"]
TABLE_COUNTS_QUICK = [1, 2, 3, 4, 5, 7, 8, 9, 15, 16, 17, 31, 33]
TABLE_COUNTS = list(range(1, 20)) + [31, 32, 33, 63, 64, 65, 100]


# ============================================================================ the save sweep
FLAVORS = (None, "woff", "woff2")
DERIVED_TABLES = ("head", "maxp", "hhea", "hmtx", "vhea", "vmtx", "loca", "glyf", "CFF ", "CFF2", "post")


def _scribble(font, rnd, recalc):
    """Put stale values into every derived field the coming save must recompute."""
    T = font.tables
    if "hhea" in T and "hmtx" in T:
        T["hhea"].numberOfHMetrics = rnd.choice([0, 1, 3, 9999])
    if "vhea" in T and "vmtx" in T:
        T["vhea"].numberOfVMetrics = rnd.choice([0, 1, 3, 9999])
    if "head" in T and "glyf" in T and "loca" in T:
        T["head"].indexToLocFormat = rnd.choice([0, 1])
    if not recalc:
        return
    if "glyf" in T:
        glyf = T["glyf"]
        for name in list(glyf.glyphs)[:4000]:
            g = glyf.glyphs[name]
            if not hasattr(g, "data") and g.numberOfContours != 0:
                g.xMin, g.yMin, g.xMax, g.yMax = rnd.choice([(0, 0, 0, 0), (7, 7, 8, 8), (-1, -2, 3, 4)])
        if "maxp" in T and getattr(T["maxp"], "tableVersion", 0) == 0x00010000:
            for f in ("maxPoints", "maxContours", "maxCompositePoints", "maxCompositeContours", "maxComponentElements",
                      "maxComponentDepth"):
                setattr(T["maxp"], f, rnd.choice([0, 1, 77]))
        if "head" in T:
            h = T["head"]
            h.xMin, h.yMin, h.xMax, h.yMax = 1, 2, 3, 4
            h.flags ^= 2
    if ("glyf" in T or "CFF " in T or "CFF2" in T):
        for hea, names in (("hhea", ("advanceWidthMax", "minLeftSideBearing", "minRightSideBearing", "xMaxExtent")),
                           ("vhea", ("advanceHeightMax", "minTopSideBearing", "minBottomSideBearing", "yMaxExtent"))):
            if hea in T and hea[0] + "mtx" in T:
                for f in names:
                    setattr(T[hea], f, rnd.choice([0, 5, 1234]))
    if "CFF " in T:
        try:
            T["CFF "].cff.topDictIndex[0].FontBBox = [1, 2, 3, 4]
        except Exception:
            pass


def _flavor_data(font, flavor, mode, rnd):
    from fontTools.ttLib.sfnt import WOFFFlavorData
    from fontTools.ttLib.woff2 import WOFF2FlavorData
    if flavor is None or mode == "keep":
        return
    toks = set(mode.split("+"))
    meta = b'<?xml version="1.0" encoding="UTF-8"?><metadata version="1.0"><uniqueid id="c04.%d"/></metadata>' \
        % rnd.randrange(10 ** (1 + rnd.randrange(4)))
    priv = bytes(rnd.randrange(256) for _ in range(rnd.choice([1, 2, 3, 4, 5, 17])))
    if flavor == "woff":
        fd = WOFFFlavorData()
    else:
        tt = {"glyf", "loca", "hmtx"} if "hmtx" in toks else (set() if "none" in toks else None)
        fd = WOFF2FlavorData(transformedTables=tt)
    if "meta" in toks:
        fd.metaData = meta
    if "priv" in toks:
        fd.privData = priv
    if "ver" in toks:
        fd.majorVersion, fd.minorVersion = 3, 7
    font.flavorData = fd


FD_MODES = ["keep", "plain", "meta", "priv", "meta+priv", "meta+priv+ver", "hmtx", "hmtx+meta+priv", "none", "none+priv"]


def _dest(ctx_scratch, i, rnd):
    k = rnd.randrange(5)
    if k == 0:
        return os.path.join(ctx_scratch, "out-%d.bin" % i), None
    if k == 1:
        b = io.BytesIO()
        b.write(b"PREFIX-NOT-PART-OF-THE-FONT")     # save() appends at the current position
        return b, None
    if k == 2:
        return open(os.path.join(ctx_scratch, "out-%d.bin" % i), "w+b"), "close"
    return io.BytesIO(), None


def _tables_equal(ctx, S, a, b, pair, what_a, what_b, ignore_head_bits=0, skip=()):
    """Compare decoded tables of two files of the same font; report differences."""
    from vmon import hooks
    pa, pb = a[1], b[1]
    tags = (set(pa.tables) | set(pb.tables)) - set(skip)
    n = 0
    for t in sorted(tags):
        da, db = pa.tables.get(t), pb.tables.get(t)
        if da is None or db is None:
            continue
        if t == b"head" and len(da) >= 54 and len(db) >= 54:
            da = da[:8] + b"\0\0\0\0" + da[12:]
            db = db[:8] + b"\0\0\0\0" + db[12:]
            if ignore_head_bits:
                fa = struct.unpack_from(">H", da, 16)[0] & ~ignore_head_bits
                fb = struct.unpack_from(">H", db, 16)[0] & ~ignore_head_bits
                da = da[:16] + struct.pack(">H", fa) + da[18:]
                db = db[:16] + struct.pack(">H", fb) + db[18:]
        n += 1
        if da != db:
            first = next((i for i in range(min(len(da), len(db))) if da[i] != db[i]), min(len(da), len(db)))
            hooks.report({"kind": "cross-flavour", "pair": pair, "table": t.decode("latin-1")},
                         "table %s differs between %s and %s of the same font (lengths %d/%d, first difference at byte %d)"
                         % (t.decode("latin-1"), what_a, what_b, len(da), len(db), first),
                         {"config_a": {k: a[0].get(k) for k in ("flavor", "reorder", "recalc", "padding")},
                          "a": da[max(0, first - 8):first + 24].hex(), "b": db[max(0, first - 8):first + 24].hex()})
    return n


def _compare_group(ctx, S, caps, label):
    """caps: {flavor: capture} of one (reorder, recalc, padding) group."""
    from vmon import hooks
    from vmon.oracle import derived as D
    from vmon.checks.c04 import glyph_model
    base = caps.get(None)
    if base is None:
        return
    n = 0
    if "woff" in caps:
        n += _tables_equal(ctx, S, base, caps["woff"], "sfnt/woff", "sfnt", "woff")
    w2 = caps.get("woff2")
    if w2 is not None:
        p2, p1 = w2[1], base[1]
        has_glyf = b"glyf" in p1.tables
        # glyf/loca are normalised (padding, loca rebuilt) whenever the glyf transform is requested,
        # even if the transform itself falls back to the null transform: compare them as outlines
        skip = {b"DSIG"} | ({b"glyf", b"loca", b"head"} if has_glyf else set())
        n += _tables_equal(ctx, S, base, w2, "sfnt/woff2", "sfnt", "woff2", ignore_head_bits=0x0800, skip=skip)
        if has_glyf:
            try:
                h1, h2 = D.read_head(p1.tables[b"head"]), D.read_head(p2.tables[b"head"])
            except (D.Bad, KeyError):
                h1 = h2 = None
            if h1 and h2:
                n += 1
                for k in h1:
                    # head: everything but checkSumAdjustment, flags bit 11 and indexToLocFormat (loca is rebuilt)
                    if k in ("checkSumAdjustment", "indexToLocFormat"):
                        continue
                    v1, v2 = (h1[k], h2[k]) if k != "flags" else (h1[k] & ~0x800, h2[k] & ~0x800)
                    if v1 != v2:
                        field = k
                        if k in ("created", "modified"):
                            # is it exactly the lenient reading of a bogus timestamp (top bytes dropped,
                            # values before 1970 taken as Unix time) that a head decompile/compile performs?
                            a, b = int.from_bytes(v1, "big"), int.from_bytes(v2, "big")
                            a &= 0xFFFFFFFF
                            if a < 0x7C25B080:
                                a += 0x7C25B080
                            if a == b:
                                field = "timestamp-rewritten-by-head-recompile"
                        hooks.report({"kind": "cross-flavour", "pair": "sfnt/woff2", "table": "head", "field": field},
                                     "head.%s differs between sfnt (%r) and woff2 (%r)" % (k, v1, v2),
                                     {"sfnt_head_loaded_before_save": "head" in base[0].get("loaded", []),
                                      "woff2_head_loaded_before_save": "head" in w2[0].get("loaded", [])})
            g1, g2 = glyph_model(p1), glyph_model(p2)
            if g1 is None or g2 is None:
                S["notes"]["cross:glyf-unreadable"] = S["notes"].get("cross:glyf-unreadable", 0) + 1
            else:
                n += 1
                if len(g1) != len(g2):
                    hooks.report({"kind": "cross-flavour", "pair": "sfnt/woff2", "table": "glyf", "field": "numGlyphs"},
                                 "sfnt glyf has %d glyphs, woff2 glyf %d" % (len(g1), len(g2)), None)
                else:
                    nb = 0
                    labels = ("kind", "points/components", "ends/instructions", "instructions/bbox", "bbox", "overlap")
                    for gid, (a, b) in enumerate(zip(g1, g2)):
                        ka, kb = a.outline_key(), b.outline_key()
                        if ka != kb and nb < 2:
                            nb += 1
                            field = next((nm for nm, x, y in zip(labels, ka, kb) if x != y), "shape")
                            hooks.report({"kind": "cross-flavour", "pair": "sfnt/woff2", "table": "glyf", "field": field},
                                         "glyph %d differs between the sfnt flavour and the WOFF2 flavour (%s)" % (gid, field),
                                         {"gid": gid, "sfnt": repr(ka)[:400], "woff2": repr(kb)[:400],
                                          "transformed": p2.info.get("transformed")})
                key = "cross:woff2-glyf-vs-sfnt" + ("(transformed)" if getattr(p2, "glyphs", None) is not None else "(normalised only)")
                S["notes"][key] = S["notes"].get(key, 0) + 1
    S["n"] += n
    S["notes"]["cross:tables-compared"] = S["notes"].get("cross:tables-compared", 0) + n


def _load_font(case, rnd, ctx):
    from fontTools.ttLib import TTLibError
    if case["src"] == "gen":
        name, _, k = case["name"].partition("@")
        import random as _r
        return GENERATORS[name](_r.Random("gen/%s/%s" % (case["name"], case["seed"] if k else 0)))
    with ctx.lib("load"):
        return corpus.load(case["path"], fontNumber=case.get("member"))


def drv_font(case, rnd, ctx, S):
    from fontTools.ttLib import TTLibError
    scratch = os.environ.get("VMON_SCRATCH") or "/tmp"
    font = _load_font(case, rnd, ctx)
    fid = short_hash(case["id"])[:8]
    tags = set(font.keys()) - {"GlyphOrder"}
    if not tags:
        ctx.skip("font without tables")
        return
    is_tt = "glyf" in tags
    src_flavor = font.flavor
    # 1. one save exactly as loaded (raw tables are copied; container only)
    reorder0 = rnd.choice([True, False, None])
    with ctx.lib("save", op_detail="as-loaded"):
        font.save(io.BytesIO(), reorderTables=reorder0)
    S["keys"].add("%s/asloaded" % fid)
    # 2. load the tables whose derived fields are recomputed
    try:
        for t in DERIVED_TABLES:
            if t in tags:
                font[t]
        if is_tt:
            font["glyf"].ensureDecompiled() if hasattr(font["glyf"], "ensureDecompiled") else None
    except Exception as e:
        ctx.skip("corpus font does not decompile: %s" % type(e).__name__)
        return
    groups = list(itertools.product((True, False, None), (True, False), (0, 1, 2, 4) if is_tt else (1,)))
    rnd.shuffle(groups)
    # the first group always recalculates
    first = next(i for i, g in enumerate(groups) if g[1])
    groups.insert(0, groups.pop(first))
    k = 0
    for gi, (reorder, recalc, pad) in enumerate(groups[:case["groups"]]):
        caps = {}
        fd_mode = rnd.choice(FD_MODES) if (case["src"] == "gen" or rnd.random() < 0.5) else "keep"
        order = list(FLAVORS)
        if rnd.random() < 0.3:
            order.reverse()
        for flavor in order:
            font.recalcBBoxes = recalc
            font.flavor = flavor
            if flavor != src_flavor or fd_mode != "keep":
                font.flavorData = None
            _flavor_data(font, flavor, fd_mode, rnd)
            if is_tt:
                font["glyf"].padding = pad
            _scribble(font, rnd, recalc)
            dest, closer = _dest(scratch, k, rnd)
            k += 1
            ncap = len(S["captures"])
            # WOFF2 needs head (flags bit 11): documented TTLibError otherwise
            expected = (TTLibError,) if flavor == "woff2" and not {"head", "maxp", "hhea"} <= tags else ()
            try:
                with ctx.lib("save", expected=expected, skip_reason="woff2 of a font without head/maxp/hhea", flavor=str(flavor)):
                    font.save(dest, reorderTables=reorder)
            except LibRaised:
                if expected:
                    continue
                raise
            finally:
                if closer:
                    dest.close()
            if len(S["captures"]) > ncap:
                caps[flavor] = S["captures"][-1]
                S["keys"].add("%s/%s/%s/%s/%s/%s" % (fid, flavor, reorder, recalc, pad, fd_mode))
        _compare_group(ctx, S, caps, case["id"])
        del S["captures"][:]
    font.close()


def _stale_binary(data, rnd):
    """Corrupt, in the *binary*, the derived fields a recalculating save must repair:
    stored glyph boxes, head bbox and flags bit 1, maxp profile, hhea/vhea extents.
    Uses only the oracle's own readers/assembler.  -> bytes or None (not applicable)."""
    from vmon.oracle import sfnt as OS, derived as D
    if data[:4] in (b"wOFF", b"wOF2", b"ttcf"):
        return None
    p = OS.validate_sfnt(data)
    if p.problems or b"glyf" not in p.tables or b"loca" not in p.tables:
        return None
    T = dict(p.tables)
    try:
        head, maxp = D.read_head(T[b"head"]), D.read_maxp(T[b"maxp"])
        loca = D.read_loca(T[b"loca"], head["indexToLocFormat"], maxp["numGlyphs"])
    except (D.Bad, KeyError):
        return None
    glyf = bytearray(T[b"glyf"])
    cands = [loca[g] for g in range(len(loca) - 1)
             if loca[g + 1] - loca[g] >= 10 and loca[g + 1] <= len(glyf) and struct.unpack_from(">h", glyf, loca[g])[0] != 0]
    if not cands:
        return None
    hit = [a for a in cands if rnd.random() < 0.6] or [rnd.choice(cands)]
    for a in hit:
        struct.pack_into(">hhhh", glyf, a + 2, *rnd.choice([(-900, -900, 40, 40), (0, 0, 0, 0), (7, 7, 8, 8), (-1, -2, 3000, 4000)]))
    T[b"glyf"] = bytes(glyf)
    h = bytearray(T[b"head"])
    struct.pack_into(">hhhh", h, 36, 1, 2, 3, 4)
    struct.pack_into(">H", h, 16, struct.unpack_from(">H", h, 16)[0] ^ 2)
    T[b"head"] = bytes(h)
    if maxp["version"] == 0x00010000:
        m = bytearray(T[b"maxp"])
        for idx in (0, 1, 2, 3, 11, 12):
            struct.pack_into(">H", m, 6 + 2 * idx, rnd.choice([0, 1, 77]))
        T[b"maxp"] = bytes(m)
    for hea in (b"hhea", b"vhea"):
        if hea in T and len(T[hea]) == 36:
            x = bytearray(T[hea])
            struct.pack_into(">Hhhh", x, 10, *[rnd.choice([0, 5, 1234]) for _ in range(4)])
            T[hea] = bytes(x)
    out, adj = OS.build_sfnt(p.version, [(t, T[t]) for t in p.order])
    q = OS.validate_sfnt(out)
    off = next(e["offset"] for e in q.entries if e["tag"] == b"head")
    out = out[:off + 8] + struct.pack(">I", adj) + out[off + 12:]
    return out


def drv_stale(case, rnd, ctx, S):
    """A font whose binary carries wrong derived fields is opened lazily, some subset of its
    tables is touched, and it is saved with recalcBBoxes=True: whatever the library then
    compiles must come out right (the monitor demands exactly the loaded tables)."""
    from fontTools.ttLib import TTFont
    if case["src"] == "gen":
        with ctx.lib("save", op_detail="stale-source"):
            data = corpus.save_bytes(_load_font(case, rnd, ctx))
    else:
        with ctx.lib("load"):
            data = corpus.font_bytes(case["path"], case.get("member"))
    del S["captures"][:]
    bad = _stale_binary(data, rnd)
    if bad is None:
        ctx.skip("no plain sfnt with glyph descriptions to corrupt")
        return
    fid = short_hash(case["id"])[:8]
    present = None
    picks = [0] + (list(range(1, 6)) if case["variants"] >= 6 else rnd.sample(range(1, 6), max(0, case["variants"] - 1)))
    for v in picks:
        lazy = rnd.choice([None, True])
        with ctx.lib("load"):
            font = TTFont(io.BytesIO(bad), lazy=lazy, recalcTimestamp=False)       # recalcBBoxes=True is the default
        present = [t for t in DERIVED_TABLES if t in font]
        touch = {0: ["glyf"], 1: present, 2: ["glyf", "maxp", "head"], 3: [], 5: ["hhea", "hmtx", "glyf"]}.get(v)
        if touch is None:
            touch = [t for t in present if rnd.random() < 0.5]
        try:
            for t in touch:
                if t in font:
                    font[t]
            if v == 2:
                order = font.getGlyphOrder()
                font["glyf"][order[rnd.randrange(len(order))]]              # expands exactly one glyph
        except Exception as e:
            ctx.skip("corrupted font does not decompile: %s" % type(e).__name__)
            font.close()
            continue
        flavors = list(FLAVORS)
        rnd.shuffle(flavors)
        caps = {}
        for flavor in (flavors if (v == 0 or case["variants"] >= 6) else flavors[:1]):
            font.flavor = flavor
            ncap = len(S["captures"])
            with ctx.lib("save", flavor=str(flavor), op_detail="stale-binary"):
                font.save(io.BytesIO(), reorderTables=rnd.choice([True, False, None]))
            if len(S["captures"]) > ncap:
                caps[flavor] = S["captures"][-1]
                S["keys"].add("stale/%s/%d/%s/%s" % (fid, v, flavor, lazy))
        if len(caps) == 3:
            _compare_group(ctx, S, caps, case["id"])
        del S["captures"][:]
        font.close()


def drv_tables(case, rnd, ctx, S):
    """Fonts that are nothing but n opaque tables: pure container arithmetic."""
    from fontTools.ttLib import TTFont, TTLibError
    from fontTools.ttLib.tables.DefaultTable import DefaultTable
    n = case["n"]
    font = TTFont(recalcTimestamp=False)
    font.sfntVersion = rnd.choice(["\x00\x01\x00\x00", "OTTO", "true"])
    pool = ["AAAA", "Zapf", "a0  ", "zzzz", "B   ", "OS/2", "b~~~", "cvt ", "!!!!", "~~~~", "mEtA"]
    tags = set()
    while len(tags) < n:
        tags.add(rnd.choice(pool) if rnd.random() < 0.3 else "".join(rnd.choice("ABCXYZabcxyz019 ") for _ in range(4)).rstrip().ljust(4) or "q   ")
    tags = {t for t in tags if t.strip() and not t.startswith(" ")}
    while len(tags) < n:
        tags.add("t%03d" % len(tags))
    for i, t in enumerate(sorted(tags, key=lambda _: rnd.random())):
        tb = DefaultTable(t)
        ln = rnd.choice([0, 1, 2, 3, 4, 5, 7, 8, 9, 31, 32, 33, 100, 4095, 4096, 4097]) if rnd.random() < 0.8 else rnd.randrange(0, 20000)
        tb.data = bytes(rnd.getrandbits(8) for _ in range(ln)) if rnd.random() < 0.7 else b"\xff" * ln
        font.tables[t] = tb    # DefaultTable for unknown tags; known tags stay raw because they are never decompiled
    for reorder in (True, None):
        for flavor in (None, "woff"):
            font.flavor = flavor
            font.flavorData = None
            _flavor_data(font, flavor, rnd.choice(["plain", "meta", "priv", "meta+priv"]), rnd)
            with ctx.lib("save"):
                font.save(io.BytesIO(), reorderTables=reorder)
            S["keys"].add("tables/%d/%s/%s" % (n, flavor, reorder))
    if S["captures"]:
        caps = {c[0]["flavor"]: c for c in S["captures"][-2:]}
        _compare_group(ctx, S, caps, case["id"])
    # woff2 requires a head table: documented rejection
    font.flavor = "woff2"
    try:
        with ctx.lib("save", expected=(TTLibError,), skip_reason="woff2 without head table"):
            font.save(io.BytesIO())
    except LibRaised:
        pass


# ---------------------------------------------------------------------------- collections
_TTC_POOL = ["ttLib/data/TestTTF-Regular.ttx", "ttLib/data/TestOTF-Regular.otx", "subset/data/TestTTF-Regular.ttx"]


def _small_fonts():
    recs = [r for r in corpus.fonts("bin") if r["ext"] in ("ttf", "otf") and r["size"] < 40000 and r["head"]]
    return sorted(r["path"] for r in recs)


def _perm_font(order, advances, rnd_shapes, padding=4, extra=None):
    """The same glyphs and metrics under a given glyph order (hmtx = permuted 4-byte
    records; with glyf.padding=4 the glyf table is a permutation of aligned words too)."""
    gl = {}
    for n in order:
        gl[n] = _empty() if rnd_shapes[n] is None else _simple([rnd_shapes[n]])
    font = _build(gl, {n: advances[n] for n in order})
    font["glyf"].padding = padding
    for tag, data in (extra or {}).items():
        from fontTools.ttLib.tables.DefaultTable import DefaultTable
        t = DefaultTable(tag)
        t.data = data
        font[tag] = t
    return font


def _colliding_collection(i, rnd):
    """Collections whose members carry same-tag tables of equal length and equal uint32
    word sum (the sfnt checksum) but different content: permuted glyph order, two aligned
    words swapped, and (w0+1, w1-1) pairs."""
    from fontTools.ttLib import TTCollection, newTable
    names = [".notdef", "A", "B", "C", "D", "E"][:rnd.choice([4, 5, 6])]
    shapes = {n: (None if (k == 0 and rnd.random() < 0.5) else _box(10 * k, -5 * k, 100 + 37 * k, 200 + 11 * k))
              for k, n in enumerate(names)}
    adv = {n: (500 + 100 * k + rnd.randrange(50), 10 * k + rnd.randrange(9)) for k, n in enumerate(names)}
    kind = i % 4
    words = [rnd.getrandbits(32) for _ in range(rnd.choice([2, 3, 8, 33]))]
    blob = lambda ws, tail=b"": b"".join(struct.pack(">I", w & 0xFFFFFFFF) for w in ws) + tail
    tail = bytes(rnd.getrandbits(8) for _ in range(rnd.choice([0, 1, 2, 3])))
    fonts = []
    if kind in (0, 1):
        # same glyphs, permuted glyph order (2-3 members)
        orders = [list(names)]
        for _ in range(rnd.choice([1, 2])):
            o = names[1:]
            while [names[0]] + o in orders:
                rnd.shuffle(o)
            orders.append([names[0]] + o)
        fonts = [_perm_font(o, adv, shapes, padding=rnd.choice([4, 4, 2])) for o in orders]
    else:
        a, b = rnd.sample(range(len(words)), 2)
        sw = list(words)
        sw[a], sw[b] = sw[b], sw[a]
        pm = list(words)
        pm[a], pm[b] = pm[a] + 1, pm[b] - 1
        for k, ws in enumerate((words, sw, pm)):
            f = _perm_font(names, adv, shapes, extra={"zzzz": blob(ws, tail), "zzzy": blob(ws[::-1] if k == 1 else ws)})
            cvt = newTable("cvt ")
            import array
            vals = [((w >> 16) & 0x7FFF) - 0x4000 for w in words] + [(w & 0x7FFF) - 0x4000 for w in words]
            if k:   # swap two aligned int16 pairs
                vals[0:2], vals[2:4] = vals[2:4], vals[0:2]
            cvt.values = array.array("h", vals)
            f["cvt "] = cvt
            fonts.append(f)
        if kind == 3:
            fonts = fonts[:2]
    if kind in (1, 3):
        # members read back from binary: their tables reach the collection raw, through the reader
        fonts = [corpus.open_bytes(corpus.save_bytes(f)) for f in fonts]
    coll = TTCollection()
    coll.fonts.extend(fonts)
    return coll


def drv_ttc(case, rnd, ctx, S):
    from fontTools.ttLib import TTFont, TTCollection, newTable
    scratch = os.environ.get("VMON_SCRATCH") or "/tmp"
    if case["src"] == "corpus":
        variants = []
        for lazy in (None, True):
            with ctx.lib("load-ttc"):
                coll = TTCollection(corpus.abspath(case["path"]), lazy=lazy, recalcTimestamp=False)
            variants.append(("corpus-lazy%s" % lazy, coll))
    elif case["src"] == "collide":
        variants = [("collide", _colliding_collection(case["index"], rnd))]
    else:
        pool = _small_fonts()
        i = case["index"]
        nmem = rnd.choice([1, 2, 2, 3, 4])
        coll = TTCollection()
        picks = [rnd.choice(pool) for _ in range(nmem)]
        if i % 3 == 0 and nmem > 1:
            picks[1] = picks[0]                      # identical members: everything can be shared
        for j, rel in enumerate(picks):
            f = corpus.open_bytes(corpus.font_bytes(rel))
            if j and i % 2:
                # same tables except one: only that table may differ in the collection
                t = newTable("zzzz")
                t.data = b"member-%d" % j
                f["zzzz"] = t
                if "name" in f and j == 2:
                    f["name"].setName("Member %d" % j, 1, 3, 1, 0x409)
            if i % 4 == 1 and "head" in f:
                f["head"]           # loaded: compiled on save
                f["maxp"]
            coll.fonts.append(f)
        if i % 5 == 2:
            coll.dsig = None                          # version 2 header, no DSIG
        if i % 5 == 3:
            from fontTools.ttLib.tables.D_S_I_G_ import table_D_S_I_G_
            coll.dsig = table_D_S_I_G_("DSIG")
            coll.dsig.data = b"\0\0\0\1\0\0\0\0" + b"x" * rnd.choice([0, 1, 2, 3])
        variants = [("built", coll)]
    for vname, coll in variants:
        for share in (True, False):
            for dest_kind in ("stream", "path"):
                if dest_kind == "path":
                    dest = os.path.join(scratch, "c-%s-%s.ttc" % (vname, share))
                else:
                    dest = io.BytesIO()
                    if rnd.random() < 0.3:
                        pass
                ncap = len(S["captures"])
                loaded_before = [{t for t in font.keys() if font.isLoaded(t)} for font in coll.fonts]
                with ctx.lib("save-ttc", share=str(share)):
                    coll.save(dest, shareTables=share)
                if len(S["captures"]) == ncap:
                    continue
                st, p, size = S["captures"][-1]
                S["keys"].add("ttc/%s/%s/%s/%s" % (short_hash(case["id"])[:8], vname, share, dest_kind))
                # members against standalone saves of the same TTFont objects
                for mi, (font, mp) in enumerate(zip(coll.fonts, p.members)):
                    saved_flavor = font.flavor
                    font.flavor = None
                    with ctx.lib("save", op_detail="ttc-member-standalone"):
                        font.save(io.BytesIO(), reorderTables=None)
                    font.flavor = saved_flavor
                    solo = S["captures"][-1]
                    # a table that the collection save itself decompiled as a side effect (head.compile reads CFF2
                    # for the font box) went into the collection as the original bytes but is re-encoded by the
                    # standalone save: same content, legitimately different bytes -> not a member/standalone difference
                    side = {t for t in font.keys() if font.isLoaded(t)} - loaded_before[mi]
                    S["n"] += _tables_equal(ctx, S, (st, mp, 0), solo, "ttc-member/standalone",
                                            "member %d of the collection (shareTables=%s)" % (mi, share), "the same font saved alone",
                                            skip={t.encode("latin-1") for t in side})
                    loaded_before[mi] |= side
                del S["captures"][:]
        for f in coll.fonts:
            f.close()


# ---------------------------------------------------------------------------- foreign workloads
def _pick(kind_pred, i, n=1):
    recs = [r for r in corpus.fonts() if kind_pred(r)]
    recs.sort(key=lambda r: r["path"])
    if not recs:
        raise RuntimeError("no corpus font matches the workload predicate")
    return [recs[(i * 7 + j * 3) % len(recs)] for j in range(n)]


def drv_workload(case, rnd, ctx, S):
    what, _, idx = case["what"].partition(":")
    i = int(idx)
    scratch = os.environ.get("VMON_SCRATCH") or "/tmp"
    S["keys"].add("workload/%s/%d" % (what, i))
    if what == "subset":
        from fontTools import subset
        rec = _pick(lambda r: r["kind"] == "bin" and r["ext"] in ("ttf", "otf", "woff", "woff2") and r["ncmap"] > 3
                    and r["complete"] and r["size"] < 400000 and "Silf" not in r["tables"], i)[0]
        flavor = [None, "woff", "woff2"][i % 3]
        out = os.path.join(scratch, "subset-%d.bin" % i)
        args = [corpus.abspath(rec["path"]), "--output-file=" + out,
                "--unicodes=" + ["*", "U+0020-007E", "U+0041,U+0061,U+00C0-00FF"][i % 3],
                "--notdef-outline", "--no-recalc-timestamp"] + (["--flavor=" + flavor] if flavor else []) \
            + (["--no-recalc-bounds"] if i % 4 == 3 else ["--recalc-bounds"]) + (["--desubroutinize"] if i % 2 else [])
        ctx.sample = {"workload": "subset", "font": rec["path"], "args": args[1:]}
        try:
            with ctx.lib("subset", expected=(subset.Subsetter.SubsettingError,)):
                subset.main(args)
        except SystemExit:
            ctx.skip("subset exited")
    elif what == "woff2compress":
        from fontTools.ttLib import woff2
        rec = _pick(lambda r: r["kind"] == "bin" and r["ext"] in ("ttf", "otf") and r["head"] and r["size"] < 400000
                    and "Silf" not in r["tables"], i)[0]
        a, b = os.path.join(scratch, "w2-%d.woff2" % i), os.path.join(scratch, "w2-%d.ttf" % i)
        ctx.sample = {"workload": "woff2.compress/decompress", "font": rec["path"]}
        with ctx.lib("woff2.compress"):
            woff2.compress(corpus.abspath(rec["path"]), a)
        with ctx.lib("woff2.decompress"):
            woff2.decompress(a, b)
    elif what == "ttx":
        from fontTools import ttx
        rec = _pick(lambda r: r["kind"] == "ttx" and r["head"] and r["complete"] and r["size"] < 300000, i)[0]
        out = os.path.join(scratch, "ttx-%d.bin" % i)
        flavor = [[], ["--flavor", "woff"], ["--flavor", "woff2"]][i % 3]
        ctx.sample = {"workload": "ttx compile", "font": rec["path"], "flavor": flavor}
        try:
            with ctx.lib("ttx"):
                ttx.main(["-q", "-o", out, "--no-recalc-timestamp"] + flavor + [corpus.abspath(rec["path"])])
        except SystemExit:
            ctx.skip("ttx exited (compile failure is C03's business)")
    elif what == "instancer":
        from fontTools.varLib import instancer
        from fontTools.ttLib import TTFont
        rec = _pick(lambda r: r["variable"] and r["kind"] == "bin" and r["head"] and r["complete"]
                    and r["size"] < 600000, i)[0]
        ctx.sample = {"workload": "instancer", "font": rec["path"]}
        with ctx.lib("load"):
            vf = TTFont(corpus.abspath(rec["path"]), recalcTimestamp=False)
        axes = rec["axes"]
        loc = {}
        for j, (tag, lo, df, hi) in enumerate(axes):
            if i % 2 == 0 or j == 0:
                loc[tag] = [lo, hi, df, (lo + hi) / 2][(i + j) % 4]
        with ctx.lib("instancer"):
            inst = instancer.instantiateVariableFont(vf, loc, inplace=False)
        inst.flavor = [None, "woff2", "woff"][i % 3]
        with ctx.lib("save"):
            inst.save(os.path.join(scratch, "inst-%d.bin" % i))
    elif what == "merge":
        from fontTools import merge
        pairs = [("ttx/data/TestTTF.ttf", "ttLib/data/Test-Regular.ttf"), ("voltLib/data/Nutso.ttf", "ttx/data/TestTTF.ttf"),
                 ("ttx/data/TestTTF.ttf", "ttx/data/TestTTF.ttf"), ("voltLib/data/Empty.ttf", "ttLib/data/issue2824.ttf")]
        a, b = pairs[i % len(pairs)]
        ctx.sample = {"workload": "merge", "fonts": [a, b]}
        try:
            with ctx.lib("merge", expected=(Exception,), skip_reason="merge rejected the pair"):
                m = merge.Merger().merge([corpus.abspath(a), corpus.abspath(b)])
        except LibRaised:
            return
        m.flavor = [None, "woff", "woff2"][i % 3]
        with ctx.lib("save"):
            m.save(os.path.join(scratch, "merged-%d.bin" % i))
    elif what == "varlib":
        from fontTools import varLib
        ds = ["BuildAvarSingleAxis", "SparseMasters", "TestVVAR", "SparseCFF2", "DropOnCurves"][i % 5]
        path = os.path.join(env.TESTS, "varLib", "data", ds + ".designspace")
        ctx.sample = {"workload": "varLib.build", "designspace": ds}
        if not os.path.exists(path):
            ctx.skip("designspace missing")
            return
        root = os.path.join(env.TESTS, "varLib", "data")

        def finder(name):
            base = os.path.splitext(os.path.basename(name))[0]
            for sub in sorted(os.listdir(root)):
                cand = os.path.join(root, sub, base + ".ttx")
                if sub.startswith("master_") and os.path.exists(cand):
                    return cand
            return name
        try:
            with ctx.lib("varLib.build", expected=(Exception,), skip_reason="varLib.build setup failed"):
                vf, _, _ = varLib.build(path, finder)
        except LibRaised:
            return
        for flavor in (None, "woff2"):
            vf.flavor = flavor
            with ctx.lib("save"):
                vf.save(io.BytesIO())


DRIVERS = {"font": drv_font, "tables": drv_tables, "ttc": drv_ttc, "workload": drv_workload, "stale": drv_stale}
