"""Generated variable fonts with several overlapping FeatureVariationRecords (C07).

`program(rnd)` draws 1-2 axes, a handful of features (rvrn, rclt, stylistic sets, liga, calt)
with default rules, 2-4 condition sets whose axis ranges overlap, and `variation` blocks that
substitute mostly ONE feature per condition set -- so that dropping a feature (layout_features)
or the glyphs its alternate lookups produce empties a leading or middle record while later
records survive.  `cells` lists user-space locations in every cell of the grid spanned by the
range boundaries (plus the boundaries themselves), so that every overlap region is shaped.
`build(prog)` compiles it with fontBuilder + feaLib (`conditionset` / `variation`).
Only the base glyphs are encoded (U+F0000 + glyph id).
"""
import io
import itertools

PUA = 0xF0000
AXES = [("wght", 100, 400, 900, "Weight"), ("wdth", 50, 100, 200, "Width")]
TAGS = ["rvrn", "rclt", "ss01", "ss02", "ss03", "liga", "calt"]


def program(rnd):
    n = rnd.randint(5, 8)
    bases = ["b%d" % i for i in range(n)]
    glyphs = [".notdef"] + list(bases)

    def need(name):
        if name not in glyphs:
            glyphs.append(name)
        return name

    axes = [AXES[0]] if rnd.random() < 0.6 else list(AXES)
    tags = rnd.sample(TAGS, rnd.randint(2, 4))
    lines = ["languagesystem DFLT dflt;"]
    if rnd.random() < 0.4:
        lines.append("languagesystem latn dflt;")
    for t in tags:
        x = rnd.choice(bases)
        if rnd.random() < 0.5:
            lines.append("feature %s { sub %s by %s; } %s;" % (t, x, need(x + ".d"), t))
        elif t in ("liga", "calt") and rnd.random() < 0.6:
            y = rnd.choice(bases)
            lines.append("feature %s { sub %s %s by %s; } %s;" % (t, x, y, need("%s_%s" % (x, y)), t))
        else:
            lines.append("feature %s { sub %s by %s; } %s;" % (t, x, x, t))
    bounds = {a[0]: {a[1], a[3]} for a in axes}
    ncs = rnd.randint(2, 4)
    cs_names = []
    for k in range(ncs):
        name = "cs%d" % k
        parts = []
        used = rnd.sample(axes, rnd.randint(1, len(axes)))
        for tag, lo, dflt, hi, _n in used:
            pts = sorted(rnd.sample(range(lo, hi + 1, (hi - lo) // 8), 2))
            a, b = pts
            if rnd.random() < 0.4:
                b = hi
            if rnd.random() < 0.2:
                a = lo
            parts.append("%s %d %d;" % (tag, a, b))
            bounds[tag].update((a, b))
        lines.append("conditionset %s { %s } %s;" % (name, " ".join(parts), name))
        cs_names.append(name)
    blocks = 0
    for k, cs in enumerate(cs_names):
        for t in rnd.sample(tags, 1 if rnd.random() < 0.75 else 2):
            x = rnd.choice(bases)
            lines.append("variation %s %s { sub %s by %s; } %s;" % (t, cs, x, need("%s.v%d" % (x, blocks)), t))
            blocks += 1
    cells = []
    per_axis = []
    for tag, lo, dflt, hi, _n in axes:
        bs = sorted(bounds[tag])
        pts = set(bs)
        for a, b in zip(bs, bs[1:]):
            pts.add((a + b) / 2.0)
        per_axis.append([(tag, p) for p in sorted(pts)])
    for combo in itertools.product(*per_axis):
        cells.append(dict(combo))
    return {"glyphs": glyphs, "n_bases": n, "fea": "\n".join(lines) + "\n", "axes": axes, "tags": tags,
            "condition_sets": ncs, "cells": cells}


def build(prog):
    from fontTools.fontBuilder import FontBuilder
    from fontTools.pens.ttGlyphPen import TTGlyphPen

    order = prog["glyphs"]
    fb = FontBuilder(1000, isTTF=True)
    fb.setupGlyphOrder(order)
    fb.setupCharacterMap({PUA + i: g for i, g in enumerate(order) if i <= prog["n_bases"]})
    glyphs = {}
    for i, g in enumerate(order):
        pen = TTGlyphPen(None)
        w, h = 80 + 9 * i, 150 + 13 * (i % 11)
        pen.moveTo((20, 0))
        pen.lineTo((20, h))
        pen.lineTo((20 + w, h - 10 - i % 7))
        pen.lineTo((20 + w, 0))
        pen.closePath()
        glyphs[g] = pen.glyph()
    fb.setupGlyf(glyphs)
    fb.setupHorizontalMetrics({g: (280 + 11 * i, 20) for i, g in enumerate(order)})
    fb.setupHorizontalHeader(ascent=800, descent=-200)
    fb.setupNameTable({"familyName": "FVarsGen", "styleName": "Regular"})
    fb.setupOS2()
    fb.setupPost()
    fb.setupFvar(axes=list(prog["axes"]), instances=[])
    fb.setupGvar({g: [] for g in order})
    fb.addOpenTypeFeatures(prog["fea"])
    b = io.BytesIO()
    fb.save(b)
    return b.getvalue()
