"""Generated input families for the C18 (merge) check.

`family(rnd, ...)` draws a list of 2-4 font *specifications* with equal units-per-em and one
outline flavour: each font has its own alphabet of private-use code points (disjoint, or
overlapping with identical / deliberately different duplicate glyphs), glyph names that
are unique per font or clash across fonts, distinct .notdef outlines, optional composites
(TrueType), and optional GSUB/GPOS/GDEF compiled from generated feature code (ligature,
kerning, stylistic single substitution, chained contextual substitution, mark attachment) under a
random set of language systems.  `build(spec)` turns one specification into font bytes with
fontBuilder + feaLib.  Every outline is a distinct polygon so that a wrong glyph is always visible.
"""
import io

BASE_CP = 0xF1000


def _shape(uid, upem):
    """A distinct simple polygon for every uid (notched rectangle)."""
    s = upem / 1000.0
    w = int((120 + 11 * (uid % 37) + 3 * (uid // 37)) * s)
    h = int((300 + 7 * (uid % 53)) * s)
    x0 = int((20 + (uid % 5) * 6) * s)
    y0 = int(((uid % 3) * 10) * s)
    notch = int((20 + uid % 17) * s)
    return [(x0, y0), (x0, y0 + h), (x0 + w // 2, y0 + h - notch), (x0 + w, y0 + h), (x0 + w, y0)]


def family(rnd, overlap=None, flavour=None, layout=True):
    upem = rnd.choice([1000, 1000, 2048, 1024])
    base = rnd.choice([BASE_CP, BASE_CP, 0xE100])     # supplementary-plane or BMP private use (format 12 + 4, or format 4 only)
    ttf = flavour == "ttf" if flavour else rnd.random() < 0.6
    k = rnd.choice([2, 2, 3, 3, 4])
    overlap = rnd.choice(["disjoint", "disjoint", "identical", "different", "mixed"]) if overlap is None else overlap
    clash = rnd.random() < 0.6            # same glyph names in several fonts
    gdef_all = rnd.random() < 0.7
    gdef_family = rnd.random() < 0.6
    mixed_fmt = base == 0xE100 and rnd.random() < 0.65   # BMP alphabets; some fonts add one supplementary character
    suffix = clash and rnd.random() < 0.5  # some glyph names already look like the merger's own "X.N" renames
    req_family = layout and rnd.random() < 0.35   # fonts may carry a script of their own with a REQUIRED feature
    fonts = []
    shared = []                            # (cp, uid, advance, name) shared code points
    nshared = 0 if overlap == "disjoint" else rnd.randint(1, 4)
    for j in range(nshared):
        shared.append((base + 0x800 + j, 9000 + j, 300 + 37 * j, "sh%d" % j))
    uid = 0
    for i in range(k):
        n = rnd.randint(4, 10)
        prefix = "g" if clash else "f%dg" % i
        glyphs = []                        # dicts: name, cp, uid, adv, kind
        glyphs.append({"name": ".notdef", "cp": None, "uid": 5000 + i * 7 + rnd.randint(0, 3), "adv": 500 + 10 * i, "kind": "simple"})
        used = {".notdef"}
        for j in range(n):
            uid += 1
            name = "%s%d" % (prefix, j)
            if suffix and j and rnd.random() < 0.45:
                cand = "%s%d.%d" % (prefix, rnd.randrange(n), rnd.choice([1, 1, 2]))
                if cand not in used:
                    name = cand
            if name in used:
                name = "%s%dx" % (prefix, j)
            used.add(name)
            glyphs.append({"name": name, "cp": base + 0x40 * i + j, "uid": uid,
                           "adv": 200 + 23 * (uid % 29), "kind": "simple"})
        if suffix and rnd.random() < 0.3:
            uid += 1
            glyphs.append({"name": ".notdef.1", "cp": base + 0x40 * i + 0x31, "uid": uid, "adv": 333, "kind": "simple"})
        if shared and (i < 2 or rnd.random() < 0.6):
            for cp, suid, adv, name in shared:
                if overlap == "identical" or (overlap == "mixed" and suid % 2 == 0):
                    g = {"name": name if clash else "f%d%s" % (i, name), "cp": cp, "uid": suid, "adv": adv, "kind": "simple"}
                else:
                    uid += 1
                    g = {"name": name if clash else "f%d%s" % (i, name), "cp": cp, "uid": uid, "adv": adv + 50 * (i + 1), "kind": "simple"}
                glyphs.append(g)
        mapped = [g["name"] for g in glyphs if g["cp"] is not None and not g["name"].startswith(("sh", "f%dsh" % i))]
        spec = {"index": i, "ttf": ttf, "upem": upem, "glyphs": glyphs, "fea": None, "scripts": [], "tags": [],
                "subr": None if ttf else rnd.choice([None, "global", "global", "local", "both"])}
        if layout and rnd.random() < 0.8:
            own = ["grek", "cyrl", "armn", "geor"][i] if (req_family and rnd.random() < 0.7) else None
            _layout(rnd, spec, mapped, prefix, ["DFLT", "latn"] if req_family else None, gdef_all if gdef_family else rnd.random() < 0.5, own)
            # unmapped glyphs created by the layout code get ids too
        for g in glyphs:
            if g["uid"] is None:
                uid += 1
                g["uid"] = uid
                g["adv"] = 180 + 19 * (uid % 31)
        if ttf and rnd.random() < 0.6 and len(mapped) >= 2:
            uid += 1
            glyphs.append({"name": "%scomp" % prefix, "cp": base + 0x40 * i + 0x30, "uid": uid, "adv": 640,
                           "kind": "composite", "parts": [(mapped[0], 0, 0), (mapped[1], 300, 40)]})
            if rnd.random() < 0.6 and len(mapped) >= 3:
                # composite of a composite, scaled
                uid += 1
                glyphs.append({"name": "%scomp2" % prefix, "cp": base + 0x40 * i + 0x32, "uid": uid, "adv": 700,
                               "kind": "composite", "parts": [("%scomp" % prefix, 40, 10, 0.75), (mapped[2], 420, 0)]})
        if mixed_fmt and rnd.random() < 0.5:
            # this font alone needs a format-12 subtable; the others stay format-4 only
            uid += 1
            glyphs.append({"name": "%sastral" % prefix, "cp": 0xF2000 + 0x40 * i, "uid": uid, "adv": 777, "kind": "simple"})
            spec["cmap12"] = True
        fonts.append(spec)
    return {"upem": upem, "ttf": ttf, "overlap": overlap, "clash": clash, "fonts": fonts}


def _layout(rnd, spec, mapped, prefix, pool, want_gdef, own=None):
    glyphs = spec["glyphs"]
    names = {g["name"] for g in glyphs}

    def new(name):
        if name not in names:
            names.add(name)
            glyphs.append({"name": name, "cp": None, "uid": None, "adv": None, "kind": "simple"})
        return name

    pool = pool or ["DFLT", "latn", "grek", "cyrl"]
    scripts = rnd.sample(pool, rnd.randint(1, min(3, len(pool))))
    if rnd.random() < 0.6 and "DFLT" not in scripts:
        scripts.insert(0, "DFLT")
    if own:
        scripts.append(own)
    scripts.sort(key=lambda s: (s != "DFLT", s))
    lines = ["languagesystem %s dflt;" % s for s in scripts]
    langs = {}
    lang_rules = []      # (script, LANG, "" | " exclude_dflt")
    for sc, lgs in (("latn", ["TRK", "ROM"]), ("cyrl", ["SRB"]), ("grek", ["PGR"])):
        if sc in scripts and sc != own:
            for lg in lgs:
                if rnd.random() < 0.4:
                    lines.append("languagesystem %s %s;" % (sc, lg))
                    langs.setdefault(sc, []).append(lg.ljust(4))
                    if rnd.random() < 0.8:
                        lang_rules.append((sc, lg, rnd.choice(["", " exclude_dflt"])))
    ext = lambda: " useExtension" if rnd.random() < 0.4 else ""
    tags = []
    if rnd.random() < 0.35:
        # left-over lookups no feature refers to, placed before the live ones
        o1 = mapped[0]
        if rnd.random() < 0.7:
            lines.append("lookup ORPHS { sub %s by %s; } ORPHS;" % (o1, new(o1 + ".orph")))
        if rnd.random() < 0.6:
            lines.append("lookup ORPHP { pos %s %s %d; } ORPHP;" % (o1, mapped[1], -rnd.randrange(5, 50)))
        spec["orphans"] = True
    a, b = mapped[0], mapped[1]
    c = mapped[2] if len(mapped) > 2 else mapped[0]
    d = mapped[3] if len(mapped) > 3 else mapped[1]
    marks = []
    if want_gdef and len(mapped) > 4 and rnd.random() < 0.7:
        marks = [mapped[-1]]
    bases = [m for m in mapped if m not in marks]
    if rnd.random() < 0.7:
        lig = new("%s_%s" % (a, b))
        lines.append("feature liga { sub %s %s by %s; } liga;" % (a, b, lig))
        tags.append("liga")
    if rnd.random() < 0.6:
        alt = new(a + ".alt")
        lines.append("feature ss01 { sub %s by %s; sub %s by %s; } ss01;" % (a, alt, d, new(d + ".alt")))
        tags.append("ss01")
    if rnd.random() < 0.6:
        alt = new(c + ".ctx")
        if rnd.random() < 0.5:
            lines.append("feature calt { sub %s' %s by %s; } calt;" % (c, b, alt))
        else:
            # explicit nested lookups, two records at one position, contextual lookup possibly stored as Extension
            alt2 = new(c + ".ctx2")
            lines.append("lookup NS1%s { sub %s by %s; } NS1;" % (ext(), c, alt))
            lines.append("lookup NS2%s { sub %s by %s; } NS2;" % (ext(), alt, alt2))
            lines.append("feature calt { lookup CT%s { sub %s' lookup NS1 lookup NS2 %s; } CT; } calt;" % (ext(), c, b))
        tags.append("calt")
    if rnd.random() < 0.4:
        lines.append("feature ccmp { sub %s by %s %s; } ccmp;" % (d, a, c))
        tags.append("ccmp")
    if rnd.random() < 0.75:
        pairs = ["pos %s %s %d;" % (rnd.choice(bases), rnd.choice(bases), rnd.choice([-1, 1]) * rnd.randrange(10, 120)) for _ in range(rnd.randint(1, 5))]
        if rnd.random() < 0.5:
            pairs.append("pos [%s %s] [%s %s] %d;" % (a, b, c, d, -rnd.randrange(5, 60)))
        body = "lookup KP%s { %s } KP;" % (ext(), " ".join(dict.fromkeys(pairs)))
        if rnd.random() < 0.6 and len(bases) > 2:
            lines.append("lookup PS1%s { pos %s <0 0 %d 0>; } PS1;" % (ext(), bases[1], rnd.randrange(20, 140)))
            lines.append("lookup PS2 { pos %s <%d 0 0 0>; } PS2;" % (bases[1], rnd.randrange(5, 40)))
            body += " lookup KC%s { pos %s %s' lookup PS1 lookup PS2 %s; } KC;" % (ext(), bases[0], bases[1], bases[2])
        for sc, lg, how in lang_rules:
            if rnd.random() < 0.5:
                body += " script %s; language %s%s; pos %s %s %d;" % (sc, lg, how, rnd.choice(bases), rnd.choice(bases), -rnd.randrange(20, 160))
        lines.append("feature kern { %s } kern;" % body)
        tags.append("kern")
    if lang_rules:
        body, cur = "", None
        for sc, lg, how in sorted(lang_rules):
            g = rnd.choice(bases)
            if cur != sc:
                body += " script %s;" % sc
                cur = sc
            body += " language %s%s; sub %s by %s;" % (lg, how, g, new("%s.%s" % (g, lg)))
        lines.append("feature locl {%s } locl;" % body)
        tags.append("locl")
    if rnd.random() < 0.3:
        lines.append("feature cpsp { pos %s <%d 0 %d 0>; } cpsp;" % (a, rnd.randrange(1, 30), rnd.randrange(2, 60)))
        tags.append("cpsp")
    if marks:
        m = marks[0]
        lines.append("markClass %s <anchor %d %d> @TOP;" % (m, rnd.randrange(0, 200), rnd.randrange(300, 600)))
        lines.append("feature mark { pos base %s <anchor %d %d> mark @TOP; pos base %s <anchor %d %d> mark @TOP; } mark;"
                     % (a, rnd.randrange(100, 300), rnd.randrange(600, 800), b, rnd.randrange(100, 300), rnd.randrange(600, 800)))
        tags.append("mark")
        if rnd.random() < 0.75:
            # GSUB and GPOS lookups with a mark filtering set (marks of the set are NOT skipped)
            p_, q_ = bases[-1], bases[-2]
            lines.append("feature rlig { lookup RL%s { lookupflag UseMarkFilteringSet [%s]; sub %s %s by %s; } RL; } rlig;"
                         % (ext(), m, p_, q_, new("%s_%s.r" % (p_, q_))))
            tags.append("rlig")
            if rnd.random() < 0.7:
                lines.append("feature dist { lookup DS%s { lookupflag UseMarkFilteringSet [%s]; pos %s %s %d; } DS; } dist;"
                             % (ext(), m, q_, p_, -rnd.randrange(15, 90)))
                tags.append("dist")
    if want_gdef:
        ligs = [g["name"] for g in glyphs if "_" in g["name"]]
        others = [g["name"] for g in glyphs if g["name"] not in marks and g["name"] not in ligs and g["name"] != ".notdef"]
        lines.append("table GDEF { GlyphClassDef [%s], [%s], [%s], ; } GDEF;" % (" ".join(others), " ".join(ligs), " ".join(marks)))
    if own and len(mapped) > 3:
        # a required feature of the font's own script: FeatureList index 0 ('abvs' sorts first) or a later one
        rtag = rnd.choice(["abvs", "abvs", "rlig", "ss05"])
        rl = new("%s_%s" % (c, d))
        lines.append("feature %s { script %s; language dflt required; sub %s %s by %s; } %s;" % (rtag, own, c, d, rl, rtag))
        tags.append(rtag)
        spec["required"] = (own, rtag)
    if not tags:
        return
    spec["fea"] = "\n".join(lines) + "\n"
    spec["scripts"] = scripts
    spec["langs"] = langs
    spec["tags"] = tags


def build(spec):
    """-> bytes of the font described by `spec` (fontBuilder + feaLib)."""
    from fontTools.fontBuilder import FontBuilder
    from fontTools.pens.t2CharStringPen import T2CharStringPen
    from fontTools.pens.ttGlyphPen import TTGlyphPen

    upem, ttf = spec["upem"], spec["ttf"]
    fb = FontBuilder(upem, isTTF=ttf)
    order = [g["name"] for g in spec["glyphs"]]
    fb.setupGlyphOrder(order)
    fb.setupCharacterMap({g["cp"]: g["name"] for g in spec["glyphs"] if g["cp"] is not None})
    adv = {g["name"]: int(g["adv"] * upem / 1000.0) for g in spec["glyphs"]}
    if ttf:
        built = {}
        for g in spec["glyphs"]:
            if g["kind"] != "simple":
                continue
            pen = TTGlyphPen(None)
            pts = _shape(g["uid"], upem)
            pen.moveTo(pts[0])
            for p in pts[1:]:
                pen.lineTo(p)
            pen.closePath()
            built[g["name"]] = pen.glyph()
        for g in spec["glyphs"]:
            if g["kind"] == "composite":
                pen = TTGlyphPen(built)
                for part in g["parts"]:
                    name, dx, dy = part[:3]
                    sc = part[3] if len(part) > 3 else 1
                    pen.addComponent(name, (sc, 0, 0, sc, int(dx * upem / 1000), int(dy * upem / 1000)))
                built[g["name"]] = pen.glyph()
        fb.setupGlyf(built)
        glyf = fb.font["glyf"]
        metrics = {n: (adv[n], glyf[n].xMin if hasattr(glyf[n], "xMin") else 0) for n in order}
    else:
        cs = {}
        for g in spec["glyphs"]:
            pen = T2CharStringPen(adv[g["name"]], None)
            pts = _shape(g["uid"], upem)
            pen.moveTo(pts[0])
            for p in pts[1:]:
                pen.lineTo(p)
            pen.closePath()
            cs[g["name"]] = pen.getCharString()
        nominal = 400 + 13 * spec["index"]
        fb.setupCFF("Gen%d-Regular" % spec["index"], {"FullName": "Gen %d" % spec["index"]}, cs,
                    {"defaultWidthX": adv[order[1]] if spec["index"] % 2 else 0, "nominalWidthX": nominal})
        metrics = {n: (adv[n], 0) for n in order}
    fb.setupHorizontalMetrics(metrics)
    fb.setupHorizontalHeader(ascent=int(0.8 * upem), descent=-int(0.2 * upem))
    fb.setupNameTable({"familyName": "Gen%d" % spec["index"], "styleName": "Regular"})
    fb.setupOS2(sTypoAscender=int(0.8 * upem), sTypoDescender=-int(0.2 * upem), usWinAscent=int(0.9 * upem), usWinDescent=int(0.25 * upem))
    fb.setupPost()
    if spec["fea"]:
        fb.addOpenTypeFeatures(spec["fea"])
    b = io.BytesIO()
    fb.save(b)
    data = b.getvalue()
    if not ttf and spec.get("subr"):
        data = subroutinise(data, spec["subr"])
    return data


def subroutinise(data, mode):
    """Move the drawing part of every charstring into a subroutine: `global` (GlobalSubrs only, no local Subrs),
    `local` (Private Subrs only) or `both` (alternating).  fontTools has no subroutiniser; done by hand: the
    operators after the first moveto form complete groups on an empty stack, so they can be called as a unit."""
    from fontTools.cffLib import SubrsIndex
    from fontTools.misc.psCharStrings import T2CharString
    from fontTools.ttLib import TTFont

    f = TTFont(io.BytesIO(data))
    cff = f["CFF "].cff
    td = cff.topDictIndex[0]
    cs = td.CharStrings
    gsubrs = cff.GlobalSubrs
    lsubrs = None
    if mode in ("local", "both"):
        lsubrs = td.Private.Subrs = SubrsIndex()
    for k, name in enumerate(f.getGlyphOrder()):
        c = cs[name]
        c.decompile()
        prog = list(c.program)
        pos = [i for i, t in enumerate(prog) if t in ("rmoveto", "hmoveto", "vmoveto")]
        if not pos or prog[-1] != "endchar":
            continue
        i = pos[0]
        body = prog[i + 1:-1]
        if not body:
            continue
        sub = T2CharString(program=body + ["return"])
        if mode == "global" or (mode == "both" and k % 2):
            gsubrs.append(sub)
            call = [len(gsubrs) - 1 - 107, "callgsubr"]
        else:
            lsubrs.append(sub)
            call = [len(lsubrs) - 1 - 107, "callsubr"]
        c.program = prog[:i + 1] + call + ["endchar"]
    b = io.BytesIO()
    f.save(b)
    return b.getvalue()
