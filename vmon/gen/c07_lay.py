"""Generated layout-rich (optionally variable) TrueType fonts for C07 (and, through `fea_parts`, C18).

A feature program drawn by `program(rnd)` combines input classes the corpus hardly has:

(a) contextual GSUB/GPOS rules with SEVERAL lookup records at the same sequence index, chained through
    1:1 substitutions (a -> a.1 -> a.2 [-> a.3]); the later glyphs are reachable only through the chain;
(b) language systems that extend the default's features (per-language `locl`, language-specific
    kerning after the default rules) or exclude them (`exclude_dflt`);
(c) variable anchors / value records that vary in one coordinate only, in both, or not at all
    (`(wght=400:120 wght=900:180)`), plus anchors and values with hinting Device tables on one coordinate;
(d) `useExtension` on lookups of every type, including contextual lookups with nested lookups;
(e) mark filtering sets and mark attachment classes in GSUB and GPOS lookups.

Only bases and marks are encoded (U+F0000 + glyph id); every glyph has its own outline and advance.
"""
import io

PUA = 0xF0000
LANGS = {"latn": ["TRK", "ROM", "NLD"], "cyrl": ["SRB"], "grek": []}


def _ext(rnd):
    return " useExtension" if rnd.random() < 0.45 else ""


def _var(rnd, lo, hi, variable):
    """A scalar or a variable scalar (default master at wght=400)."""
    v = rnd.randrange(lo, hi)
    if variable and rnd.random() < 0.5:
        return "(wght=400:%d wght=900:%d)" % (v, v + rnd.choice([-1, 1]) * rnd.randrange(15, 90))
    return str(v)


def _anchor(rnd, x, y, variable, devices=True):
    # vary x only / y only / both / neither
    mode = rnd.choice(["x", "y", "xy", "none"]) if variable else "none"
    xs = _var(rnd, x, x + 60, mode in ("x", "xy")) if mode in ("x", "xy") else str(rnd.randrange(x, x + 60))
    ys = _var(rnd, y, y + 60, mode in ("y", "xy")) if mode in ("y", "xy") else str(rnd.randrange(y, y + 60))
    if mode == "none" and devices and rnd.random() < 0.3:
        d = rnd.choice(["<device 11 1, 12 -1> <device NULL>", "<device NULL> <device 12 1>", "<device 11 -1> <device 14 2>"])
        return "<anchor %s %s %s>" % (xs, ys, d)
    return "<anchor %s %s>" % (xs, ys)


def fea_parts(rnd, bases, marks_top, marks_bot, need, variable, scripts):
    """-> (lines, tags): named lookups + features over the given glyph names.  `need(name)` registers a derived glyph."""
    lines, tags = [], []
    all_marks = marks_top + marks_bot
    # ---- (a) 1:1 chains applied through several lookup records at one position
    x, y, z = rnd.sample(bases, 3)
    depth = rnd.choice([2, 2, 3])
    chain = [x] + [need("%s.%d" % (x, k + 1)) for k in range(depth)]
    for k in range(depth):
        extra = ""
        if rnd.random() < 0.4:
            extra = " sub %s by %s;" % (z, need(z + ".c%d" % k))
        lines.append("lookup C%d%s { sub %s by %s;%s } C%d;" % (k, _ext(rnd), chain[k], chain[k + 1], extra, k))
    recs = " ".join("lookup C%d" % k for k in range(depth))
    t = rnd.choice(["calt", "rclt", "ss01", "clig"])
    form = rnd.random()
    if form < 0.4:
        rule = "sub %s' %s %s;" % (x, recs, y)
    elif form < 0.7:
        rule = "sub %s %s' %s;" % (y, x, recs)
    else:
        rule = "sub [%s %s]' %s %s';" % (x, z, recs, y)
    lines.append("feature %s { lookup CTX%s { %s } CTX; } %s;" % (t, _ext(rnd), rule, t))
    tags.append(t)
    # a second, two-position rule: records at index 0 and 1, the second position again chained
    if rnd.random() < 0.6:
        p, q = rnd.sample(bases, 2)
        lines.append("lookup D0%s { sub %s by %s; } D0;" % (_ext(rnd), q, need(q + ".d1")))
        lines.append("lookup D1 { sub %s by %s; } D1;" % (q + ".d1", need(q + ".d2")))
        lines.append("lookup D2 { sub %s by %s; } D2;" % (p, need(p + ".d")))
        lines.append("feature ss02 { sub %s' lookup D2 %s' lookup D0 lookup D1; } ss02;" % (p, q))
        tags.append("ss02")
    # ---- GPOS: several records at one position, variable in one field
    a, b, c = rnd.sample(bases, 3)
    lines.append("lookup P0%s { pos %s <%s 0 %s 0>; } P0;" % (_ext(rnd), b, rnd.randrange(5, 40), _var(rnd, 10, 90, variable)))
    lines.append("lookup P1%s { pos %s <0 %s 0 0>; } P1;" % (_ext(rnd), b, _var(rnd, 5, 60, variable)))
    kern_rules = ["pos %s %s %s;" % (rnd.choice(bases), rnd.choice(bases), _var(rnd, -90, -5, variable)) for _ in range(rnd.randint(1, 4))]
    kern_rules = list(dict.fromkeys(kern_rules))
    kern = ["lookup KP%s { %s } KP;" % (_ext(rnd), " ".join(kern_rules)),
            "lookup KC%s { pos %s %s' lookup P0 lookup P1 %s; } KC;" % (_ext(rnd), a, b, c)]
    # ---- (b) language systems
    lang_rules = {}
    for sc in scripts:
        for lg in LANGS.get(sc, []):
            if rnd.random() < 0.7:
                lang_rules[(sc, lg)] = rnd.choice(["", "", " exclude_dflt"])
    kern_body = " ".join(kern)
    for (sc, lg), how in sorted(lang_rules.items()):
        if rnd.random() < 0.5:
            p, q = rnd.sample(bases, 2)
            kern_body += " script %s; language %s%s; pos %s %s %d;" % (sc, lg, how, p, q, -rnd.randrange(20, 150))
    lines.append("feature kern { %s } kern;" % kern_body)
    tags.append("kern")
    if lang_rules:
        body = ""
        cur = None
        for (sc, lg), how in sorted(lang_rules.items()):
            g = rnd.choice(bases)
            if cur != sc:
                body += " script %s;" % sc
                cur = sc
            body += " language %s%s; sub %s by %s;" % (lg, how, g, need("%s.%s" % (g, lg)))
        lines.append("feature locl {%s } locl;" % body)
        tags.append("locl")
    if rnd.random() < 0.6:
        p, q = rnd.sample(bases, 2)
        lines.append("feature liga { lookup LG%s { sub %s %s by %s; } LG; } liga;" % (_ext(rnd), p, q, need("%s_%s" % (p, q))))
        tags.append("liga")
    # ---- (c)+(e) marks: variable anchors, mark filtering sets, mark attachment classes
    if all_marks:
        for m in marks_top:
            lines.insert(0, "markClass %s %s @TOP;" % (m, _anchor(rnd, 80, 480, variable)))
        for m in marks_bot:
            lines.insert(0, "markClass %s %s @BOT;" % (m, _anchor(rnd, 80, -60, variable)))
        mk = []
        for bs in rnd.sample(bases, min(len(bases), rnd.randint(2, 4))):
            r = "pos base %s %s mark @TOP" % (bs, _anchor(rnd, 200, 500, variable))
            if marks_bot and rnd.random() < 0.6:
                r += " %s mark @BOT" % _anchor(rnd, 200, -40, variable)
            mk.append(r + ";")
        lines.append("feature mark { lookup MB%s { %s } MB; } mark;" % (_ext(rnd), " ".join(mk)))
        tags.append("mark")
        if len(marks_top) > 1 and rnd.random() < 0.6:
            lines.append("feature mkmk { lookup MM%s { pos mark %s %s mark @TOP; } MM; } mkmk;" % (_ext(rnd), marks_top[0], _anchor(rnd, 90, 650, variable)))
            tags.append("mkmk")
        # GSUB and GPOS lookups that skip marks through a filtering set / attachment class
        fs = rnd.sample(all_marks, rnd.randint(1, len(all_marks)))
        p, q = rnd.sample(bases, 2)
        flag = rnd.choice(["UseMarkFilteringSet [%s]" % " ".join(fs), "UseMarkFilteringSet [%s]" % " ".join(fs), "MarkAttachmentType [%s]" % " ".join(fs), "IgnoreMarks"])
        lines.append("feature rlig { lookup RL%s { lookupflag %s; sub %s %s by %s; } RL; } rlig;" % (_ext(rnd), flag, p, q, need("%s_%s.r" % (p, q))))
        tags.append("rlig")
        fs2 = rnd.sample(all_marks, rnd.randint(1, len(all_marks)))
        lines.append("feature dist { lookup DS%s { lookupflag UseMarkFilteringSet [%s]; pos %s %s %s; } DS; } dist;"
                     % (_ext(rnd), " ".join(fs2), p, q, _var(rnd, -70, -10, variable)))
        tags.append("dist")
    if rnd.random() < 0.4:
        g = rnd.choice(bases)
        lines.append("feature ss03 { lookup AL%s { sub %s from [%s %s]; } AL; } ss03;" % (_ext(rnd), g, need(g + ".a1"), need(g + ".a2")))
        tags.append("ss03")
    if rnd.random() < 0.4:
        p, q = rnd.sample(bases, 2)
        lines.append("feature curs { lookup CU%s { pos cursive %s <anchor 0 %s> <anchor 300 %s>; pos cursive %s <anchor 10 20> <anchor NULL>; } CU; } curs;"
                     % (_ext(rnd), p, _var(rnd, 0, 50, variable), _var(rnd, 0, 50, variable), q))
        tags.append("curs")
    return lines, tags


def program(rnd):
    n = rnd.randint(7, 11)
    bases = ["b%d" % i for i in range(n)]
    marks_top = ["mt%d" % i for i in range(rnd.randint(1, 3))]
    marks_bot = ["mb%d" % i for i in range(rnd.randint(0, 2))]
    glyphs = [".notdef"] + bases + marks_top + marks_bot
    n_mapped = len(glyphs) - 1

    def need(name):
        if name not in glyphs:
            glyphs.append(name)
        return name

    variable = rnd.random() < 0.7
    scripts = ["DFLT"] + (["latn"] if rnd.random() < 0.8 else []) + rnd.sample(["cyrl", "grek"], rnd.randint(0, 1))
    if len(scripts) == 1:
        scripts.append("cyrl")
    lines, tags = fea_parts(rnd, bases, marks_top, marks_bot, need, variable, [s for s in scripts if s != "DFLT"])
    head = ["languagesystem %s dflt;" % s for s in scripts]
    for s in scripts:
        for lg in LANGS.get(s, []):
            if (" language %s" % lg) in " ".join(lines) or rnd.random() < 0.2:
                head.append("languagesystem %s %s;" % (s, lg))
    ligs = [g for g in glyphs if "_" in g]
    others = [g for g in glyphs if g not in marks_top + marks_bot and g not in ligs and g != ".notdef"]
    gdef = "table GDEF { GlyphClassDef [%s], [%s], [%s], ; } GDEF;" % (" ".join(others), " ".join(ligs), " ".join(marks_top + marks_bot))
    mc = [l for l in lines if l.startswith("markClass")]
    rest = [l for l in lines if not l.startswith("markClass")]
    fea = "\n".join(head + mc + rest + [gdef]) + "\n"
    # REQUIRED features (set on the compiled table: feaLib can only make the alphabetically first tag land at index 0):
    # FeatureList position first / second / last, listed or not listed in FeatureIndex as well, in the default
    # and/or the per-language systems
    required = None
    if rnd.random() < 0.45:
        required = {"where": rnd.choice(["first", "first", "second", "last"]), "also_listed": rnd.random() < 0.3,
                    "systems": rnd.choice(["all", "default", "languages"]), "seed": rnd.randrange(1 << 30)}
    return {"glyphs": glyphs, "n_mapped": n_mapped, "fea": fea, "variable": variable, "tags": tags, "scripts": scripts,
            "marks": marks_top + marks_bot, "required": required}


def build(prog):
    from fontTools.fontBuilder import FontBuilder
    from fontTools.pens.ttGlyphPen import TTGlyphPen

    order = prog["glyphs"]
    fb = FontBuilder(1000, isTTF=True)
    fb.setupGlyphOrder(order)
    fb.setupCharacterMap({PUA + i: g for i, g in enumerate(order) if i <= prog["n_mapped"]})
    glyphs = {}
    for i, g in enumerate(order):
        pen = TTGlyphPen(None)
        mark = g in prog["marks"]
        w, h = (60 + 5 * i, 60 + 3 * i) if mark else (90 + 8 * i, 160 + 11 * (i % 13))
        y0 = 520 if mark else 0
        pen.moveTo((25, y0))
        pen.lineTo((25, y0 + h))
        pen.lineTo((25 + w, y0 + h - 5 - i % 5))
        pen.lineTo((25 + w, y0))
        pen.closePath()
        glyphs[g] = pen.glyph()
    fb.setupGlyf(glyphs)
    fb.setupHorizontalMetrics({g: (0 if g in prog["marks"] else 290 + 9 * i, 25) for i, g in enumerate(order)})
    fb.setupHorizontalHeader(ascent=800, descent=-200)
    fb.setupNameTable({"familyName": "LayGen", "styleName": "Regular"})
    fb.setupOS2()
    fb.setupPost()
    if prog["variable"]:
        fb.setupFvar(axes=[("wght", 100, 400, 900, "Weight")], instances=[])
        fb.setupGvar({g: [] for g in order})
    fb.addOpenTypeFeatures(prog["fea"])
    prog["required_tags"] = _make_required(fb.font, prog.get("required"))
    b = io.BytesIO()
    fb.save(b)
    return b.getvalue()


def _make_required(font, spec):
    """Turn one GSUB feature record into the required feature of some language systems. -> [tag] or []"""
    if not spec or "GSUB" not in font:
        return []
    import random

    rnd = random.Random(spec["seed"])
    gsub = font["GSUB"].table
    recs = gsub.FeatureList.FeatureRecord
    if not recs:
        return []
    idx = {"first": 0, "second": min(1, len(recs) - 1), "last": len(recs) - 1}[spec["where"]]
    done = False
    for sr in gsub.ScriptList.ScriptRecord:
        systems = []
        if spec["systems"] in ("all", "default") and sr.Script.DefaultLangSys:
            systems.append(sr.Script.DefaultLangSys)
        if spec["systems"] in ("all", "languages"):
            systems += [l.LangSys for l in sr.Script.LangSysRecord]
        for ls in systems:
            if idx in ls.FeatureIndex and ls.ReqFeatureIndex == 0xFFFF and rnd.random() < 0.85:
                if not spec["also_listed"]:
                    ls.FeatureIndex = [f for f in ls.FeatureIndex if f != idx]
                    ls.FeatureCount = len(ls.FeatureIndex)
                ls.ReqFeatureIndex = idx
                done = True
    return [recs[idx].FeatureTag] if done else []
