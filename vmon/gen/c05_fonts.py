"""Seeded font generators for C05: constructs the corpus lacks.

Every builder is a function of a random.Random and returns sfnt bytes (assembled with
fontBuilder and the table classes; the oracles only ever read the bytes).

  ttcomp  static TrueType: simple glyphs (off-curve-only contours, contours that start
          off-curve) and composites with 2.14 scale / x-y scale / 2x2 transforms,
          SCALED/UNSCALED_COMPONENT_OFFSET, ROUND_XY_TO_GRID, USE_MY_METRICS, anchor
          point matching, nesting; optionally lsb != xMin
  ttvar   glyf + gvar: full and partial point sets (IUP, coincident reference
          coordinates, single / no referenced point on a contour), intermediate and
          multi-axis regions, phantom-point advances, variable composites, HVAR absent /
          direct / with index map, avar segment maps, default == min or max
  cffops  CFF: every path operator in every argument-count form, flex family, hints and
          hintmask, width prefix, local/global subrs with the counts at the bias
          boundaries (1239/1240/1241, 33899/33900), nested calls
  cff2    CFF2: multi-region blends (single and multi-operand), vsindex, local subrs,
          HVAR
"""
import io
import math

F2 = 16384


# ---------------------------------------------------------------- helpers
def _fb(upem, isTTF, order, cmap=None):
    from fontTools.fontBuilder import FontBuilder

    fb = FontBuilder(upem, isTTF=isTTF)
    fb.setupGlyphOrder(order)
    fb.setupCharacterMap(cmap if cmap is not None else {0xE000 + i: g for i, g in enumerate(order) if i})
    return fb


def _finish(fb, metrics, vmetrics=None, names=True):
    fb.setupHorizontalMetrics(metrics)
    fb.setupHorizontalHeader(ascent=800, descent=-200)
    if vmetrics:
        fb.setupVerticalMetrics(vmetrics)
        fb.setupVerticalHeader(ascent=500, descent=-500)
    if "name" not in fb.font:
        fb.setupNameTable({"familyName": "VmonC05", "styleName": "Regular"})
    fb.setupOS2()
    fb.setupPost()
    b = io.BytesIO()
    fb.save(b)
    return b.getvalue()


def _simple_glyph(rnd, style=None):
    """A random TrueType simple glyph (1-3 contours)."""
    from fontTools.ttLib.tables._g_l_y_f import Glyph, GlyphCoordinates, flagOnCurve

    g = Glyph()
    coords, flags, ends = [], [], []
    ncont = rnd.choice([1, 1, 2, 3])
    for c in range(ncont):
        cx, cy = rnd.randrange(-100, 600), rnd.randrange(-200, 700)
        n = rnd.choice([3, 4, 5, 6, 8])
        kind = style or rnd.choice(["poly", "mixed", "mixed", "offonly", "startoff", "multioff"])
        r = rnd.randrange(40, 260)
        for k in range(n):
            a = 2 * math.pi * k / n + rnd.uniform(-0.2, 0.2)
            coords.append((int(cx + r * math.cos(a)) + rnd.randrange(-15, 16), int(cy + r * math.sin(a)) + rnd.randrange(-15, 16)))
            if kind == "poly":
                on = 1
            elif kind == "offonly":
                on = 0
            elif kind == "startoff":
                on = 0 if k == 0 else rnd.choice([0, 1, 1])
            elif kind == "multioff":
                on = 1 if k % 3 == 1 else 0
            else:
                on = rnd.choice([0, 1, 1])
            flags.append(flagOnCurve if on else 0)
        if rnd.random() < 0.15:  # duplicate point (zero-length segment)
            coords.append(coords[-1])
            flags.append(flagOnCurve)
        ends.append(len(coords) - 1)
    g.numberOfContours = ncont
    g.coordinates = GlyphCoordinates(coords)
    g.flags = bytearray(flags)
    g.endPtsOfContours = ends
    g.program = _no_program()
    return g


def _no_program():
    from fontTools.ttLib.tables import ttProgram

    p = ttProgram.Program()
    p.fromBytecode(b"")
    return p


def _empty_glyph():
    from fontTools.ttLib.tables._g_l_y_f import Glyph

    g = Glyph()
    g.numberOfContours = 0
    return g


def _f2(rnd, lo=-2.0, hi=1.99):
    """a random value exactly representable as F2Dot14"""
    return rnd.randrange(int(lo * F2), int(hi * F2)) / F2


def _transform(rnd, kind):
    if kind == "scale":
        s = rnd.choice([0.5, 0.75, 1.5, -1.0, _f2(rnd, 0.3, 1.9)])
        return [[s, 0], [0, s]]
    if kind == "xy":
        return [[rnd.choice([0.5, -1.0, 1.25, _f2(rnd, 0.3, 1.9)]), 0], [0, rnd.choice([0.75, 1.0, -0.5, _f2(rnd, 0.3, 1.9)])]]
    # 2x2: rotation / shear / general
    k = rnd.randrange(3)
    if k == 0:
        a = rnd.choice([30, 45, 90, 180, -60]) * math.pi / 180
        c, s = round(math.cos(a) * F2) / F2, round(math.sin(a) * F2) / F2
        return [[c, s], [-s, c]]
    if k == 1:
        return [[1.0, _f2(rnd, -0.5, 0.5) or 0.25], [0, 1.0]]
    return [[_f2(rnd, -1.5, 1.5), _f2(rnd, -1, 1) or 0.5], [_f2(rnd, -1, 1) or -0.25, _f2(rnd, -1.5, 1.5)]]


def _component(rnd, base, tkind=None, flagbits=0, anchor=None, big=False):
    from fontTools.ttLib.tables._g_l_y_f import GlyphComponent

    c = GlyphComponent()
    c.glyphName = base
    c.flags = flagbits
    if anchor is not None:
        c.firstPt, c.secondPt = anchor
    else:
        c.x = rnd.randrange(-400, 400) if big else rnd.randrange(-120, 120)
        c.y = rnd.randrange(-300, 300) if big else rnd.randrange(-120, 120)
    if tkind:
        c.transform = _transform(rnd, tkind)
    return c


def _composite(components):
    from fontTools.ttLib.tables._g_l_y_f import Glyph

    g = Glyph()
    g.numberOfContours = -1
    g.components = components
    g.program = _no_program()
    return g


# ---------------------------------------------------------------- ttcomp
def ttcomp(rnd, lsb_shift=False, anchors=True):
    from fontTools.ttLib.tables import _g_l_y_f as G

    order = [".notdef"]
    glyphs = {".notdef": _empty_glyph()}
    nbase = 6
    for i in range(nbase):
        n = "b%d" % i
        order.append(n)
        glyphs[n] = _simple_glyph(rnd, style=[None, "poly", "offonly", "startoff", "multioff", None][i])
    bases = order[1:]
    comps = []

    def add(name, comp_list):
        order.append(name)
        glyphs[name] = _composite(comp_list)
        comps.append(name)

    k = 0
    for tkind in (None, "scale", "xy", "2x2"):
        for off in (0, G.SCALED_COMPONENT_OFFSET, G.UNSCALED_COMPONENT_OFFSET):
            for rxy in (0, G.ROUND_XY_TO_GRID):
                if tkind is None and off and rnd.random() < 0.5:
                    continue
                cl = [_component(rnd, rnd.choice(bases), tkind, off | rxy, big=True)]
                if rnd.random() < 0.6:
                    cl.append(_component(rnd, rnd.choice(bases), rnd.choice([None, tkind]), rxy))
                add("c%d" % k, cl)
                k += 1
    # USE_MY_METRICS
    for j in range(2):
        cl = [_component(rnd, rnd.choice(bases), None, 0), _component(rnd, rnd.choice(bases), rnd.choice([None, "scale"]), G.USE_MY_METRICS)]
        add("m%d" % j, cl)
    # nested composites (depth 2 and 3), with transforms at several levels
    lvl1 = list(comps)
    for j in range(4):
        cl = [_component(rnd, rnd.choice(lvl1), rnd.choice([None, "scale", "2x2"]), rnd.choice([0, G.SCALED_COMPONENT_OFFSET]), big=True),
              _component(rnd, rnd.choice(bases), None, 0)]
        add("n%d" % j, cl)
    lvl2 = [n for n in comps if n.startswith("n")]
    for j in range(2):
        cl = [_component(rnd, rnd.choice(lvl2), rnd.choice(["xy", "2x2"]), rnd.choice([0, G.UNSCALED_COMPONENT_OFFSET]))]
        add("d%d" % j, cl)
    # anchor-point matching: second component attached by points
    if anchors:
        for j in range(3):
            b1, b2 = rnd.choice(bases), rnd.choice(bases)
            n1 = len(glyphs[b1].coordinates)
            n2 = len(glyphs[b2].coordinates)
            cl = [_component(rnd, b1, None, 0),
                  _component(rnd, b2, [None, "scale", "2x2"][j], 0, anchor=(rnd.randrange(n1), rnd.randrange(n2)))]
            add("a%d" % j, cl)
    fb = _fb(1000, True, order)
    fb.setupGlyf(glyphs)
    gt = fb.font["glyf"]
    metrics = {}
    for n in order:
        xmin = getattr(gt[n], "xMin", 0) or 0
        lsb = xmin
        if lsb_shift and n != ".notdef" and rnd.random() < 0.7:
            lsb = xmin + rnd.choice([-37, 11, 60])
        metrics[n] = (rnd.randrange(300, 900), lsb)
    return _finish(fb, metrics)


# ---------------------------------------------------------------- ttvar
def _region(rnd, axes_tags, kind=None):
    """a random variation region {tag: (start, peak, end)} in F2Dot14-exact values"""
    reg = {}
    tags = rnd.sample(axes_tags, rnd.choice([1, 1, 1, 2]) if len(axes_tags) > 1 else 1)
    for t in tags:
        k = kind or rnd.choice(["full+", "full-", "mid+", "mid-", "late+"])
        if k == "full+":
            reg[t] = (0.0, 1.0, 1.0)
        elif k == "full-":
            reg[t] = (-1.0, -1.0, 0.0)
        elif k == "mid+":
            p = rnd.choice([0.25, 0.5, 0.75, rnd.randrange(2000, 14000) / F2])
            reg[t] = (0.0, p, 1.0)
        elif k == "mid-":
            p = -rnd.choice([0.25, 0.5, rnd.randrange(2000, 14000) / F2])
            reg[t] = (-1.0, p, 0.0)
        else:
            s = rnd.choice([0.25, 0.5])
            reg[t] = (s, 1.0, 1.0)
    return reg


def _axes(rnd, n):
    tags = ["wght", "wdth", "XXXX"][:n]
    axes = []
    for t in tags:
        k = rnd.choice(["mid", "mid", "atmin", "atmax"])
        if k == "mid":
            axes.append((t, 100, rnd.choice([400, 350.5]), 900, t))
        elif k == "atmin":
            axes.append((t, 0, 0, rnd.choice([100, 1000]), t))
        else:
            axes.append((t, -10, 0, 0, t))
    return axes


def _avar_maps(rnd, axes):
    maps = {}
    for (t, lo, d, hi, _n) in axes:
        if rnd.random() < 0.6:
            m = {-1.0: -1.0, 0.0: 0.0, 1.0: 1.0}
            for _ in range(rnd.choice([1, 2, 3])):
                f = rnd.choice([-0.75, -0.5, -0.25, 0.125, 0.25, 0.5, 0.75, rnd.randrange(-15000, 15000) / F2])
                m[f] = 0.0
            # monotone targets
            ks = sorted(m)
            neg = [k for k in ks if -1 < k < 0]
            pos = [k for k in ks if 0 < k < 1]
            for grp, lo_, hi_ in ((neg, -1.0, 0.0), (pos, 0.0, 1.0)):
                tv = sorted(rnd.randrange(int(lo_ * F2) + 1, int(hi_ * F2)) / F2 for _ in grp)
                for k, v in zip(grp, tv):
                    m[k] = v
            maps[t] = m
    return maps


def _set_avar(font, axes, maps):
    from fontTools.ttLib import newTable

    t = newTable("avar")
    t.majorVersion, t.minorVersion = 1, 0
    t.segments = {a[0]: dict(maps.get(a[0], {-1.0: -1.0, 0.0: 0.0, 1.0: 1.0})) for a in axes}
    font["avar"] = t


def ttvar(rnd, hvar="none", naxes=None, avar=None, vertical=False, left_phantom=False, vvar=False):
    """hvar in {"none", "direct", "map"}"""
    from fontTools.ttLib.tables.TupleVariation import TupleVariation
    from fontTools.ttLib.tables import _g_l_y_f as G
    from fontTools.ttLib import newTable
    from fontTools.ttLib.tables import otTables as ot
    from fontTools.varLib import builder

    naxes = naxes or rnd.choice([1, 2, 2, 3])
    axes = _axes(rnd, naxes)
    tags = [a[0] for a in axes]
    # regions must lie on the side of the default where the axis has range
    def usable(reg):
        for t, (s, p, e) in reg.items():
            a = [x for x in axes if x[0] == t][0]
            if p > 0 and a[3] == a[2]:
                return False
            if p < 0 and a[1] == a[2]:
                return False
        return True

    order = [".notdef"]
    glyphs = {".notdef": _empty_glyph()}
    nsimple = 7
    for i in range(nsimple):
        n = "s%d" % i
        order.append(n)
        glyphs[n] = _simple_glyph(rnd, style=[None, "poly", "mixed", "offonly", "startoff", "multioff", "poly"][i])
    order.append("empty")
    glyphs["empty"] = _empty_glyph()
    simples = order[1:1 + nsimple]
    for j in range(4):
        n = "v%d" % j
        order.append(n)
        flags = [0, G.USE_MY_METRICS, G.ROUND_XY_TO_GRID, G.SCALED_COMPONENT_OFFSET][j]
        cl = [_component(rnd, rnd.choice(simples), [None, None, "scale", "2x2"][j], flags, big=True)]
        if j != 1:
            cl.append(_component(rnd, rnd.choice(simples), None, 0))
        glyphs[n] = _composite(cl)
    order.append("vv")
    glyphs["vv"] = _composite([_component(rnd, "v2", "xy", 0), _component(rnd, "s0", None, 0)])

    fb = _fb(1000, True, order)
    fb.setupNameTable({"familyName": "VmonC05", "styleName": "Regular"})
    fb.setupGlyf(glyphs)
    gt = fb.font["glyf"]
    metrics = {n: (rnd.randrange(600, 900), getattr(gt[n], "xMin", 0) or 0) for n in order}
    fb.setupFvar(axes, [])
    maps = _avar_maps(rnd, axes) if (avar if avar is not None else rnd.random() < 0.6) else {}
    if maps:
        _set_avar(fb.font, axes, maps)

    def rdelta(mag=120):
        return (rnd.randrange(-mag, mag + 1), rnd.randrange(-mag, mag + 1))

    variations = {}
    all_regions = []
    for n in order:
        g = glyphs[n]
        if g.isComposite():
            npts = len(g.components)
        elif g.numberOfContours == 0:
            npts = 0
        else:
            npts = len(g.coordinates)
        tvs = []
        for _ in range(rnd.choice([1, 2, 3, 4])):
            reg = _region(rnd, tags)
            if not usable(reg):
                continue
            mode = rnd.choice(["full", "partial", "partial", "sparse", "one", "phantom-only", "coincident"])
            deltas = [None] * (npts + 4)
            if mode == "full" or g.isComposite():
                deltas = [rdelta() for _i in range(npts + 4)]
            elif mode == "partial":
                for i in range(npts):
                    if rnd.random() < 0.5:
                        deltas[i] = rdelta()
            elif mode == "sparse":   # some contours get no referenced point at all
                ends = list(g.endPtsOfContours) if npts else []
                start = 0
                for ci, e in enumerate(ends):
                    if ci % 2 == 0:
                        for i in range(start, e + 1):
                            if rnd.random() < 0.4:
                                deltas[i] = rdelta()
                    start = e + 1
            elif mode == "one" and npts:
                deltas[rnd.randrange(npts)] = rdelta()
            elif mode == "coincident" and npts:
                # references whose x (or y) coordinates coincide but whose deltas differ
                cs = list(g.coordinates)
                i = rnd.randrange(npts)
                same = [j for j in range(npts) if j != i and (cs[j][0] == cs[i][0] or cs[j][1] == cs[i][1])]
                deltas[i] = rdelta()
                for j in same[:2]:
                    deltas[j] = rdelta()
                if not same:
                    deltas[(i + 2) % npts] = rdelta()
            # phantom points: advance changes (left/right), vertical ones too
            if mode != "partial" or g.isComposite() or rnd.random() < 0.5:
                deltas[npts] = (rnd.choice([0, -20, 15]) if left_phantom else 0, 0)
                deltas[npts + 1] = (rnd.randrange(-150, 150), 0)
                deltas[npts + 2] = (0, rnd.randrange(-50, 50))
                deltas[npts + 3] = (0, rnd.randrange(-50, 50))
            if all(d is None for d in deltas):
                deltas[npts + 1] = (rnd.randrange(-99, 99), 0)
            tvs.append(TupleVariation(reg, deltas))
            if reg not in all_regions:
                all_regions.append(reg)
        if tvs:
            variations[n] = tvs
    # coincident-coordinate glyph made on purpose: a rectangle with only two opposite
    # corners referenced plus points sharing x with a reference
    from fontTools.ttLib.tables._g_l_y_f import GlyphCoordinates
    if usable({tags[0]: (0.0, 1.0, 1.0)}) or usable({tags[0]: (-1.0, -1.0, 0.0)}):
        reg = {tags[0]: (0.0, 1.0, 1.0)} if usable({tags[0]: (0.0, 1.0, 1.0)}) else {tags[0]: (-1.0, -1.0, 0.0)}
        g = glyphs["s6"]
        n6 = len(g.coordinates)
        cs = list(g.coordinates)
        # force coincidences
        cs[1] = (cs[0][0], cs[1][1])
        if n6 > 3:
            cs[3] = (cs[3][0], cs[0][1])
        g.coordinates = GlyphCoordinates(cs)
        d = [None] * (n6 + 4)
        d[0] = (40, -30)
        d[1] = (-25, 10)          # same x as point 0, different delta
        if n6 > 3:
            d[3] = (7, 55)        # same y as point 0, different delta
        variations["s6"] = [TupleVariation(reg, d)] + [tv for tv in variations.get("s6", []) if len(tv.coordinates) == n6 + 4][:1]
        if reg not in all_regions:
            all_regions.append(reg)
        fb.calcGlyphBounds()
        metrics["s6"] = (metrics["s6"][0], gt["s6"].xMin)
    # USE_MY_METRICS must be consistent (as font compilers guarantee): the composite has the
    # component's hmtx entry and the component's phantom-point deltas
    umm_base = glyphs["v1"].components[0].glyphName
    metrics["v1"] = metrics[umm_base]
    variations["v1"] = [TupleVariation(dict(tv.axes), [rdelta()] + list(tv.coordinates[-4:])) for tv in variations.get(umm_base, [])]
    if not variations["v1"]:
        del variations["v1"]
    fb.setupGvar(variations)

    vmetrics = None
    if vertical:
        vmetrics = {n: (rnd.randrange(800, 1100), rnd.randrange(0, 100)) for n in order}
        vmetrics["v1"] = vmetrics[umm_base]
    if hvar != "none":
        if not all_regions:
            all_regions.append({tags[0]: (0.0, 1.0, 1.0)} if usable({tags[0]: (0.0, 1.0, 1.0)}) else {tags[0]: (-1.0, -1.0, 0.0)})
        regs = all_regions[:6]
        rl = builder.buildVarRegionList(regs, tags)
        if hvar == "direct":
            items = [[rnd.randrange(-40, 40) for _r in regs] for _g in order]
            vd = builder.buildVarData(list(range(len(regs))), items, optimize=False)
            store = builder.buildVarStore(rl, [vd])
            amap = None
        else:
            # two VarData, items shuffled, several glyphs share an item
            nitems = 5
            items0 = [[rnd.randrange(-40, 40) for _r in regs] for _i in range(nitems)]
            sub = list(range(len(regs)))[: max(1, len(regs) - 1)]
            items1 = [[rnd.randrange(-60, 60) for _r in sub] for _i in range(3)]
            store = builder.buildVarStore(rl, [builder.buildVarData(list(range(len(regs))), items0, optimize=False),
                                               builder.buildVarData(sub, items1, optimize=False)])
            idx = []
            for gi, _g in enumerate(order):
                if rnd.random() < 0.6:
                    idx.append(rnd.randrange(nitems))
                else:
                    idx.append((1 << 16) | rnd.randrange(3))
            amap = builder.buildVarIdxMap(idx, order)
        t = newTable("HVAR")
        t.table = ot.HVAR()
        t.table.Version = 0x00010000
        t.table.VarStore = store
        t.table.AdvWidthMap = amap
        t.table.LsbMap = t.table.RsbMap = None
        fb.font["HVAR"] = t
    if vvar and vertical:
        regs = all_regions[:4] or [{tags[0]: (0.0, 1.0, 1.0)} if usable({tags[0]: (0.0, 1.0, 1.0)}) else {tags[0]: (-1.0, -1.0, 0.0)}]
        rl = builder.buildVarRegionList(regs, tags)
        items = [[rnd.randrange(-40, 40) for _r in regs] for _g in order]
        t = newTable("VVAR")
        t.table = ot.VVAR()
        t.table.Version = 0x00010000
        t.table.VarStore = builder.buildVarStore(rl, [builder.buildVarData(list(range(len(regs))), items, optimize=False)])
        t.table.AdvHeightMap = t.table.TsbMap = t.table.BsbMap = t.table.VOrgMap = None
        fb.font["VVAR"] = t
    return _finish(fb, metrics, vmetrics)


# ---------------------------------------------------------------- CFF operators
def _num(rnd, small=False):
    r = rnd.random()
    if r < 0.04:
        return rnd.choice([107, 108, -107, -108, 1131, -1131, 1132, -1132])
    if r < 0.10:
        return rnd.randrange(-40, 40) + rnd.choice([0.5, 0.25, 0.125, 1 / 3])
    if small:
        return rnd.randrange(-60, 61)
    return rnd.randrange(-220, 221)


def _path_op(rnd, force=None):
    """-> (tokens) for one path-construction operator in a random legal form"""
    N = lambda: _num(rnd)
    op = force or rnd.choice(["rlineto", "hlineto", "vlineto", "rrcurveto", "hhcurveto", "vvcurveto", "hvcurveto",
                              "vhcurveto", "rcurveline", "rlinecurve", "flex", "hflex", "hflex1", "flex1"])
    if op == "rlineto":
        k = rnd.choice([1, 2, 3, 5])
        return [N() for _ in range(2 * k)] + [op]
    if op in ("hlineto", "vlineto"):
        k = rnd.choice([1, 2, 3, 4, 5, 6, 7])
        return [N() for _ in range(k)] + [op]
    if op == "rrcurveto":
        k = rnd.choice([1, 2, 3])
        return [N() for _ in range(6 * k)] + [op]
    if op in ("hhcurveto", "vvcurveto"):
        k = rnd.choice([1, 2, 3])
        lead = rnd.choice([0, 1])
        return [N() for _ in range(lead + 4 * k)] + [op]
    if op in ("hvcurveto", "vhcurveto"):
        k = rnd.choice([4, 5, 8, 9, 12, 13, 16, 17])
        return [N() for _ in range(k)] + [op]
    if op == "rcurveline":
        k = rnd.choice([1, 2])
        return [N() for _ in range(6 * k + 2)] + [op]
    if op == "rlinecurve":
        k = rnd.choice([1, 2, 3])
        return [N() for _ in range(2 * k + 6)] + [op]
    if op == "flex":
        return [N() for _ in range(12)] + [rnd.choice([50, 0, 100]), op]
    if op == "hflex":
        return [N() for _ in range(7)] + [op]
    if op == "hflex1":
        return [N() for _ in range(9)] + [op]
    if op == "flex1":
        # make both |dx| > |dy| and |dx| <= |dy| likely
        a = [N() for _ in range(10)]
        if rnd.random() < 0.5:
            a[0] += rnd.choice([-900, 900])
        else:
            a[1] += rnd.choice([-900, 900])
        if rnd.random() < 0.15:  # the tie |dx| == |dy|
            a = [10, 10, 5, 5, 0, 0, 0, 0, 0, 0]
        return a + [N(), op]
    raise AssertionError(op)


ALL_PATH_OPS = ["rlineto", "hlineto", "vlineto", "rrcurveto", "hhcurveto", "vvcurveto", "hvcurveto",
                "vhcurveto", "rcurveline", "rlinecurve", "flex", "hflex", "hflex1", "flex1"]


def _moveto(rnd):
    k = rnd.randrange(3)
    if k == 0:
        return [_num(rnd), _num(rnd), "rmoveto"]
    if k == 1:
        return [_num(rnd), "hmoveto"]
    return [_num(rnd), "vmoveto"]


def _bias(n):
    return 107 if n < 1240 else 1131 if n < 33900 else 32768


def cffops(rnd, nlocal=3, nglobal=3, nglyphs=40, cover_all=True):
    """CFF font; subr i (local and global) draws a distinctive small piece so a wrong
    bias selects a visibly different subr."""
    from fontTools.misc.psCharStrings import T2CharString
    from fontTools.cffLib import SubrsIndex

    order = [".notdef"] + ["g%d" % i for i in range(nglyphs)]

    def subr_body(i, depth_call=None, glob=False):
        # a path fragment depending on i; optionally calls another subr (nesting)
        body = [(i % 97) + 3, -((i * 7) % 89) - 2, "rlineto"]
        if i % 3 == 1:
            body = [(i % 53) + 1, (i % 31) + 2, -((i % 17) + 1), (i % 13) + 3, "hhcurveto"]
        if depth_call is not None:
            body += depth_call
        return body + ["return"]

    nloc, nglo = nlocal, nglobal
    lb, gb = _bias(nloc), _bias(nglo)
    # nesting chain at the start of the local subrs: 0 -> 1 -> 2 -> 3 -> global 0
    chain = min(4, nloc - 1) if nloc > 1 else 0
    locals_, globals_ = [], []
    for i in range(nloc):
        call = None
        if i < chain:
            call = [i + 1 - lb, "callsubr"]
        elif i == chain and chain and nglo:
            call = [0 - gb, "callgsubr"]
        locals_.append(T2CharString(program=subr_body(i, call)))
    for i in range(nglo):
        globals_.append(T2CharString(program=subr_body(i + 11)))
    # a subr that consumes arguments pushed by the caller
    argsub = None
    if nloc:
        argsub = nloc
        locals_.append(T2CharString(program=["rlineto", 10, "hlineto", "return"]))
        nloc += 1
        lb = _bias(nloc)
        # rebias the chain calls if the count crossed a boundary
        for i in range(chain):
            locals_[i].program[-3] = i + 1 - lb
    charstrings = {}
    todo_ops = list(ALL_PATH_OPS) * 2 if cover_all else []
    rnd.shuffle(todo_ops)
    for gi, name in enumerate(order):
        prog = []
        first = True
        hints = 0
        if name != ".notdef" and rnd.random() < 0.35:
            # stems (+ optional width), possibly hstemhm/vstemhm + hintmask with implicit vstem
            if rnd.random() < 0.5:
                prog += [rnd.randrange(-80, 80)]  # width - nominalWidthX
            nh = rnd.choice([1, 2, 3])
            hm = rnd.random() < 0.6
            prog += [x for _ in range(nh) for x in (rnd.randrange(0, 50), rnd.randrange(1, 60))] + ["hstemhm" if hm else "hstem"]
            hints += nh
            nv = rnd.choice([1, 2, 5])
            vs = [x for _ in range(nv) for x in (rnd.randrange(0, 50), rnd.randrange(1, 60))]
            hints += nv
            if hm and rnd.random() < 0.5:
                prog += vs + ["hintmask", bytes(rnd.randrange(256) for _ in range((hints + 7) // 8))]
            else:
                prog += vs + ["vstemhm" if hm else "vstem"]
                if hm:
                    prog += ["hintmask", bytes(rnd.randrange(256) for _ in range((hints + 7) // 8))]
                    if rnd.random() < 0.5:
                        prog += ["cntrmask", bytes(rnd.randrange(256) for _ in range((hints + 7) // 8))]
            first = False
        ncont = 0 if name == ".notdef" else rnd.choice([1, 2, 3])
        for c in range(ncont):
            mv = _moveto(rnd)
            if first and rnd.random() < 0.5:
                mv = [rnd.randrange(-80, 80)] + mv
            first = False
            prog += mv
            for _ in range(rnd.choice([1, 2, 3, 4])):
                r = rnd.random()
                if todo_ops:
                    prog += _path_op(rnd, todo_ops.pop())
                elif r < 0.72 or not (nloc or nglo):
                    prog += _path_op(rnd)
                elif r < 0.86 and nloc:
                    i = rnd.choice([0, nloc - 2 if nloc > 1 else 0, rnd.randrange(nloc - 1) if nloc > 1 else 0, min(chain, nloc - 1)])
                    if i == argsub:
                        i = 0
                    prog += [i - lb, "callsubr"]
                elif r < 0.93 and argsub is not None:
                    prog += [_num(rnd), _num(rnd), argsub - lb, "callsubr"]
                elif nglo:
                    i = rnd.choice([0, nglo - 1, rnd.randrange(nglo)])
                    prog += [i - gb, "callgsubr"]
                else:
                    prog += _path_op(rnd)
            if hints and rnd.random() < 0.3:
                prog += ["hintmask", bytes(rnd.randrange(256) for _ in range((hints + 7) // 8))]
        if first and name == ".notdef" and rnd.random() < 0.5:
            prog += [rnd.randrange(-50, 50)]
        prog += ["endchar"]
        charstrings[name] = T2CharString(program=prog)
    fb = _fb(1000, False, order)
    fb.setupCFF("VmonC05-CFF", {"FullName": "VmonC05 CFF"}, charstrings, {"nominalWidthX": 500, "defaultWidthX": 450})
    cff = fb.font["CFF "].cff
    top = cff.topDictIndex[0]
    if locals_:
        subrs = SubrsIndex()
        for s in locals_:
            s.private = top.Private
            s.globalSubrs = cff.GlobalSubrs
            subrs.append(s)
        top.Private.Subrs = subrs
    for s in globals_:
        s.private = top.Private
        s.globalSubrs = cff.GlobalSubrs
        cff.GlobalSubrs.append(s)
    metrics = {n: (rnd.randrange(300, 900), 0) for n in order}
    return _finish(fb, metrics)


# ---------------------------------------------------------------- CFF2
def cff2(rnd, hvar=True, nglyphs=16):
    from fontTools.misc.psCharStrings import T2CharString
    from fontTools.cffLib import SubrsIndex
    from fontTools.varLib import builder
    from fontTools.ttLib import newTable
    from fontTools.ttLib.tables import otTables as ot

    naxes = rnd.choice([1, 2, 3])
    axes = _axes(rnd, naxes)
    tags = [a[0] for a in axes]

    def usable(reg):
        for t, (s, p, e) in reg.items():
            a = [x for x in axes if x[0] == t][0]
            if (p > 0 and a[3] == a[2]) or (p < 0 and a[1] == a[2]):
                return False
        return True

    regions = []
    tries = 0
    while len(regions) < rnd.choice([2, 3, 4, 5]) and tries < 60:
        tries += 1
        reg = _region(rnd, tags)
        if usable(reg) and reg not in regions:
            regions.append(reg)
    if not regions:
        t = tags[0]
        a = axes[0]
        regions = [{t: (0.0, 1.0, 1.0)} if a[3] != a[2] else {t: (-1.0, -1.0, 0.0)}]
    nreg = len(regions)
    sub = sorted(rnd.sample(range(nreg), max(1, nreg - 1)))   # second VarData: subset of regions

    order = [".notdef"] + ["g%d" % i for i in range(nglyphs)]

    def blended(vals, nr):
        """v1..vn d.. n blend"""
        out = list(vals)
        for _v in vals:
            out += [rnd.randrange(-60, 61) for _r in range(nr)]
        return out + [len(vals), "blend"]

    def var_op(nr):
        """a path operator whose operands are (partly) blended"""
        toks = _path_op(rnd, rnd.choice(["rlineto", "hlineto", "vlineto", "rrcurveto", "hhcurveto", "vvcurveto",
                                         "hvcurveto", "vhcurveto", "rlinecurve", "rcurveline", "flex", "hflex", "hflex1", "flex1"]))
        op = toks[-1]
        args = [int(a) if float(a).is_integer() else a for a in toks[:-1]]
        if len(args) * (nr + 1) + 1 > 500:
            return args + [op]
        mode = rnd.choice(["all", "each", "tail", "none"])
        if op == "flex1" and abs(sum(args[0:10:2])) == abs(sum(args[1:10:2])):
            # |dx| == |dy| decides which coordinate the last operand is: keep the tie exact (no
            # blended thirds that float32 and double round to different sides)
            mode = "none"
        if mode == "none":
            return args + [op]
        if mode == "all" and len(args) * (nr + 1) < 120:
            return blended(args, nr) + [op]
        if mode == "tail":
            k = rnd.randrange(1, len(args) + 1)
            return args[:-k] + blended(args[-k:], nr) + [op]
        out = []
        for a in args:
            out += blended([a], nr) if rnd.random() < 0.6 else [a]
        return out + [op]

    charstrings = {}
    for name in order:
        prog = []
        vs1 = rnd.random() < 0.35
        nr = len(sub) if vs1 else nreg
        if vs1:
            prog += [1, "vsindex"]
        ncont = 0 if name == ".notdef" else rnd.choice([1, 2, 3])
        for c in range(ncont):
            mv = _moveto(rnd)
            if rnd.random() < 0.7:
                mv = blended(mv[:-1], nr) + mv[-1:]
            prog += mv
            for _ in range(rnd.choice([1, 2, 3])):
                prog += var_op(nr)
                if rnd.random() < 0.15:
                    prog += [0 - 107, "callsubr"]
        charstrings[name] = T2CharString(program=prog)
    fb = _fb(1000, False, order)
    fb.setupNameTable({"familyName": "VmonC05", "styleName": "Regular"})
    fb.setupFvar(axes, [])
    maps = _avar_maps(rnd, axes) if rnd.random() < 0.5 else {}
    if maps:
        _set_avar(fb.font, axes, maps)
    fb.setupCFF2(charstrings, regions=regions)
    top = fb.font["CFF2"].cff.topDictIndex[0]
    store = top.VarStore.otVarStore
    vd2 = builder.buildVarData(sub, None, optimize=False)
    store.VarData.append(vd2)
    store.VarDataCount = len(store.VarData)
    private = top.FDArray[0].Private
    subrs = SubrsIndex()
    s = T2CharString(program=[7, -9, "rlineto", 3, "hlineto"])
    s.private = private
    s.globalSubrs = fb.font["CFF2"].cff.GlobalSubrs
    subrs.append(s)
    private.Subrs = subrs
    metrics = {n: (rnd.randrange(300, 900), 0) for n in order}
    if hvar:
        rl = builder.buildVarRegionList(regions, tags)
        items = [[rnd.randrange(-90, 90) for _r in regions] for _g in order]
        vd = builder.buildVarData(list(range(nreg)), items, optimize=False)
        t = newTable("HVAR")
        t.table = ot.HVAR()
        t.table.Version = 0x00010000
        t.table.VarStore = builder.buildVarStore(rl, [vd])
        t.table.AdvWidthMap = t.table.LsbMap = t.table.RsbMap = None
        fb.font["HVAR"] = t
    return _finish(fb, metrics)


BUILDERS = {"ttcomp": ttcomp, "ttvar": ttvar, "cffops": cffops, "cff2": cff2}


def build(kind, rnd, **params):
    return BUILDERS[kind](rnd, **params)
