"""Generators of TrueType glyph contents for C02 (plain values).

simple glyph   : {"kind": "simple", "contours": [[(x, y, on)]], "overlap": bool, "cubic": bool,
                  "instructions": bytes}
composite glyph: {"kind": "composite", "components": [{"glyph": index of an earlier glyph, "x", "y" | "firstPt",
                  "secondPt", "transform": None | ((xx, xy), (yx, yy)) floats, "flags": int}], "instructions": bytes | None}

Contract: coordinates and successive point-to-point differences fit int16 (the format stores deltas);
transform entries lie in [-2, 2 - 2^-14].
"""

SIMPLE_SHAPES = ["small", "short_boundary", "repeat_flags", "extremes", "all_off", "single_points", "many_contours",
                 "overlap", "instructions", "same_x", "same_y", "long_vectors", "floats", "mixed_repeat", "cubic"]
COMPOSITE_SHAPES = ["offset_bytes", "offset_words", "offset_boundary", "anchor_bytes", "anchor_words", "scale",
                    "xy_scale", "two_by_two", "scale_rounding", "identity_scale", "flags", "instructions", "nested",
                    "many_components"]

_INSTR = [b"", b"\xb0\x00\x21", b"\xb0\x05\xb0\x07\x60\x21", b"\x4f" * 7, bytes(range(64, 96))]


def _clamp(v, lo=-16383, hi=16383):
    return max(lo, min(hi, v))


def gen_simple(rnd, shape):
    contours = []
    overlap = shape == "overlap" or rnd.random() < 0.05
    cubic = shape == "cubic"
    instr = rnd.choice(_INSTR) if shape != "instructions" else bytes(rnd.randrange(256) for _ in range(rnd.choice([1, 2, 255, 256, 1000])))

    def walk(n, steps_x, steps_y, p_on=0.7, start=None):
        x, y = start if start else (rnd.choice([0, 100, -300]), rnd.choice([0, 50, -20]))
        c = []
        for _ in range(n):
            x = _clamp(x + rnd.choice(steps_x))
            y = _clamp(y + rnd.choice(steps_y))
            c.append((x, y, rnd.random() < p_on))
        return c

    if shape in ("small", "overlap", "instructions", "cubic"):
        for _ in range(rnd.randint(1, 3)):
            contours.append(walk(rnd.randint(1, 30), [0, 1, -1, 5, -7, 30, 100, -100], [0, 2, -2, 10, -40, 100]))
        if cubic:
            # glyf v1 cubic off-curve points come in pairs between on-curve points
            c = []
            x = y = 0
            for _ in range(rnd.randint(1, 5)):
                for on in (True, False, False):
                    x += rnd.randint(-50, 80)
                    y += rnd.randint(-50, 80)
                    c.append((x, y, on))
            contours = [c]
    elif shape == "short_boundary":
        b = [0, 1, -1, 254, 255, 256, 257, -254, -255, -256, -257]
        for _ in range(rnd.randint(1, 3)):
            contours.append(walk(rnd.randint(2, 60), b, b, start=(0, 0)))
    elif shape == "repeat_flags":
        # long runs with identical flags: constant delta and constant on/off
        n = rnd.choice([2, 3, 255, 256, 257, 258, 511, 512, 513, 514, 1000])
        dx, dy = rnd.choice([(1, 0), (0, 1), (2, -1), (0, 0), (-3, 3), (300, 0)])
        on = rnd.random() < 0.8
        x = y = 0
        c = []
        lim = 16000 // max(1, n) if max(abs(dx), abs(dy)) > 1 else None
        if lim is not None and lim < max(abs(dx), abs(dy)):
            dx, dy = (1 if dx else 0), (1 if dy else 0)
        for _ in range(n):
            x, y = x + dx, y + dy
            c.append((x, y, on))
        contours.append(c)
        if rnd.random() < 0.5:
            contours.append(walk(rnd.randint(1, 5), [3, -9], [0, 4]))
    elif shape == "mixed_repeat":
        c = []
        x = y = 0
        for _ in range(rnd.randint(2, 12)):
            dx, dy, on = rnd.choice([0, 1, 300, -1]), rnd.choice([0, 2, -300]), rnd.random() < 0.5
            for _k in range(rnd.choice([1, 2, 3, 40, 256])):
                x, y = _clamp(x + dx), _clamp(y + dy)
                c.append((x, y, on))
        contours.append(c)
    elif shape == "extremes":
        kind = rnd.randrange(4)
        if kind == 0:
            contours.append([(-32768, 0, True), (-1, 32767, True), (32766, 0, True), (32767, -1, True)])
        elif kind == 1:
            contours.append([(16383, 16383, True), (-16383, -16383, False), (16383, -16383, True), (-16384, 16383, True)])
        elif kind == 2:
            contours.append([(0, -32768, True), (0, -1, False), (0, 32766, True)])
            contours.append([(32767, 32767, True), (0, 0, True), (-32767, -32767, True)])
        else:
            contours.append([(32767, 32767, True)])
            contours.append([(0, 0, True), (-32768, -32768, True)])
    elif shape == "all_off":
        contours.append(walk(rnd.randint(2, 12), [10, -30, 100], [20, -15, 60], p_on=0.0))
        if rnd.random() < 0.5:
            contours.append(walk(rnd.randint(3, 6), [10, -30], [20, -15]))
    elif shape == "single_points":
        for _ in range(rnd.randint(1, 6)):
            contours.append(walk(1, [0, 100, -100, 1000], [0, 7, -500]))
    elif shape == "many_contours":
        for _ in range(rnd.choice([20, 100, 300])):
            contours.append(walk(rnd.randint(1, 4), [0, 10, -10, 200], [0, 10, -10, -200]))
    elif shape == "same_x":
        contours.append(walk(rnd.randint(2, 40), [0], [1, -1, 300, -300, 0]))
    elif shape == "same_y":
        contours.append(walk(rnd.randint(2, 40), [1, -1, 300, -300, 0], [0]))
    elif shape == "long_vectors":
        contours.append(walk(rnd.randint(2, 40), [256, -256, 1000, -1000, 5000, -5000], [300, -300, 4000, -4000]))
    elif shape == "floats":
        c = []
        for _ in range(rnd.randint(2, 12)):
            c.append((rnd.choice([0.5, 1.5, 2.5, -0.5, -1.5, 10.49, 10.51, 300.5]) + rnd.randint(-50, 50),
                      rnd.choice([0.5, -2.5, 3.49, 7.0]) + rnd.randint(-50, 50), rnd.random() < 0.7))
        contours.append(c)
    else:
        raise ValueError(shape)
    return {"kind": "simple", "contours": contours, "overlap": overlap, "cubic": cubic, "instructions": instr}


F = 16384.0


def _q(v):
    return v / F


def gen_composite(rnd, shape, nbase, point_counts):
    """`nbase`: number of earlier glyphs that can be referenced (indices 1..nbase); `point_counts[i]`
    number of points of glyph i (for anchor-point components)."""
    comps = []
    ncomp = rnd.randint(1, 3) if shape != "many_components" else rnd.choice([10, 40])
    if shape in ("anchor_bytes", "anchor_words"):
        ncomp = rnd.randint(2, 3)
    flags_pool = [0, 0x4, 0x200, 0x4 | 0x200]
    for k in range(ncomp):
        gi = rnd.randint(1, nbase)
        c = {"glyph": gi, "transform": None, "flags": rnd.choice(flags_pool)}
        if shape == "anchor_words" and k == 0:
            gi = c["glyph"] = nbase if point_counts[nbase] > 256 else gi     # a parent with more than 256 points
        if shape in ("anchor_bytes", "anchor_words") and k > 0 and point_counts[gi] > 0:
            parent_pts = sum(point_counts[cc["glyph"]] for cc in comps)
            if parent_pts > 0:
                c["firstPt"] = rnd.randrange(parent_pts)
                if shape == "anchor_words" and parent_pts > 256:
                    c["firstPt"] = rnd.randrange(256, parent_pts)
                c["secondPt"] = rnd.randrange(point_counts[gi])
        if "firstPt" not in c:
            if shape == "offset_bytes":
                c["x"], c["y"] = rnd.randint(-128, 127), rnd.randint(-128, 127)
            elif shape == "offset_boundary":
                c["x"], c["y"] = rnd.choice([-129, -128, 127, 128, 0]), rnd.choice([-129, -128, 127, 128, 0])
            elif shape == "offset_words":
                # composed coordinates must still fit int16 (base glyphs stay within +-12000 after transformation)
                c["x"], c["y"] = rnd.choice([-16000, 16000, 1000, -1000, 128]), rnd.choice([-16000, 16000, 300, -129])
            else:
                c["x"], c["y"] = rnd.randint(-300, 300), rnd.randint(-300, 300)
        if shape == "scale":
            s = _q(rnd.choice([8192, -8192, 16384 + 4096, 32767, -32768, 1, rnd.randint(-32768, 32767)]))
            c["transform"] = ((s, 0.0), (0.0, s))
        elif shape == "xy_scale":
            c["transform"] = ((_q(rnd.randint(-32768, 32767)), 0.0), (0.0, _q(rnd.randint(-32768, 32767))))
        elif shape == "two_by_two":
            c["transform"] = ((_q(rnd.randint(-32768, 32767)), _q(rnd.choice([1, -1, rnd.randint(-32768, 32767)]))),
                              (_q(rnd.randint(-32768, 32767)), _q(rnd.randint(-32768, 32767))))
        elif shape == "scale_rounding":
            # values that are not multiples of 2^-14: the compiler rounds to nearest (ties up)
            v = rnd.choice([0.3, 1.0 / 3, -0.7, 0.1, 1.99996, -1.99997, 0.5 + 0.5 / F, 0.5 - 0.5 / F, 1.5 / F, -1.5 / F, 0.5 / F])
            kind = rnd.randrange(3)
            if kind == 0:
                c["transform"] = ((v, 0.0), (0.0, v))
            elif kind == 1:
                c["transform"] = ((v, 0.0), (0.0, rnd.choice([0.3, -0.25, v])))
            else:
                c["transform"] = ((v, rnd.choice([0.00001, 0.2, -0.31])), (rnd.choice([0.0, 0.00002, 0.77]), v))
        elif shape == "identity_scale":
            c["transform"] = ((1.0, 0.0), (0.0, 1.0))
        elif shape == "flags":
            c["flags"] = rnd.choice([0x4, 0x200, 0x800, 0x1000, 0x10, 0x400, 0x4 | 0x200 | 0x1000 | 0x10 | 0x400])
            if rnd.random() < 0.5:
                c["transform"] = ((0.5, 0.0), (0.0, 0.5))
        comps.append(c)
    instr = None
    if shape == "instructions" or rnd.random() < 0.1:
        instr = rnd.choice(_INSTR[1:] + [b""])
    return {"kind": "composite", "components": comps, "instructions": instr}
