"""Multi-session histories of one glyph directory (C19, 'histories' quantifier).

A GlyphSet is written, closed and REOPENED on the same directory several times; in
every session glyphs are added, overwritten, renamed (write under a new name + delete)
and deleted.  New user names are chosen so that they equal - ignoring case - the *file
names* that earlier sessions generated ('A' -> 'A_.glif', later a glyph called 'a_').

The invariant is checked on the directory itself, independently of GlyphSet internals,
after every session: the *.glif names on disk and in contents.plist (read with the
standard library) are legal, at most 255 characters, pairwise different ignoring case,
map one-to-one to the glyph names written so far, and every file carries the glyph that
was written under that name (checked with the standard library's XML parser and by
reading the glyph back through a fresh GlyphSet).
"""
import os
import plistlib as stdpl
import xml.etree.ElementTree as SET

from vmon.gen import c19_gen as G
from vmon.gen import c19_state as st
from vmon.gen.c19_ufodrv import Bag, xml_ok
from vmon.oracle import c19_model as md


def _usable(n):
    if not n or not isinstance(n, str) or not xml_ok(n) or "\r" in n:
        return False
    # names on which str.lower() and one-to-one case folding disagree (final sigma, long s, dotted I) belong to the
    # known finding 'clash-casefold-only' and are exercised by the name-sequence cases; keep them out of the histories
    if n.lower() != md.fold(n):
        return False
    # the sandbox file system limits names to 255 *bytes*; every capital may add a '_'
    return len(n.encode("utf-8")) * 2 + 6 <= 255


def _echoes(filename, rnd):
    """user names that equal, ignoring case, a file name issued earlier"""
    base = filename[:-5] if filename.endswith(".glif") else filename
    return [base.lower(), base, base.upper(), base.lower() + "_", base.swapcase(), base.lower()[:-1] if len(base) > 1 else base]


def _glyph(width, uni):
    b = Bag()
    b.width = width
    b.unicodes = [uni]
    return b


def _check_dir(path, expected, session, history):
    """-> list of (problem class, detail)"""
    probs = []
    on_disk = sorted(n for n in os.listdir(path) if n.endswith(".glif"))
    folded = {}
    for n in on_disk:
        p = md.name_problem(n)
        if p:
            probs.append((p, n))
        folded.setdefault(md.fold(n), []).append(n)
    for k, group in sorted(folded.items()):
        if len(group) > 1:
            probs.append(("duplicate-ignoring-case", repr(sorted(group))))
    try:
        with open(os.path.join(path, "contents.plist"), "rb") as f:
            contents = stdpl.loads(f.read())
    except Exception as e:       # noqa: BLE001
        probs.append(("contents-unreadable", repr(e)))
        return probs
    if set(contents) != set(expected):
        probs.append(("contents-glyph-names", "missing %r extra %r" % (sorted(set(expected) - set(contents))[:5],
                                                                       sorted(set(contents) - set(expected))[:5])))
    byfile = {}
    for g, fn in contents.items():
        byfile.setdefault(md.fold(fn), []).append(g)
    for k, group in sorted(byfile.items()):
        if len(group) > 1:
            probs.append(("contents-duplicate-ignoring-case", "%r -> %r" % (sorted(group), sorted(contents[g] for g in group))))
    if sorted(contents.values()) != on_disk and not any(p[0].startswith("contents-dup") for p in probs):
        probs.append(("contents-vs-directory", "listed %r, on disk %r" % (sorted(contents.values())[:6], on_disk[:6])))
    for g, (width, uni) in expected.items():
        fn = contents.get(g)
        if fn is None or not os.path.exists(os.path.join(path, fn)):
            continue
        try:
            root = SET.parse(os.path.join(path, fn)).getroot()
        except Exception as e:       # noqa: BLE001
            probs.append(("glif-unparsable", "%r: %r" % (fn, e)))
            continue
        adv = root.find("advance")
        w = float(adv.get("width", "0")) if adv is not None else 0.0
        if root.get("name") != g or w != float(width):
            probs.append(("file-holds-another-glyph", "%r in %r: name %r width %r, wrote width %r" % (g, fn, root.get("name"), w, width)))
    return probs


def drv_sessions(case, rnd, ctx, scratch):
    from fontTools.ufoLib.glifLib import GlyphSet
    for rep in range(case["n"]):
        path = os.path.join(scratch, "glyphs-%d" % rep)
        os.makedirs(path, exist_ok=True)
        expected = {}      # glyph name -> (width, unicode)
        history = []
        counter = 0
        pool = []
        for k in rnd.sample(["case", "generated-echo", "counter", "reserved", "mixed", "unicode", "odd"], 3):
            pool += [n for n in G.name_sequence(rnd, k, 12) if _usable(n)]
        if not pool:
            pool = ["A", "a_"]
        nsessions = rnd.choice([2, 2, 3, 4])
        echo_used = 0
        bad = False
        for s in range(nsessions):
            with ctx.lib("GlyphSet(reopen)"):
                gs = GlyphSet(path)
            ops = []
            files_before = dict(gs.contents)
            for _ in range(rnd.choice([2, 3, 5, 8])):
                r = rnd.random()
                if r < 0.45 and files_before:
                    # a new glyph named like the file of a glyph written in an EARLIER session
                    fn = rnd.choice(sorted(files_before.values()))
                    name = rnd.choice(_echoes(fn, rnd))
                    if not _usable(name):
                        continue
                    if name not in expected:
                        echo_used += 1
                    op = "write"
                elif r < 0.70 or not expected:
                    name = rnd.choice(pool)
                    op = "write"
                elif r < 0.80:
                    name = rnd.choice(sorted(expected))
                    op = "write"           # overwrite: must reuse its file
                elif r < 0.90:
                    name = rnd.choice(sorted(expected))
                    op = "delete"
                else:
                    name = rnd.choice(sorted(expected))
                    op = "rename"
                if op == "write":
                    counter += 1
                    with ctx.lib("GlyphSet.writeGlyph"):
                        gs.writeGlyph(name, _glyph(100 + counter, 0xE000 + counter), None)
                    expected[name] = (100 + counter, 0xE000 + counter)
                elif op == "delete":
                    with ctx.lib("GlyphSet.deleteGlyph"):
                        gs.deleteGlyph(name)
                    del expected[name]
                else:
                    new = rnd.choice(pool + _echoes(gs.contents[name], rnd))
                    if not _usable(new) or new in expected:
                        continue
                    counter += 1
                    with ctx.lib("GlyphSet.writeGlyph"):
                        gs.writeGlyph(new, _glyph(100 + counter, 0xE000 + counter), None)
                    with ctx.lib("GlyphSet.deleteGlyph"):
                        gs.deleteGlyph(name)
                    expected[new] = (100 + counter, 0xE000 + counter)
                    del expected[name]
                    name = "%s->%s" % (name, new)
                ops.append((op, name))
                if rnd.random() < 0.15:
                    with ctx.lib("GlyphSet.writeContents"):
                        gs.writeContents()
            with ctx.lib("GlyphSet.writeContents"):
                gs.writeContents()
            with ctx.lib("GlyphSet.close"):
                gs.close()
            history.append(ops)
            st.judged()
            probs = _check_dir(path, expected, s, history)
            # glyphs must read back through a fresh GlyphSet
            with ctx.lib("GlyphSet(read back)"):
                rs = GlyphSet(path)
            for g, (width, uni) in expected.items():
                if g not in rs.contents:
                    continue
                o = Bag()
                with ctx.lib("GlyphSet.readGlyph"):
                    rs.readGlyph(g, o)
                if getattr(o, "width", 0) != width or list(getattr(o, "unicodes", [])) != [uni]:
                    probs.append(("glyph-read-back-differs", "%r: width %r unicodes %r, wrote %r / %r"
                                  % (g, getattr(o, "width", None), getattr(o, "unicodes", None), width, uni)))
            rs.close()
            seen = set()
            for p, detail in probs:
                if p in seen:
                    continue
                seen.add(p)
                bad = True
                st.bad({"kind": "filename", "module": "glifLib.GlyphSet", "func": "sessions", "problem": p},
                       "glyph directory after session %d of %d: %s: %s" % (s + 1, nsessions, p, detail[:300]),
                       history=history, contents=sorted(expected)[:40])
            if bad:
                break
        if not bad:
            st.key("sessions/%d/%s" % (nsessions, "echo" if echo_used else "plain"))
            st.note("sessions/histories")
            st.note("sessions/echo-names", echo_used)
    ctx.sample = {"case": case["id"], "histories": case["n"], "evaluations": st.S["n"]}
