"""Type 1 font files with every legal /lenIV, written from the Adobe Type 1 Font Format (ch. 7) without the
library: the repository's test fonts are taken apart with the spec cipher (vmon.oracle.codecs), the charstrings
re-encrypted with the chosen number of lead bytes and a `/lenIV n def` placed in the Private dictionary, and the
eexec section re-encrypted.  The same spec-level reader is the reference decoder for what the library writes."""
import re

from vmon.oracle import codecs as C

EEXEC_KEY, CS_KEY = 55665, 4330


def split(data):
    """font program bytes (binary eexec) -> (clear head incl. 'currentfile eexec ', plain eexec text, trailer)"""
    i = data.index(b"currentfile eexec") + len(b"currentfile eexec")
    while data[i:i + 1] in (b" ", b"\t", b"\r", b"\n"):
        i += 1
    body = data[i:]
    # trailer: zeros (nominally 512, any layout) + cleartomark follow the encrypted section
    k = body.rfind(b"cleartomark")
    if k < 0:
        k = len(body)
    j = k
    while j > 0 and body[j - 1:j] in (b"0", b" ", b"\t", b"\r", b"\n", b"\x0b", b"\x0c", b"\x00"):
        j -= 1
    ishex = len(body) > 8 and re.fullmatch(rb"[0-9A-Fa-f\s]+", body[:min(j, 256)]) is not None
    plain = None
    for give in range(0, min(k - j, 600) + 1):
        # cipher bytes may themselves be '0' or white space: hand bytes back until the plain text ends properly
        enc = body[:j + give]
        if ishex:
            hx = re.sub(rb"\s+", b"", enc)
            if len(hx) % 2:
                continue
            enc = bytes.fromhex(hx.decode("ascii"))
        cand = C.eexec_decrypt(enc, EEXEC_KEY)[0][4:]
        if cand.rstrip().endswith(b"closefile"):
            plain, j = cand, j + give
            break
    if plain is None:
        raise ValueError("cannot delimit the eexec section")
    tail = body[j:]
    return data[:i], plain, tail


_RD = rb"(?:RD|-\|)"


def charstrings(plain):
    """plain eexec text -> (lenIV, [(name, plain charstring)], [plain subr], spans) reading the binary strings by
    their declared lengths"""
    m = re.search(rb"/lenIV\s+(-?\d+)\s+def", plain)
    lenIV = int(m.group(1)) if m else 4
    cs_at = plain.index(b"/CharStrings")
    subrs, glyphs, spans = [], [], []
    pos = 0
    pat = re.compile(rb"dup\s+(\d+)\s+(\d+)\s+" + _RD + rb" ")
    sub_at = plain.find(b"/Subrs")
    if 0 <= sub_at < cs_at:
        pos = sub_at
        while True:
            m = pat.search(plain, pos, cs_at)
            if not m:
                break
            n = int(m.group(2))
            enc = plain[m.end():m.end() + n]
            spans.append(("subr", m.start(2), m.end(2), m.end(), m.end() + n))
            subrs.append(C.eexec_decrypt(enc, CS_KEY)[0][lenIV:])
            pos = m.end() + n
    pat = re.compile(rb"/([^\s/\[\]{}()<>%]+)\s+(\d+)\s+" + _RD + rb" ")
    pos = cs_at + len(b"/CharStrings")
    while True:
        m = pat.search(plain, pos)
        if not m:
            break
        n = int(m.group(2))
        enc = plain[m.end():m.end() + n]
        spans.append(("glyph", m.start(2), m.end(2), m.end(), m.end() + n))
        glyphs.append((m.group(1).decode("latin-1"), C.eexec_decrypt(enc, CS_KEY)[0][lenIV:]))
        pos = m.end() + n
    return lenIV, glyphs, subrs, spans


def with_lenIV(data, n, where, rnd):
    """A copy of the font whose charstrings carry n lead bytes; `/lenIV n def` goes right after the Private dict
    opens ('first'), just before /Subrs ('before_subrs') or after the Subrs array ('after_subrs')."""
    head, plain, tail = split(data)
    old, glyphs, subrs, spans = charstrings(plain)
    plains = subrs + [g for _n, g in glyphs]
    out, pos = [], 0
    for (kind, l0, l1, s0, s1), p in zip(spans, plains):
        lead = bytes(rnd.randrange(256) for _ in range(n))
        enc = C.eexec_encrypt(lead + p, CS_KEY)[0]
        out.append(plain[pos:l0])
        out.append(str(len(enc)).encode("ascii"))
        out.append(plain[l1:s0])
        out.append(enc)
        pos = s1
    out.append(plain[pos:])
    new = b"".join(out)
    new = re.sub(rb"/lenIV\s+-?\d+\s+def\s*", b"", new)
    decl = b"/lenIV %d def\n" % n
    if n == 4 and where == "absent":
        pass
    elif where == "after_subrs" and b"/Subrs" in new:
        # the array definition ends with the first ND/|- ("noaccess def") line after the last subr
        k = new.index(b"/CharStrings")
        m = None
        for m in re.finditer(rb"\n(?:ND|\|-|noaccess def|readonly def|def)\s*\n", new[:k]):
            pass
        at = m.end() if m else new.index(b"/Subrs")
        # keep it inside the Private dict: it must come before 'dup /CharStrings' / '2 index /CharStrings'
        at = min(at, new.rfind(b"\n", 0, k) + 1)
        new = new[:at] + decl + new[at:]
    elif where == "before_subrs" and b"/Subrs" in new:
        at = new.index(b"/Subrs")
        new = new[:at] + decl + new[at:]
    else:
        m = re.search(rb"/Private\s+\d+\s+dict\s+dup\s+begin\s*", new)
        at = m.end()
        new = new[:at] + decl + new[at:]
    # Type 1 spec 7.2: the first cipher byte must not be white space and the first four must not all be hex digits
    while True:
        lead4 = bytes(rnd.randrange(256) for _ in range(4))
        c4 = C.eexec_encrypt(lead4, EEXEC_KEY)[0]
        if c4[:1] not in (b" ", b"\t", b"\r", b"\n", b"\x0c", b"\x00") and not re.fullmatch(rb"[0-9A-Fa-f]{4}", c4):
            break
    return head + C.eexec_encrypt(lead4 + new, EEXEC_KEY)[0] + tail
