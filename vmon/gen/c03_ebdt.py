"""Seeded generator of small, spec-conformant EBLC/EBDT table pairs (C03: the corpus has
no EBDT font, yet the bitmap dump formats row/bitwise only exist for EBDT).

Written from the OpenType EBLC/EBDT chapters with struct only.  Layout produced:
one strike per entry of `strikes`; each strike has several index sub-tables covering
consecutive glyph ranges, drawn from
  index format 1 (uint32 offsets)  + image format 1 (small metrics, byte-aligned)
  index format 3 (uint16 offsets)  + image format 2 (small metrics, bit-aligned)
  index format 1                   + image format 6 (big metrics, byte-aligned)
  index format 3                   + image format 7 (big metrics, bit-aligned)
  index format 2 (constant size)   + image format 5 (bit-aligned, metrics in EBLC)
  index format 4 (sparse glyph ids)+ image format 1
  index format 5 (sparse, constant)+ image format 5
"""
import struct


def _small(h, w, rnd):
    return struct.pack(">BBbbB", h, w, rnd.randrange(-3, 4), rnd.randrange(-2, h + 1), w + rnd.randrange(0, 3))


def _big(h, w, rnd):
    return struct.pack(">BBbbBbbB", h, w, rnd.randrange(-3, 4), rnd.randrange(-2, h + 1), w + rnd.randrange(0, 3),
                       rnd.randrange(-3, 4), rnd.randrange(-2, 3), h + rnd.randrange(0, 3))


def _bits(h, w, depth, rnd, byte_aligned):
    rows = []
    for _ in range(h):
        rows.append([rnd.getrandbits(1) if depth == 1 else rnd.randrange(1 << depth) for _ in range(w)])
    if byte_aligned:
        out = bytearray()
        for r in rows:
            acc, n = 0, 0
            for px in r:
                acc = (acc << depth) | px
                n += depth
            pad = (-n) % 8
            acc <<= pad
            out += acc.to_bytes((n + pad) // 8, "big") if n else b""
        return bytes(out)
    acc, n = 0, 0
    for r in rows:
        for px in r:
            acc = (acc << depth) | px
            n += depth
    pad = (-n) % 8
    acc <<= pad
    return acc.to_bytes((n + pad) // 8, "big") if n else b""


def _line_metrics(rnd):
    return struct.pack(">bbBbbbbbbbbb", rnd.randrange(1, 12), -rnd.randrange(0, 5), rnd.randrange(4, 14),
                       1, 0, 0, 0, rnd.randrange(0, 8), 0, 0, 0, 0)


def build(rnd, num_glyphs, strikes=((7, 1), (9, 1))):
    """-> (EBLC bytes, EBDT bytes, description).  Glyphs 1..num_glyphs-1 get bitmaps."""
    ebdt = bytearray(struct.pack(">L", 0x00020000))
    desc = []
    strike_blobs = []          # (bitmapSizeTable-without-offsets fields, index array+subtables blob, n subtables, first, last)
    for ppem, depth in strikes:
        gids = list(range(1, num_glyphs))
        kinds = ["1/1", "3/2", "1/6", "3/7", "2/5", "4/1", "5/5"]
        rnd.shuffle(kinds)
        # split the glyph ids into consecutive ranges, one per kind (as many as fit)
        nk = max(1, min(len(kinds), len(gids) // 2))
        per = len(gids) // nk
        ranges = [gids[i * per:(i + 1) * per] if i < nk - 1 else gids[i * per:] for i in range(nk)]
        subtables = []          # (first, last, bytes)
        for kind, rng in zip(kinds, ranges):
            if not rng:
                continue
            ifmt, imfmt = (int(x) for x in kind.split("/"))
            first, last = rng[0], rng[-1]
            image_off = len(ebdt)
            if ifmt in (1, 3):
                offs = []
                for _g in rng:
                    h, w = rnd.randrange(1, ppem + 1), rnd.randrange(1, ppem + 2)
                    offs.append(len(ebdt) - image_off)
                    met = _small(h, w, rnd) if imfmt in (1, 2) else _big(h, w, rnd)
                    ebdt += met + _bits(h, w, depth, rnd, byte_aligned=imfmt in (1, 6))
                offs.append(len(ebdt) - image_off)
                body = struct.pack(">HHL", ifmt, imfmt, image_off)
                body += struct.pack(">%d%s" % (len(offs), "L" if ifmt == 1 else "H"), *offs)
                if ifmt == 3 and len(offs) % 2:
                    body += b"\0\0"
            elif ifmt == 2:
                h, w = rnd.randrange(2, ppem + 1), rnd.randrange(2, ppem + 1)
                size = (h * w * depth + 7) // 8
                for _g in rng:
                    ebdt += _bits(h, w, depth, rnd, byte_aligned=False)
                body = struct.pack(">HHL", 2, 5, image_off) + struct.pack(">L", size) + _big(h, w, rnd)
            elif ifmt == 4:
                sparse = rng[::2] if len(rng) > 2 else rng
                pairs = []
                for g in sparse:
                    h, w = rnd.randrange(1, ppem + 1), rnd.randrange(1, ppem + 2)
                    pairs.append((g, len(ebdt) - image_off))
                    ebdt += _small(h, w, rnd) + _bits(h, w, depth, rnd, byte_aligned=True)
                pairs.append((0, len(ebdt) - image_off))
                first, last = sparse[0], sparse[-1]
                body = struct.pack(">HHL", 4, 1, image_off) + struct.pack(">L", len(sparse))
                for g, o in pairs:
                    body += struct.pack(">HH", g, o)
            else:  # 5
                sparse = rng[::2] if len(rng) > 2 else rng
                h, w = rnd.randrange(2, ppem + 1), rnd.randrange(2, ppem + 1)
                size = (h * w * depth + 7) // 8
                for _g in sparse:
                    ebdt += _bits(h, w, depth, rnd, byte_aligned=False)
                first, last = sparse[0], sparse[-1]
                body = struct.pack(">HHL", 5, 5, image_off) + struct.pack(">L", size) + _big(h, w, rnd)
                body += struct.pack(">L", len(sparse)) + struct.pack(">%dH" % len(sparse), *sparse)
                if len(sparse) % 2:
                    body += b"\0\0"
            body += b"\0" * ((-len(body)) % 4)
            subtables.append((first, last, body))
            desc.append("ppem%d/depth%d/index%d/image%d/%d glyphs" % (ppem, depth, ifmt, imfmt, len(rng)))
        # indexSubTableArray followed by the sub-tables
        arr = bytearray()
        add = 8 * len(subtables)
        blob = bytearray()
        for first, last, body in subtables:
            arr += struct.pack(">HHL", first, last, add + len(blob))
            blob += body
        strike_blobs.append((ppem, depth, bytes(arr + blob), len(subtables),
                             min(s[0] for s in subtables), max(s[1] for s in subtables)))
    n = len(strike_blobs)
    eblc = bytearray(struct.pack(">LL", 0x00020000, n))
    pos = 8 + 48 * n
    tables = bytearray()
    for ppem, depth, blob, nsub, first, last in strike_blobs:
        eblc += struct.pack(">LLLL", pos + len(tables), len(blob), nsub, 0)
        eblc += _line_metrics(rnd) + _line_metrics(rnd)
        eblc += struct.pack(">HHBBBb", first, last, ppem, ppem, depth, 1)
        tables += blob
    eblc += tables
    return bytes(eblc), bytes(ebdt), desc
