"""Struct-level glyf/loca tools for C01 (written from the OpenType glyf/loca chapters;
independent of fontTools): take a glyf table apart, read composite components, build
composite glyph records carrying every preservable component flag and every transform
form, and put glyf/loca back together."""
import struct

ARG_WORDS, ARGS_XY, ROUND_XY, SCALE, MORE, XY_SCALE, TWO_BY_TWO = 0x1, 0x2, 0x4, 0x8, 0x20, 0x40, 0x80
INSTR, USE_MY_METRICS, OVERLAP_COMPOUND, SCALED_OFFSET, UNSCALED_OFFSET = 0x100, 0x200, 0x400, 0x800, 0x1000
PRESERVED = ROUND_XY | USE_MY_METRICS | OVERLAP_COMPOUND | SCALED_OFFSET | UNSCALED_OFFSET | ARGS_XY


class Bad(Exception):
    pass


def split(tables):
    """-> (list of glyph byte strings, indexToLocFormat)"""
    fmt = struct.unpack(">h", tables["head"][50:52])[0]
    n = struct.unpack(">H", tables["maxp"][4:6])[0]
    loca = tables["loca"]
    if fmt == 0:
        offs = [2 * o for o in struct.unpack(">%dH" % (n + 1), loca[:2 * (n + 1)])]
    elif fmt == 1:
        offs = list(struct.unpack(">%dL" % (n + 1), loca[:4 * (n + 1)]))
    else:
        raise Bad("indexToLocFormat %r" % fmt)
    glyf = tables["glyf"]
    if any(b < a for a, b in zip(offs, offs[1:])) or offs[-1] > len(glyf):
        raise Bad("loca not monotone / out of bounds")
    return [glyf[a:b] for a, b in zip(offs, offs[1:])], fmt


def join(glyphs, fmt):
    """-> (glyf, loca) keeping the given loca format, or None if the short format overflows"""
    offs, out = [0], bytearray()
    for g in glyphs:
        out += g
        out += b"\0" * ((-len(out)) % 4)
        offs.append(len(out))
    if fmt == 0:
        if offs[-1] > 0x1FFFE:
            return None
        loca = struct.pack(">%dH" % len(offs), *[o // 2 for o in offs])
    else:
        loca = struct.pack(">%dL" % len(offs), *offs)
    return bytes(out), loca


def ncontours(g):
    return struct.unpack(">h", g[:2])[0] if len(g) >= 10 else 0


def components(g):
    """Composite glyph record -> [(preserved flags, glyph index, arg1, arg2, (xx, xy, yx, yy) as F2Dot14 ints)]"""
    if ncontours(g) >= 0:
        return None
    pos, out = 10, []
    while True:
        flags, gid = struct.unpack(">HH", g[pos:pos + 4])
        pos += 4
        if flags & ARG_WORDS:
            a1, a2 = struct.unpack(">hh" if flags & ARGS_XY else ">HH", g[pos:pos + 4])
            pos += 4
        else:
            a1, a2 = struct.unpack(">bb" if flags & ARGS_XY else ">BB", g[pos:pos + 2])
            pos += 2
        if flags & SCALE:
            (s,) = struct.unpack(">h", g[pos:pos + 2])
            pos += 2
            m = (s, 0, 0, s)
        elif flags & XY_SCALE:
            sx, sy = struct.unpack(">hh", g[pos:pos + 4])
            pos += 4
            m = (sx, 0, 0, sy)
        elif flags & TWO_BY_TWO:
            m = struct.unpack(">hhhh", g[pos:pos + 8])
            pos += 8
        else:
            m = (0x4000, 0, 0, 0x4000)
        out.append((flags & PRESERVED, gid, a1, a2, tuple(m)))
        if not flags & MORE:
            break
    return out


def make_composite(rnd, simple_gids, bbox=(0, 0, 500, 500)):
    """A composite glyph record whose components carry, between them, every preservable flag
    (SCALED / UNSCALED_COMPONENT_OFFSET never both on one component), byte and word
    arguments, non-zero offsets and each transform form."""
    forms = ["scale", "xy", "2x2", "none", "scale", "2x2"]
    rnd.shuffle(forms)
    k = rnd.randrange(2, 6)
    flagsets = [SCALED_OFFSET | ROUND_XY, UNSCALED_OFFSET | USE_MY_METRICS, SCALED_OFFSET | OVERLAP_COMPOUND,
                ROUND_XY | USE_MY_METRICS | OVERLAP_COMPOUND | SCALED_OFFSET, UNSCALED_OFFSET, 0]
    rnd.shuffle(flagsets)
    if SCALED_OFFSET not in [f & SCALED_OFFSET for f in flagsets[:k]]:
        flagsets[0] = SCALED_OFFSET
    out = bytearray(struct.pack(">hhhhh", -1, *bbox))
    seen_mm = False
    for i in range(k):
        flags = ARGS_XY | flagsets[i]
        if flags & USE_MY_METRICS:
            if seen_mm:
                flags &= ~USE_MY_METRICS
            seen_mm = True
        form = forms[i]
        dx, dy = rnd.choice([(37, -21), (300, 200), (-129, 5), (120, 0), (7, 127), (-1, 1)])
        words = not (-128 <= dx <= 127 and -128 <= dy <= 127) or rnd.random() < 0.3
        if words:
            flags |= ARG_WORDS
        if form == "scale":
            flags |= SCALE
        elif form == "xy":
            flags |= XY_SCALE
        elif form == "2x2":
            flags |= TWO_BY_TWO
        if i < k - 1:
            flags |= MORE
        out += struct.pack(">HH", flags, rnd.choice(simple_gids))
        out += struct.pack(">hh" if words else ">bb", dx, dy)
        if form == "scale":
            out += struct.pack(">h", rnd.choice([0x2000, 0x6000, -0x4000, 0x3333, 0x7FFF]))
        elif form == "xy":
            out += struct.pack(">hh", rnd.choice([0x2000, 0x5000]), rnd.choice([0x6000, -0x2000, 0x4000]))
        elif form == "2x2":
            out += struct.pack(">hhhh", 0x3000, rnd.choice([0x1000, -0x800]), rnd.choice([-0x1000, 0x2000]), 0x3800)
    return bytes(out)
