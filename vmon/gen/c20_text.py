"""Hostile-text generators for C20 clause 3: locate every attribute value / text node of
an XML document (TTX, designspace, GLIF, plist) and every token of a feature file, and
substitute canary payloads.  Pure text processing; no fontTools import."""
import re

TOKEN = "VMONCANARY"

_TAG_RE = re.compile(
    r"<!--.*?-->|<\?.*?\?>|<!\[CDATA\[.*?\]\]>|<![^>]*>|"
    r"<(/?)([A-Za-z_][\w:.\-]*)((?:\s+[A-Za-z_:][\w:.\-]*\s*=\s*(?:\"[^\"]*\"|'[^']*'))*)\s*(/?)>",
    re.S)
_ATTR_RE = re.compile(r"([A-Za-z_:][\w:.\-]*)(\s*=\s*)(\"[^\"]*\"|'[^']*')")


def xml_sites(text, context_depth=1):
    """[(class, start, end, kind)]: class = 'ctx/elem@attr' for attribute values,
    'ctx/elem#text' for non-blank text nodes, where ctx is the ancestor element at
    `context_depth` below the root (the table tag in a TTX file); [start:end) is the raw
    value span in `text` (inside the quotes / the whole text node)."""
    sites = []
    stack = []
    pos = 0

    def ctx():
        return stack[context_depth] if len(stack) > context_depth else ""
    for m in _TAG_RE.finditer(text):
        if m.start() > pos and stack:
            chunk = text[pos:m.start()]
            if chunk.strip():
                lead = len(chunk) - len(chunk.lstrip())
                trail = len(chunk.rstrip())
                sites.append(("%s/%s#text" % (ctx(), stack[-1]), pos + lead, pos + trail, "text"))
        pos = m.end()
        name = m.group(2)
        if name is None:
            continue
        if m.group(1):  # end tag
            if stack:
                stack.pop()
            continue
        attrs = m.group(3) or ""
        base = m.start(3)
        stack.append(name)
        c = ctx()
        for a in _ATTR_RE.finditer(attrs):
            vs = base + a.start(3) + 1
            ve = base + a.end(3) - 1
            sites.append(("%s/%s@%s" % (c, name, a.group(1)), vs, ve, "attr"))
        if m.group(4):
            stack.pop()
    return sites


def xml_escape(s, kind):
    s = s.replace("&", "&amp;").replace("<", "&lt;").replace(">", "&gt;")
    if kind == "attr":
        s = s.replace('"', "&quot;").replace("'", "&apos;")
    return s


def payloads(root, k, uid=""):
    """Canary payloads; every one carries TOKEN so that an `exec` of it is recognisable, and none
    contains white space (some evaluating sites split the value first)."""
    tk = "%s_%s" % (TOKEN, uid) if uid else TOKEN
    d = "%s/%s_%d" % (root, tk, k)
    return [
        ("os.system", "__import__('os').system('touch${IFS}%s_A')" % d),
        ("open-w", "open('%s_B','w')" % d),
        ("subclasses", "().__class__.__base__.__subclasses__()or'%s'" % TOKEN),
        ("nested90", "[" * 90 + "'%s'" % TOKEN + "]" * 90),
        ("pow-bomb", "(9**9**9)or'%s'" % TOKEN),
        ("name", "%s_%d.__class__" % (TOKEN, k)),
        ("path-up", "../../%s_%d_P" % (tk, k)),
        ("path-up4", "../../../../%s_%d_R" % (tk, k)),
        ("path-abs", "%s_Q" % d),
        ("format", "{0.__class__.__init__.__globals__}%s{ext.__class__}" % TOKEN),
    ]


def mutate_xml(text, site, payload):
    cls, s, e, kind = site
    return text[:s] + xml_escape(payload, kind) + text[e:]


def site_classes(sites):
    by = {}
    for st in sites:
        by.setdefault(st[0], []).append(st)
    return by


# ---------------------------------------------------------------- feature files
_FEA_TOKENS = [
    ("string", re.compile(r'"([^"\n]*)"')),
    ("include", re.compile(r"include\s*\(([^)\n]*)\)")),
    ("classname", re.compile(r"@([A-Za-z_][\w.\-]*)")),
    ("escglyph", re.compile(r"\\([A-Za-z_][\w.\-]*)")),
    ("cid", re.compile(r"\\(\d+)")),
    ("number", re.compile(r"(?<![\w.\\@])(-?\d+(?:\.\d+)?)(?![\w.])")),
    ("tag-or-name", re.compile(r"(?<![\w.\\@\"])([A-Za-z_][\w.\-]*)(?![\w.\"])")),
    ("anon-body", re.compile(r"\banon(?:ymous)?\s+\w+\s*\{(.*?)\}", re.S)),
    ("comment", re.compile(r"#([^\n]*)")),
]
_FEA_KEYWORDS = set("""feature lookup table languagesystem script language sub substitute pos position by from
ignore anchor markClass mark base ligature enum enumerate include lookupflag useExtension include_dflt exclude_dflt
anon anonymous name nameid parameters sizemenuname featureNames cvParameters GlyphClassDef Attach LigatureCaretByPos
LigatureCaretByIndex FontRevision MarkAttachmentType UseMarkFilteringSet RightToLeft IgnoreBaseGlyphs IgnoreLigatures
IgnoreMarks NULL rsub reversesub required subtable valueRecordDef anchorDef contourpoint device cursive Ascender
Descender LineGap CaretOffset HorizAxis VertAxis condition conditionset variation elidedfallbackname axis""".split())


def fea_sites(text):
    sites = []
    for cls, rx in _FEA_TOKENS:
        for m in rx.finditer(text):
            if cls == "tag-or-name" and m.group(1) in _FEA_KEYWORDS:
                continue
            sites.append((cls, m.start(1), m.end(1), "fea"))
    return sites


def fea_payloads(root, k, uid=""):
    tk = "%s_%s" % (TOKEN, uid) if uid else TOKEN
    d = "%s/%s_%d" % (root, tk, k)
    return [
        ("os.system", "__import__('os').system('touch${IFS}%s_A')" % d),
        ("open-w", "open('%s_B','w')" % d),
        ("name", "%s_%d.__class__" % (TOKEN, k)),
        ("path-up", "../../%s_%d_P" % (tk, k)),
        ("path-up4", "../../../../%s_%d_R" % (tk, k)),
        ("path-abs", "%s_Q" % d),
        ("nested90", "[" * 90 + TOKEN + "]" * 90),
        ("pow-bomb", "(9**9**9)or(%s)" % TOKEN),
    ]


def mutate_fea(text, site, payload):
    cls, s, e, kind = site
    if cls == "string":
        payload = payload.replace('"', "'")
    return text[:s] + payload + text[e:]
