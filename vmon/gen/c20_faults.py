"""Fault enumerators for C20 clauses 1 and 2 (binary containers)."""
import gzip
import random

from ..oracle import c20_sfnt as S

SMALL = 4096


def trunc_lengths(data, stride=61):
    """Every truncation length for small files; for larger ones every length within the
    header and directories, each table boundary +-1, and a stride over the rest."""
    n = len(data)
    if n <= SMALL:
        return list(range(n))
    r = S.regions(data)
    want = set()
    for a, b in r["dir"]:
        want.update(range(max(0, a - 1), min(n, b + 2)))
    for b in r["bounds"]:
        for d in (-1, 0, 1):
            if 0 <= b + d < n:
                want.add(b + d)
    want.update(range(0, n, stride))
    want.add(n - 1)
    return sorted(want)


def corrupt_sites(data, extra_stride=None):
    """(pos, value) single-byte corruptions of every header and directory byte:
    0x00, 0xFF, bit 7 flipped (values equal to the original are skipped)."""
    r = S.regions(data)
    out = []
    seen = set()
    for a, b in r["dir"]:
        for pos in range(a, min(b, len(data))):
            if pos in seen:
                continue
            seen.add(pos)
            for val in (0x00, 0xFF, data[pos] ^ 0x80):
                if val != data[pos] and (pos, val) not in out[-3:]:
                    out.append((pos, val))
    return out


MAGICS = [b"\x00\x01\x00\x00", b"OTTO", b"true", b"typ1", b"ttcf", b"wOFF", b"wOF2"]


def garbage_zoo(rnd):
    zoo = [("empty", b"")]
    for n in range(1, 12):
        zoo.append(("zeros%d" % n, b"\0" * n))
        zoo.append(("ff%d" % n, b"\xff" * n))
        zoo.append(("rand%d" % n, bytes(rnd.randrange(256) for _ in range(n))))
    for m in MAGICS:
        name = m.decode("latin-1").strip("\0\1") or "0100"
        for n in (0, 1, 4, 8, 12, 40, 44, 48, 96, 400):
            zoo.append(("%s+zeros%d" % (name, n), m + b"\0" * n))
            zoo.append(("%s+ff%d" % (name, n), m + b"\xff" * n))
            zoo.append(("%s+rand%d" % (name, n), m + bytes(rnd.randrange(256) for _ in range(n))))
        # plausible small table counts followed by noise
        for nt in (1, 2, 9):
            if m in (b"wOFF",):
                body = m + b"OTTO" + (64).to_bytes(4, "big") + nt.to_bytes(2, "big") + b"\0" * 30
            elif m == b"wOF2":
                body = m + b"OTTO" + (64).to_bytes(4, "big") + nt.to_bytes(2, "big") + b"\0" * 34
            elif m == b"ttcf":
                body = m + b"\0\1\0\0" + nt.to_bytes(4, "big")
            else:
                body = m + nt.to_bytes(2, "big") + b"\0" * 6
            zoo.append(("%s:n=%d" % (name, nt), body))
            zoo.append(("%s:n=%d+rand" % (name, nt), body + bytes(rnd.randrange(256) for _ in range(60))))
    zoo += [
        ("text", b"hello world, this is not a font\n" * 3),
        ("xml", b'<?xml version="1.0" encoding="UTF-8"?>\n<ttFont sfntVersion="OTTO"></ttFont>\n'),
        ("ttx-ish", b'<?xml version="1.0"?><ttFont><head/></ttFont>'),
        ("gzip", gzip.compress(b"OTTO" + b"\0" * 100, mtime=0)),
        ("png", b"\x89PNG\r\n\x1a\n" + b"\0" * 40),
        ("pdf", b"%PDF-1.4\n" + b"x" * 50),
        ("pfb", b"\x80\x01" + b"\x10\0\0\0" + b"%!PS-AdobeFont-1.0"),
        ("ps", b"%!PS-AdobeFont-1.0: Foo 1.0\n"),
        ("rand1k", bytes(rnd.randrange(256) for _ in range(1024))),
        ("utf16", "not a font".encode("utf-16")),
    ]
    return zoo


def payload_damages(data, rnd, short=(4, 8, 10, 13)):
    """(name, bytes) damaged versions of one table payload; `short` are extra truncation lengths near the
    sizes of the fixed headers that writers and readers poke into (head.checkSumAdjustment at 8..12, ...)."""
    n = len(data)
    out = []
    for name, cut in (("trunc0", 0), ("trunc1", 1), ("trunc-half", n // 2), ("trunc-last", n - 1)):
        if 0 <= cut < n:
            out.append((name, data[:cut]))
    for cut in short:
        if 1 < cut < n - 1 and cut != n // 2:
            out.append(("trunc%d" % cut, data[:cut]))
    if n:
        b = bytearray(data)
        for _ in range(8):
            b[rnd.randrange(n)] ^= 1 << rnd.randrange(8)
        out.append(("bitflips8", bytes(b)))
        out.append(("random", bytes(rnd.randrange(256) for _ in range(n))))
    seen, uniq = {bytes(data)}, []
    for name, d in out:
        if d not in seen:
            seen.add(d)
            uniq.append((name, d))
    return uniq


# (offset, size) of the length / offset / count fields of each container header
_FIELDS = {
    "sfnt": [(4, 2)],
    "ttc": [(4, 4), (8, 4)],
    "woff": [(8, 4), (12, 2), (16, 4), (24, 4), (28, 4), (32, 4), (36, 4), (40, 4)],
    "woff2": [(8, 4), (12, 2), (16, 4), (20, 4), (28, 4), (32, 4), (36, 4), (40, 4), (44, 4)],
}


def field_corruptions(data, max_entries=6):
    """(offset, replacement bytes, description): every count/length/offset field of the header, and of the
    first directory entries, set to boundary values (0, 1, 4, size-1, size, size+1, 0x7FFF.., 0xFFFF..)."""
    r = S.regions(data)
    c = r["container"]
    n = len(data)
    fields = list(_FIELDS[c])
    if c == "sfnt":
        nt = int.from_bytes(data[4:6], "big")
        for i in range(min(nt, max_entries)):
            fields += [(12 + 16 * i + 8, 4), (12 + 16 * i + 12, 4)]
    elif c == "ttc":
        nf = int.from_bytes(data[8:12], "big")
        for i in range(min(nf, max_entries)):
            fields.append((12 + 4 * i, 4))
        for a, b in r["dir"][1:2]:
            fields += [(a + 4, 2), (a + 12 + 8, 4), (a + 12 + 12, 4)]
    elif c == "woff":
        nt = int.from_bytes(data[12:14], "big")
        for i in range(min(nt, max_entries)):
            fields += [(44 + 20 * i + 4, 4), (44 + 20 * i + 8, 4), (44 + 20 * i + 12, 4)]
    out = []
    for off, size in fields:
        if off + size > n:
            continue
        cur = int.from_bytes(data[off:off + size], "big")
        top = (1 << (8 * size)) - 1
        for v in (0, 1, 4, n - 1, n, n + 1, cur + 1, max(cur - 1, 0), top >> 1, top):
            v &= top
            if v != cur:
                out.append((off, v.to_bytes(size, "big"), "field@%d(%d bytes):=%d" % (off, size, v)))
    seen, uniq = set(), []
    for o in out:
        if (o[0], o[1]) not in seen:
            seen.add((o[0], o[1]))
            uniq.append(o)
    return uniq
