"""Generators of COLR contents (C02).

v0: {base gid: [(layer gid, palette index)]}
v1: {base gid: paint}; a paint is a dict in colorLib's own input form with integer glyph ids under
    "Glyph" (the driver substitutes glyph names).  The trees are generated in the normal form that
    unbuildColrV1 returns: PaintColrLayers has >= 2 layers and is never a direct child of
    PaintColrLayers; every number is exactly representable in its binary field (F2Dot14 for alpha,
    stop offsets, scales and angles/180; Fixed 16.16 for matrices; int16 for coordinates).
"""

V0_SHAPES = ["single_layer", "few", "many_layers", "shared_layers", "foreground", "no_layers", "all_without_layers", "many_bases"]
V1_SHAPES = ["solid", "gradients", "transforms", "around_center", "rotate_skew", "composite", "colrglyph", "deep", "reuse", "reuse_many",
             "many_layers_256", "mixed_v0_v1", "clipboxes"]

F14 = 16384.0


def gen_v0(rnd, shape, n, npal):
    out = {}
    nb = {"many_bases": rnd.randint(20, 60)}.get(shape, rnd.randint(1, 5))
    bases = rnd.sample(range(1, n), min(nb, n - 1))
    shared = [(rnd.randrange(1, n), rnd.randrange(npal)) for _ in range(rnd.randint(2, 4))]
    for b in bases:
        if shape == "all_without_layers" or (shape == "no_layers" and rnd.random() < 0.5):
            out[b] = []
            continue
        k = {"single_layer": 1, "many_layers": rnd.choice([50, 300])}.get(shape, rnd.randint(1, 6))
        if shape == "shared_layers":
            layers = list(shared)
        else:
            layers = [(rnd.randrange(1, n), rnd.randrange(npal)) for _ in range(k)]
        if shape == "foreground":
            layers[rnd.randrange(len(layers))] = (rnd.randrange(1, n), 0xFFFF)
        out[b] = layers
    return out


def _alpha(rnd):
    return rnd.choice([1.0, 0.5, 0.25, 0.0, 1 / F14, 16383 / F14, rnd.randrange(16385) / F14])


def _solid(rnd, npal):
    return {"Format": 2, "PaletteIndex": rnd.choice([0, npal - 1, rnd.randrange(npal), 0xFFFF]), "Alpha": _alpha(rnd)}


def _colorline(rnd, npal):
    k = rnd.randint(2, 4)
    offs = sorted(rnd.sample(range(0, 16385), k))
    if rnd.random() < 0.3:
        offs = [0] + offs[1:-1] + [16384]
    return {"Extend": rnd.choice(["pad", "repeat", "reflect"]),
            "ColorStop": [{"StopOffset": o / F14, "PaletteIndex": rnd.randrange(npal), "Alpha": _alpha(rnd)} for o in offs]}


def _coord(rnd):
    return rnd.choice([0, 1, -1, 100, -250, 1000, 32767, -32768, rnd.randint(-2000, 2000)])


def _fill(rnd, npal, kinds):
    k = rnd.choice(kinds)
    if k == "solid":
        return _solid(rnd, npal)
    if k == "linear":
        return {"Format": 4, "ColorLine": _colorline(rnd, npal), "x0": _coord(rnd), "y0": _coord(rnd), "x1": _coord(rnd), "y1": _coord(rnd),
                "x2": _coord(rnd), "y2": _coord(rnd)}
    if k == "radial":
        return {"Format": 6, "ColorLine": _colorline(rnd, npal), "x0": _coord(rnd), "y0": _coord(rnd), "r0": rnd.choice([0, 10, 65535, 300]),
                "x1": _coord(rnd), "y1": _coord(rnd), "r1": rnd.choice([0, 50, 1000, 65535])}
    return {"Format": 8, "ColorLine": _colorline(rnd, npal), "centerX": _coord(rnd), "centerY": _coord(rnd),
            "startAngle": rnd.choice([0.0, 45.0, 90.0, -180.0, 179.989013671875, rnd.randrange(-16384, 16384) * 180 / F14]),
            "endAngle": rnd.choice([135.0, 90.0, -90.0, rnd.randrange(-16384, 16384) * 180 / F14])}


def _fixed(rnd):
    return rnd.choice([1.0, 0.0, -1.0, 0.5, 2.0, -13.0, 1 / 65536, rnd.randrange(-3 * 65536, 3 * 65536) / 65536])


def _scale(rnd):
    return rnd.choice([1.0, 0.5, -1.0, 1.5, 1 / F14, rnd.randrange(-32768, 32768) / F14])


def _angle(rnd):
    return rnd.choice([0.0, 45.0, 90.0, -90.0, 22.5, rnd.randrange(-16384, 16384) * 180 / F14])


def _skew(rnd):
    return rnd.choice([0.0, 11.25, -22.5, rnd.randrange(-5000, 5000) * 180 / F14])


def _wrap_transform(rnd, child, kinds):
    k = rnd.choice(kinds)
    if k == "transform":
        return {"Format": 12, "Paint": child, "Transform": {"xx": _fixed(rnd), "yx": _fixed(rnd), "xy": _fixed(rnd), "yy": _fixed(rnd),
                                                          "dx": _fixed(rnd) * 100, "dy": _fixed(rnd) * 100}}
    if k == "translate":
        return {"Format": 14, "Paint": child, "dx": _coord(rnd), "dy": _coord(rnd)}
    if k == "scale":
        return {"Format": 16, "Paint": child, "scaleX": _scale(rnd), "scaleY": _scale(rnd)}
    if k == "scale_center":
        return {"Format": 18, "Paint": child, "scaleX": _scale(rnd), "scaleY": _scale(rnd), "centerX": _coord(rnd), "centerY": _coord(rnd)}
    if k == "scale_uniform":
        return {"Format": 20, "Paint": child, "scale": _scale(rnd)}
    if k == "scale_uniform_center":
        return {"Format": 22, "Paint": child, "scale": _scale(rnd), "centerX": _coord(rnd), "centerY": _coord(rnd)}
    if k == "rotate":
        return {"Format": 24, "Paint": child, "angle": _angle(rnd)}
    if k == "rotate_center":
        return {"Format": 26, "Paint": child, "angle": _angle(rnd), "centerX": _coord(rnd), "centerY": _coord(rnd)}
    if k == "skew":
        return {"Format": 28, "Paint": child, "xSkewAngle": _skew(rnd), "ySkewAngle": _skew(rnd)}
    return {"Format": 30, "Paint": child, "xSkewAngle": _skew(rnd), "ySkewAngle": _skew(rnd), "centerX": _coord(rnd), "centerY": _coord(rnd)}


_TR = {"transforms": ["transform", "translate", "scale", "scale_uniform"],
       "around_center": ["scale_center", "scale_uniform_center"],
       "rotate_skew": ["rotate", "rotate_center", "skew", "skew_center"]}
_ALL_TR = sum(_TR.values(), [])
COMPOSITE_MODES = ["clear", "src", "dest", "src_over", "dest_over", "src_in", "dest_in", "src_out", "dest_out", "src_atop", "dest_atop",
                   "xor", "plus", "screen", "overlay", "darken", "lighten", "color_dodge", "color_burn", "hard_light", "soft_light",
                   "difference", "exclusion", "multiply", "hsl_hue", "hsl_saturation", "hsl_color", "hsl_luminosity"]


def _glyph_paint(rnd, n, npal, fills):
    return {"Format": 10, "Glyph": rnd.randrange(1, n), "Paint": _fill(rnd, npal, fills)}


def _tree(rnd, shape, n, npal, depth, bases_done, in_layers=False):
    fills = {"solid": ["solid"], "gradients": ["linear", "radial", "sweep"]}.get(shape, ["solid", "linear", "radial", "sweep"])
    tr = _TR.get(shape, _ALL_TR if shape in ("deep", "composite") else ["translate", "scale"])
    r = rnd.random()
    if depth <= 0 or r < 0.35:
        return _glyph_paint(rnd, n, npal, fills)
    if r < 0.55 and not in_layers:
        k = rnd.randint(2, 5)
        return {"Format": 1, "Layers": [_tree(rnd, shape, n, npal, depth - 1, bases_done, True) for _ in range(k)]}
    if r < 0.8 or shape in _TR:
        return _wrap_transform(rnd, _tree(rnd, shape, n, npal, depth - 1, bases_done), tr)
    if shape in ("composite", "deep") and r < 0.92:
        return {"Format": 32, "SourcePaint": _tree(rnd, shape, n, npal, depth - 1, bases_done), "CompositeMode": rnd.choice(COMPOSITE_MODES),
                "BackdropPaint": _tree(rnd, shape, n, npal, depth - 1, bases_done)}
    if shape in ("colrglyph", "deep") and bases_done:
        return {"Format": 11, "Glyph": rnd.choice(bases_done)}
    return _glyph_paint(rnd, n, npal, fills)


def gen_v1(rnd, shape, n, npal):
    """-> (glyphs {base gid: paint | [(gid, palette)] for v0-style bases}, clipBoxes {gid: (xMin, yMin, xMax, yMax)})"""
    out, clips = {}, {}
    nb = rnd.randint(2, 6)
    if shape == "reuse_many":
        # emoji-like: hundreds of colour glyphs drawing their layers from a small pool of layer paints, so that
        # runs of layers recur (layer reuse) between many glyphs with different layer lists
        nb = rnd.randint(150, min(320, n - 2))
        pool = [_glyph_paint(rnd, n, npal, ["solid", "solid", "linear"]) for _ in range(rnd.choice([12, 36, 60]))]
        bases = sorted(rnd.sample(range(1, n), nb))
        for b in bases:
            k = rnd.randint(2, 5)
            if rnd.random() < 0.5:
                st = rnd.randrange(len(pool) - k)
                layers = pool[st:st + k]
            else:
                layers = [rnd.choice(pool) for _ in range(k)]
            out[b] = {"Format": 1, "Layers": [dict(p) for p in layers]}
        return out, clips
    bases = sorted(rnd.sample(range(1, n), min(nb, n - 1)))
    done = []
    depth = {"deep": 5, "solid": 1}.get(shape, 3)
    common = [_glyph_paint(rnd, n, npal, ["solid", "linear"]) for _ in range(4)]
    for b in bases:
        if shape == "reuse":
            # several bases share runs of identical layers: the builder may reuse LayerList slices
            k = rnd.randint(2, 4)
            start = rnd.randint(0, 4 - k)
            layers = [dict(p) for p in common[start:start + k]]
            if rnd.random() < 0.5:
                layers.append(_glyph_paint(rnd, n, npal, ["solid"]))
            if rnd.random() < 0.3:
                layers.insert(0, _glyph_paint(rnd, n, npal, ["solid"]))
            out[b] = {"Format": 1, "Layers": layers}
        elif shape == "many_layers_256" and not done:
            out[b] = {"Format": 1, "Layers": [{"Format": 10, "Glyph": 1 + (i % (n - 1)), "Paint": {"Format": 2, "PaletteIndex": i % npal, "Alpha": 1.0}}
                                              for i in range(rnd.choice([255, 256, 257, 600]))]}
        elif shape == "mixed_v0_v1" and rnd.random() < 0.5:
            out[b] = [(rnd.randrange(1, n), rnd.randrange(npal)) for _ in range(rnd.randint(1, 4))]
        else:
            out[b] = _tree(rnd, shape, n, npal, depth, done)
        if isinstance(out[b], dict):
            done.append(b)
        if shape == "clipboxes" or rnd.random() < 0.2:
            x0, y0 = rnd.randint(-500, 100), rnd.randint(-500, 100)
            clips[b] = (x0, y0, x0 + rnd.randint(0, 2000), y0 + rnd.randint(0, 2000))
    if not any(isinstance(v, dict) for v in out.values()):
        b = bases[0]
        out[b] = _glyph_paint(rnd, n, npal, ["solid"])
    return out, clips
