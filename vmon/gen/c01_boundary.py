"""Boundary-sized structures for C01, made by struct-level edits / spec-level writers (no
fontTools): a CFF local Subrs INDEX padded with one never-called subroutine to an exact data
size, an HVAR whose advance-width map points into an ItemVariationData with more than 256 rows,
and a cmap whose Unicode subtables disagree about some code points (glyph names that have to be
synthesised from the cmap then clash).  Plus the spec-level readers that give their meaning."""
import struct

from vmon.oracle import c03_strings as cs


class NotApplicable(Exception):
    pass


# =============================================================== CFF INDEX
def make_index(items):
    if not items:
        return struct.pack(">H", 0)
    total = sum(len(x) for x in items) + 1
    offsize = 1 if total < 0x100 else 2 if total < 0x10000 else 3 if total < 0x1000000 else 4
    out = struct.pack(">HB", len(items), offsize)
    pos = 1
    for x in items:
        out += pos.to_bytes(offsize, "big")
        pos += len(x)
    out += pos.to_bytes(offsize, "big")
    return out + b"".join(items)


def _cff_layout(cff):
    """-> dict with positions of the INDEX structures of a single-font, non-CID CFF"""
    if cff[:1] != b"\x01":
        raise NotApplicable("not CFF 1")
    p = cff[2]
    names, p = cs._index(cff, p)
    tds, p = cs._index(cff, p)
    strs, p = cs._index(cff, p)
    gpos = p
    gs, p = cs._index(cff, p)
    if len(tds) != 1:
        raise NotApplicable("font set")
    d = dict(cs._dict(tds[0]))
    if (12, 30) in d or 18 not in d or 17 not in d:
        raise NotApplicable("CID-keyed or no Private")
    size, off = d[18]
    pd = dict(cs._dict(cff[off:off + size]))
    out = {"gsubrs": gpos, "charstrings": d[17][0], "private": (off, size), "subrs": None}
    if 19 in pd:
        out["subrs"] = off + pd[19][0]
    return out


def cff_pad_subrs(cff, target):
    """Append one unused subroutine ('0 0 ... return') so that the local Subrs INDEX holds exactly
    `target` bytes of object data.  Only when that INDEX is the last structure of the table."""
    lay = _cff_layout(cff)
    if lay["subrs"] is None:
        raise NotApplicable("no local subroutines")
    subrs, end = cs._index(cff, lay["subrs"])
    if end != len(cff):
        raise NotApplicable("Subrs INDEX is not the last structure")
    have = sum(len(x) for x in subrs)
    need = target - have
    if need < 1:
        raise NotApplicable("Subrs INDEX already holds %d bytes" % have)
    filler = b"\x8b" * (need - 1) + b"\x0b"          # (need-1) x integer 0, then 'return'
    return cff[:lay["subrs"]] + make_index(subrs + [filler]), have


def cff_indexes(cff):
    """Every INDEX of the table taken apart by the spec-level reader: {name: [item bytes]}.
    Raises if any INDEX is malformed (offsets not starting at 1, not monotone, out of bounds)."""
    def strict(pos):
        (count,) = struct.unpack(">H", cff[pos:pos + 2])
        if count:
            osz = cff[pos + 2]
            offs = [int.from_bytes(cff[pos + 3 + i * osz:pos + 3 + (i + 1) * osz], "big") for i in range(count + 1)]
            if offs[0] != 1 or any(b < a for a, b in zip(offs, offs[1:])):
                raise ValueError("INDEX at %d has offsets %r..%r" % (pos, offs[:3], offs[-2:]))
        return cs._index(cff, pos)

    lay = _cff_layout(cff)
    out = {}
    p = cff[2]
    for nm in ("Name", "TopDICT", "String", "GlobalSubrs"):
        items, p = strict(p)
        out[nm] = items
    out["CharStrings"] = strict(lay["charstrings"])[0]
    if lay["subrs"] is not None:
        out["Subrs"] = strict(lay["subrs"])[0]
    return out


# =============================================================== HVAR with > 256 rows
def read_index_map(data, pos):
    """DeltaSetIndexMap at pos -> [(outer, inner)]"""
    fmt, ef = data[pos], data[pos + 1]
    if fmt == 0:
        (n,) = struct.unpack(">H", data[pos + 2:pos + 4])
        p = pos + 4
    else:
        (n,) = struct.unpack(">L", data[pos + 2:pos + 6])
        p = pos + 6
    size = ((ef >> 4) & 3) + 1
    bits = (ef & 0xF) + 1
    out = []
    for i in range(n):
        v = int.from_bytes(data[p + i * size:p + (i + 1) * size], "big")
        out.append((v >> bits, v & ((1 << bits) - 1)))
    return out


def hvar_maps(data, num_glyphs):
    """HVAR -> {'adv': [...], 'lsb': [...], 'rsb': [...]} each expanded to num_glyphs entries (the last
    entry repeats, per the spec) or None when the map is absent."""
    _maj, _min, vs, a, l, r = struct.unpack(">HHLLLL", data[:20])
    out = {}
    for nm, off in (("adv", a), ("lsb", l), ("rsb", r)):
        if not off:
            out[nm] = None
            continue
        m = read_index_map(data, off)
        out[nm] = (m + [m[-1]] * max(0, num_glyphs - len(m)))[:num_glyphs] if m else []
    return out


def hvar_big(rnd, num_glyphs, axis_count, rows=None):
    """HVAR: one region, two ItemVariationData (one with `rows` > 256 rows of one int8 delta), an
    AdvWidthMap whose entries point at inner indices up to rows-1 in a packed entry format."""
    rows = rows or rnd.choice([100, 256, 257, 300, 1000])
    region = b"".join(struct.pack(">hhh", 0, 0x4000, 0x4000) for _ in range(axis_count))
    regions = struct.pack(">HH", axis_count, 1) + region
    small = struct.pack(">HHH", 3, 1, 1) + struct.pack(">H", 0) + bytes([1, 2, 3])
    big = struct.pack(">HHH", rows, 0, 1) + struct.pack(">H", 0) + bytes((i * 7) % 120 for i in range(rows))
    hdr = 8 + 4 * 2
    store = struct.pack(">HLH", 1, hdr + len(small) + len(big), 2) + struct.pack(">LL", hdr, hdr + len(small))
    store += small + big + regions
    inner_bits = max(1, (rows - 1).bit_length())
    entries = []
    for g in range(num_glyphs):
        if rnd.random() < 0.1:
            entries.append((0, g % 3))
        else:
            entries.append((1, rnd.choice([rows - 1, rows // 2, 128, 129, 255, 256, rnd.randrange(rows)]) % rows))
    total_bits = inner_bits + 1
    size = (total_bits + 7) // 8
    ef = ((size - 1) << 4) | (inner_bits - 1)
    m = struct.pack(">BBH", 0, ef, len(entries))
    for o, i in entries:
        m += ((o << inner_bits) | i).to_bytes(size, "big")
    data = struct.pack(">HHLLLL", 1, 0, 20, 20 + len(store), 0, 0) + store + m
    return data, "HVAR: ItemVariationData with %d rows, AdvWidthMap entry format 0x%02x over %d glyphs" % (rows, ef, num_glyphs)


# =============================================================== clashing cmap subtables
def cmap_clash(rnd, num_glyphs):
    """Four Unicode subtables ((0,3) (0,4) (3,1) (3,10)) that agree on most codes but map two or
    three code points each to a different glyph -> names synthesised from the cmap clash 3-4 ways."""
    if num_glyphs < 8:
        raise NotApplicable("fewer than 8 glyphs")
    gids = list(range(1, num_glyphs))
    rnd.shuffle(gids)
    common = {0x41 + i: gids[i] for i in range(min(6, len(gids) - 8))}
    rest = gids[len(common):]
    clash_codes = [0x30, 0x3A9][: max(1, min(2, len(rest) // 4))]
    maps = []
    for k in range(4):
        m = dict(common)
        for j, c in enumerate(clash_codes):
            m[c] = rest[(4 * j + k) % len(rest)]
        maps.append(m)

    def fmt4(m):
        codes = sorted(m)
        segs = [(c, c, (m[c] - c) & 0xFFFF) for c in codes] + [(0xFFFF, 0xFFFF, 1)]
        sc = len(segs)
        es = 0
        while (1 << (es + 1)) <= sc:
            es += 1
        sr = 2 * (1 << es)
        body = struct.pack(">HHHH", 2 * sc, sr, es, 2 * sc - sr)
        body += struct.pack(">%dH" % sc, *[s[1] for s in segs]) + b"\0\0"
        body += struct.pack(">%dH" % sc, *[s[0] for s in segs])
        body += struct.pack(">%dH" % sc, *[s[2] for s in segs])
        body += struct.pack(">%dH" % sc, *[0] * sc)
        return struct.pack(">HHH", 4, len(body) + 6, 0) + body

    def fmt12(m):
        body = b"".join(struct.pack(">LLL", c, c, m[c]) for c in sorted(m))
        return struct.pack(">HHLLL", 12, 0, 16 + len(body), 0, len(m)) + body

    subs = [(0, 3, fmt4(maps[0])), (0, 4, fmt12(maps[1])), (3, 1, fmt4(maps[2])), (3, 10, fmt12(maps[3]))]
    hdr = struct.pack(">HH", 0, len(subs))
    pos = 4 + 8 * len(subs)
    blob = b""
    for p, e, st in subs:
        hdr += struct.pack(">HHL", p, e, pos + len(blob))
        blob += st
    return hdr + blob, "cmap: 4 Unicode subtables disagreeing on %s" % ", ".join("U+%04X" % c for c in clash_codes)


def post3(post):
    return struct.pack(">L", 0x00030000) + post[4:32]
