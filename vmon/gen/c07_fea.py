"""Generated layout fonts for C07: feature programs whose glyph closure needs several rounds.

The corpus has hardly any font in which a contextual rule calls a *shared* nested lookup
(ligature / single / multiple / contextual) several times while a glyph that the nested
lookup or the context depends on is only produced by a lookup with a *higher* index that
HarfBuzz nevertheless applies *earlier* (feature of an earlier shaping stage: `rvrn` in the
default shaper; `ccmp`/`locl` before `rlig` before `calt` before the rest in the Arabic
shaper).  `program(rnd)` draws such a feature program; `build(prog)` compiles it with
fontBuilder + feaLib into a TrueType font in which every glyph g is mapped from U+F0000+gid
and has its own outline and advance.
"""
import io

PUA = 0xF0000
LATE = ["rlig", "calt", "liga", "clig", "rclt", "ss01", "ss02"]


def _box(uid):
    w = 90 + 13 * (uid % 31) + 2 * (uid // 31)
    h = 200 + 9 * (uid % 47)
    n = 15 + uid % 13
    return [(30, 0), (30, h), (30 + w // 2, h - n), (30 + w, h), (30 + w, 0)]


def program(rnd):
    n = rnd.randint(7, 12)
    bases = ["b%d" % i for i in range(n)]
    glyphs = [".notdef"] + list(bases)

    def need(name):
        if name not in glyphs:
            glyphs.append(name)
        return name

    scripts = rnd.choice([["DFLT"], ["DFLT", "arab"], ["arab"], ["DFLT", "arab"], ["DFLT", "latn"]])
    lines = ["languagesystem %s dflt;" % s for s in scripts]
    # glyphs that get a "produced" form by an early-stage lookup defined late in the file
    formed = rnd.sample(bases, rnd.randint(2, min(5, n)))
    form = {y: need(y + ".f") for y in formed}
    nested = []      # (name, kind, rules) rules: list of (X, Y, out) / (Y, out)
    body = []
    for k in range(rnd.randint(1, 3)):
        name = "N%d" % k
        kind = "lig" if k == 0 else rnd.choice(["lig", "lig", "single", "multiple", "ctx"])
        rules = []
        if kind == "lig":
            for j in range(rnd.randint(1, 3)):
                x = rnd.choice(bases)
                y = formed[0] if (k == 0 and j == 0) else rnd.choice(formed if rnd.random() < 0.8 else bases)
                if any(r[0] == x and r[1] == y for r in rules):
                    continue
                rules.append((x, y, need("%s_%s" % (x, y))))
                if y in form and rnd.random() < 0.85:
                    rules.append((x, form[y], need("%s_%s" % (x, form[y]))))
            text = " ".join("sub %s %s by %s;" % r for r in rules)
        elif kind == "single":
            for y in rnd.sample(bases, rnd.randint(1, 3)):
                rules.append((y, None, need(y + ".a")))
            for y in rnd.sample(formed, rnd.randint(0, len(formed))):
                rules.append((form[y], None, need(form[y] + ".a")))
            text = " ".join("sub %s by %s;" % (r[0], r[2]) for r in rules)
        elif kind == "multiple":
            for x in rnd.sample(bases, rnd.randint(1, 2)):
                y = rnd.choice(formed)
                rules.append((x, None, "%s %s" % (x, need(x + ".m"))))
            text = " ".join("sub %s by %s;" % (r[0], r[2]) for r in rules)
        else:  # a nested contextual lookup whose own context depends on a formed glyph
            inner = "S%d" % k
            x = rnd.choice(bases)
            y = rnd.choice(formed)
            body.append("lookup %s { sub %s by %s; } %s;" % (inner, x, need(x + ".c"), inner))
            rules.append((x, form[y], None))
            text = "sub %s' lookup %s %s;" % (x, inner, form[y])
            if rnd.random() < 0.5:
                rules.append((x, y, None))
                text += " sub %s' lookup %s %s;" % (x, inner, y)
        if rules:
            body.append("lookup %s { %s } %s;" % (name, text, name))
            nested.append((name, kind, rules))
    late = rnd.sample(LATE, rnd.randint(1, 3))
    if "arab" in scripts:
        late.sort(key=lambda t: LATE.index(t))
    feats = []
    for tag in late:
        rl = []
        for j in range(rnd.randint(1, 3)):
            name, kind, rules = nested[0] if (tag == late[0] and j == 0) else rnd.choice(nested)
            r = rules[0] if (tag == late[0] and j == 0) else rnd.choice(rules)
            x = r[0]
            if kind == "lig":
                y = r[1]
                ybase = y[:-2] if y.endswith(".f") else y
                alts = [a for a in (ybase, form.get(ybase)) if a and any(q[0] == x and q[1] == a for q in rules)]
                shape = rnd.random()
                if len(alts) > 1 and shape < 0.45:
                    for a in alts:
                        rl.append("sub %s' lookup %s %s';" % (x, name, a))
                elif len(alts) > 1 and shape < 0.8:
                    rl.append("sub %s' lookup %s [%s]';" % (x, name, " ".join(alts)))
                elif shape < 0.9:
                    z = rnd.choice(bases)
                    rl.append("sub %s %s' lookup %s %s';" % (z, x, name, y))
                else:
                    rl.append("sub %s' lookup %s %s';" % (x, name, y))
            else:
                y = rnd.choice(formed)
                shape = rnd.random()
                if shape < 0.4:
                    rl.append("sub %s' lookup %s %s;" % (x, name, form[y]))
                    rl.append("sub %s' lookup %s %s;" % (x, name, y))
                elif shape < 0.7:
                    rl.append("sub %s' lookup %s [%s %s];" % (x, name, y, form[y]))
                else:
                    rl.append("sub %s %s' lookup %s;" % (form[y], x, name))
        feats.append("feature %s { %s } %s;" % (tag, " ".join(dict.fromkeys(rl)), tag))
    # noise: plain features
    if rnd.random() < 0.5:
        a, b = rnd.sample(bases, 2)
        feats.append("feature kern { pos %s %s %d; } kern;" % (a, b, -rnd.randrange(10, 90)))
    if rnd.random() < 0.4:
        a = rnd.choice(bases)
        feats.insert(rnd.randrange(len(feats) + 1), "feature ss03 { sub %s by %s; } ss03;" % (a, need(a + ".s")))
    # producers: applied in an earlier shaping stage, defined last (highest lookup indices)
    early = ["rvrn"] if scripts == ["DFLT"] or scripts == ["DFLT", "latn"] else rnd.choice([["ccmp"], ["locl"], ["rvrn"], ["rvrn", "ccmp"]])
    prods = []
    for tag in early:
        pr = []
        ys = rnd.sample(formed, rnd.randint(1, len(formed)))
        if tag == early[0] and formed[0] not in ys and rnd.random() < 0.85:
            ys.insert(0, formed[0])
        kind = rnd.random()
        if kind < 0.6:
            pr.append(" ".join("sub %s by %s;" % (y, form[y]) for y in ys))
        elif kind < 0.85:
            z = rnd.choice(bases)
            pr.append(" ".join("sub %s %s' by %s;" % (z, y, form[y]) for y in ys))
        else:
            q = rnd.choice([b for b in bases if b not in ys] or bases)
            y = ys[0]
            pr.append("sub %s by %s %s;" % (q, rnd.choice(bases), form[y]))
        prods.append("feature %s { %s } %s;" % (tag, " ".join(pr), tag))
    fea = "\n".join(lines + body + feats + prods) + "\n"
    return {"glyphs": glyphs, "n_bases": n, "fea": fea, "scripts": scripts, "late": late, "early": early,
            "nested": [(nm, kd) for nm, kd, _r in nested]}


def build(prog):
    from fontTools.fontBuilder import FontBuilder
    from fontTools.pens.ttGlyphPen import TTGlyphPen

    order = prog["glyphs"]
    fb = FontBuilder(1000, isTTF=True)
    fb.setupGlyphOrder(order)
    nb = prog["n_bases"]
    fb.setupCharacterMap({PUA + i: g for i, g in enumerate(order) if i <= nb})   # only .notdef and the bases are encoded
    glyphs = {}
    for i, g in enumerate(order):
        pen = TTGlyphPen(None)
        pts = _box(i * 7 + 3)
        pen.moveTo(pts[0])
        for p in pts[1:]:
            pen.lineTo(p)
        pen.closePath()
        glyphs[g] = pen.glyph()
    fb.setupGlyf(glyphs)
    fb.setupHorizontalMetrics({g: (300 + 17 * i, 30) for i, g in enumerate(order)})
    fb.setupHorizontalHeader(ascent=800, descent=-200)
    fb.setupNameTable({"familyName": "ClosureGen", "styleName": "Regular"})
    fb.setupOS2()
    fb.setupPost()
    fb.addOpenTypeFeatures(prog["fea"])
    b = io.BytesIO()
    fb.save(b)
    return b.getvalue()
