"""UFO drivers of the C19 check: whole UFOs of format 1, 2 and 3 are written with
UFOWriter into scratch, re-read with UFOReader and compared with the expected
(up-converted) value; the plists on disk are cross-read with the standard library."""
import copy
import os
import plistlib as stdpl

from vmon import hooks
from vmon.gen import c19_gen as G
from vmon.gen import c19_state as st
from vmon.oracle import c19_expect as ex
from vmon.oracle import c19_model as md

PNG = b"\x89PNG\r\n\x1a\n" + bytes(range(40))
V3_ONLY_INFO = {"openTypeGaspRangeRecords", "openTypeNameRecords", "woffMajorVersion", "woffMinorVersion",
                "woffMetadataUniqueID", "woffMetadataVendor", "woffMetadataCredits", "woffMetadataDescription",
                "woffMetadataLicense", "woffMetadataCopyright", "woffMetadataTrademark", "woffMetadataLicensee",
                "woffMetadataExtensions", "guidelines"}


class Bag:
    pass


def glyph_object(g):
    o = Bag()
    for k in ex.GLYPH_ATTRS:
        if g.get(k) is not None:
            setattr(o, k, copy.deepcopy(g[k]))
    return o


def bag(d):
    o = Bag()
    for k, v in d.items():
        setattr(o, k, copy.deepcopy(v))
    return o


def _rt(what, want, got, fmt, num=md.NUM_EXACT, **w):
    st.judged()
    d = md.deep_diff(want, got, num)
    if d:
        parts = [x for x in d[0].split("/") if x]
        if what.startswith("fontinfo") or what.endswith(": info"):
            field = parts[0].split("[")[0] if parts else ""
        elif "glyphs" in what:
            field = ex.glyph_field("/".join(parts[1:]))
        else:
            field = ""
        st.bad({"kind": "roundtrip", "fmt": fmt, "what": what, "field": field, "why": d[1]},
               "%s %s: %s differs (%s): wrote %s, read back %s" % (fmt, what, d[0], d[1], st.short(d[2]), st.short(d[3])),
               path=d[0], want=d[2], got=d[3], **w)
        return False
    return True


def _std(path):
    with open(path, "rb") as f:
        return stdpl.loads(f.read())


def xml_ok(s):
    return all((ord(c) >= 0x20 or c in "\t\n\r") and not 0xD800 <= ord(c) <= 0xDFFF and ord(c) not in (0xFFFE, 0xFFFF) for c in s)


# ---------------------------------------------------------------------------
def gen_ufo(rnd, version):
    fmt = 2 if version >= 3 else 1
    if version >= 3:
        info = G.fontinfo_v3(rnd, density=rnd.choice([0.3, 0.7, 1.0]))
    else:
        info = G.fontinfo_v3(rnd, density=rnd.choice([0.5, 1.0]), v2_compatible=True)
    if version == 1:
        info = {k: (int(v) if isinstance(v, float) and v == int(v) else v) for k, v in info.items()
                if k in md.INFO_2_TO_1 or k in md.INFO_V1_SAME_NAME}
        info.pop("openTypeOS2WeightClass", None) if info.get("openTypeOS2WeightClass") == -1 else None
    kerning, groups, glyphs = G.kerning_v3(rnd)
    if version < 3:
        groups = {k: v for k, v in groups.items() if not k.startswith("@MMK")}
    data = {"version": version, "info": info, "kerning": kerning, "groups": groups, "lib": G.lib_dict(rnd),
            "features": rnd.choice(["", "feature kern { pos A V -50; } kern;\n", "# ünï <&>\nlanguagesystem DFLT dflt;\n"]),
            "layers": [], "images": {}, "data": {}}
    if rnd.random() < 0.5:
        data["lib"]["public.glyphOrder"] = list(glyphs)

    def layer(name, default):
        gl = {}
        names = rnd.sample(["a", "A", "A_", "a_", "B", "b.alt", "B.ALT", "con", ".notdef", "ünï", "Aacute_V.swash", "x<y", "T_h", "t_h", "AE", "ae"],
                           rnd.choice([1, 3, 6, 10]))
        feats = {"outline", "components", "advance", "unicodes", "note", "anchors", "lib"} | ({"image", "guidelines"} if fmt == 2 else set())
        for n in names:
            g = G.glyph_spec(rnd, fmt, set(rnd.sample(sorted(feats), rnd.randrange(0, len(feats) + 1))) | ({"empty-outline"} if fmt == 1 else set()))
            g["name"] = n
            gl[n] = g
        linfo = {}
        if version >= 3 and rnd.random() < 0.5:
            linfo["color"] = G.color(rnd)
        if version >= 3 and rnd.random() < 0.5:
            linfo["lib"] = G.lib_dict(rnd, small=True)
        return {"name": name, "default": default, "glyphs": gl, "info": linfo}

    if version >= 3:
        dname = rnd.choice(["public.default", "foreground", "Ünï default"])
        data["layers"].append(layer(dname, True))
        for n in rnd.sample(["background", "Background", "BACKGROUND", "sketches", "con", "a/b", "layer.1", "ünï", "public.background"],
                            rnd.choice([0, 1, 3])):
            data["layers"].append(layer(n, False))
        rnd.shuffle(data["layers"])
        if rnd.random() < 0.5:
            data["images"] = {rnd.choice(["a.png", "Image One.png"]): PNG}
        if rnd.random() < 0.5:
            data["data"] = {"com.example.test/blob.bin": bytes(rnd.randrange(256) for _ in range(50)), "top.txt": b"hello"}
    else:
        data["layers"].append(layer("public.default", True))
    return data


def write_ufo(path, data, ctx, version=None):
    from fontTools.ufoLib import UFOWriter
    version = version or data["version"]
    with ctx.lib("UFOWriter()", version=version):
        w = UFOWriter(path, formatVersion=version)
    with ctx.lib("UFOWriter.writeInfo", version=version):
        w.writeInfo(bag(data["info"]))
    with ctx.lib("UFOWriter.writeGroups", version=version):
        w.writeGroups(copy.deepcopy(data["groups"]))
    with ctx.lib("UFOWriter.writeKerning", version=version):
        w.writeKerning(dict(data["kerning"]))
    with ctx.lib("UFOWriter.writeLib", version=version):
        w.writeLib(copy.deepcopy(data["lib"]))
    if version >= 2:
        with ctx.lib("UFOWriter.writeFeatures", version=version):
            w.writeFeatures(data["features"])
    for layer in data["layers"]:
        with ctx.lib("UFOWriter.getGlyphSet", version=version):
            if version >= 3:
                gs = w.getGlyphSet(layerName=layer["name"], defaultLayer=layer["default"])
            else:
                gs = w.getGlyphSet()
        for n, g in layer["glyphs"].items():
            with ctx.lib("GlyphSet.writeGlyph", version=version):
                gs.writeGlyph(n, glyph_object(g), ex.draw_outline(g["outline"]) if g["outline"] is not None else None)
        if version >= 3 and layer["info"]:
            with ctx.lib("GlyphSet.writeLayerInfo"):
                gs.writeLayerInfo(bag(layer["info"]))
        with ctx.lib("GlyphSet.writeContents", version=version):
            gs.writeContents()
    with ctx.lib("UFOWriter.writeLayerContents", version=version):
        w.writeLayerContents([l["name"] for l in data["layers"]])
    for fn, b in data["images"].items():
        with ctx.lib("UFOWriter.writeImage"):
            w.writeImage(fn, b)
    for fn, b in data["data"].items():
        with ctx.lib("UFOWriter.writeData"):
            w.writeData(fn, b)
    w.close()


def read_ufo(path, ctx, tag=""):
    """Everything a UFOReader returns, as plain data."""
    from fontTools.ufoLib import UFOReader
    out = {}
    with ctx.lib("UFOReader()" + tag):
        r = UFOReader(path, validate=True)
    out["formatVersion"] = r.formatVersionTuple[0]
    info = Bag()
    with ctx.lib("UFOReader.readInfo" + tag):
        r.readInfo(info)
    out["info"] = dict(info.__dict__)
    with ctx.lib("UFOReader.readGroups" + tag):
        out["groups"] = copy.deepcopy(r.readGroups())
    with ctx.lib("UFOReader.readKerning" + tag):
        out["kerning"] = dict(r.readKerning())
    with ctx.lib("UFOReader.readLib" + tag):
        out["lib"] = r.readLib()
    with ctx.lib("UFOReader.readFeatures" + tag):
        out["features"] = r.readFeatures()
    with ctx.lib("UFOReader.getLayerNames" + tag):
        out["layerOrder"] = list(r.getLayerNames())
        out["defaultLayer"] = r.getDefaultLayerName()
    out["layers"] = {}
    for ln in out["layerOrder"]:
        with ctx.lib("UFOReader.getGlyphSet" + tag):
            gs = r.getGlyphSet(ln)
        glyphs = {}
        for n in gs.keys():
            o, pen = Bag(), ex.RecPen()
            with ctx.lib("GlyphSet.readGlyph" + tag):
                gs.readGlyph(n, o, pen)
            glyphs[n] = ex.read_norm(ex.snap_glyph(o, pen.out), 2)
        li = Bag()
        with ctx.lib("GlyphSet.readLayerInfo" + tag):
            gs.readLayerInfo(li)
        out["layers"][ln] = {"glyphs": glyphs, "info": dict(li.__dict__), "contents": dict(gs.contents)}
    out["images"], out["data"] = {}, {}
    if out["formatVersion"] >= 3:
        with ctx.lib("UFOReader.readImage" + tag):
            for fn in r.getImageDirectoryListing():
                out["images"][fn] = r.readImage(fn)
        with ctx.lib("UFOReader.readData" + tag):
            for fn in r.getDataDirectoryListing():
                out["data"][fn] = r.readData(fn)
    out["renameMaps"] = r.getKerningGroupConversionRenameMaps() if out["formatVersion"] < 3 else None
    r.close()
    return out


def drv_ufo(case, rnd, ctx, scratch):
    version = case["version"]
    fmt = "ufo%d" % version
    data = gen_ufo(rnd, version)
    path = os.path.join(scratch, "Test Ünï.ufo")
    write_ufo(path, data, ctx)
    got = read_ufo(path, ctx)
    info = data["info"]
    # -- fontinfo: file on disk (stdlib) and the reader's (up-converted) value
    if version == 3:
        want_file = want_read = info
    elif version == 2:
        want_file = want_read = {k: v for k, v in info.items() if k not in V3_ONLY_INFO}
    else:
        want_read = info
        want_file = md.info_v2_to_v1_file(info)
    fi = os.path.join(path, "fontinfo.plist")
    if want_file:
        _rt("fontinfo.plist on disk", want_file, _std(fi), fmt)
    _rt("fontinfo", want_read, got["info"], fmt)
    # -- kerning / groups / lib / features
    nested = {}
    for (l, r_), v in data["kerning"].items():
        nested.setdefault(l, {})[r_] = v
    if nested:
        _rt("kerning.plist on disk", nested, _std(os.path.join(path, "kerning.plist")), fmt)
    _rt("kerning", data["kerning"], got["kerning"], fmt)
    _rt("groups", data["groups"], got["groups"], fmt)
    _rt("lib", data["lib"], got["lib"], fmt)
    if version >= 2:
        _rt("features", data["features"], got["features"], fmt)
    # -- layers
    _rt("layer order", [l["name"] for l in data["layers"]], got["layerOrder"], fmt)
    _rt("default layer", [l["name"] for l in data["layers"] if l["default"]][0], got["defaultLayer"], fmt)
    gfmt = 2 if version >= 3 else 1
    ok = True
    for layer in data["layers"]:
        rl = got["layers"].get(layer["name"])
        if rl is None:
            continue
        want = {n: ex.expected_glyph(ex.snap_glyph(glyph_object(g), g["outline"]), gfmt) for n, g in layer["glyphs"].items()}
        ok &= _rt("layer glyphs", want, rl["glyphs"], fmt, layer=layer["name"])
        _rt("layerinfo", layer["info"], rl["info"], fmt, layer=layer["name"])
        files = list(rl["contents"].values())
        st.judged()
        if len({md.fold(f) for f in files}) != len(files) or any(md.name_problem(f) for f in files):
            st.bad({"kind": "filename", "module": "glifLib", "func": "contents.plist", "problem": "illegal-or-duplicate"},
                   "contents.plist of layer %r has illegal or case-insensitively equal file names" % layer["name"], files=files)
    _rt("images", data["images"], got["images"], fmt)
    _rt("data", data["data"], got["data"], fmt)
    if ok:
        st.key("ufo%d/info%d/kern%d/grp%d/L%d" % (version, min(3, len(info) // 30), min(2, len(data["kerning"]) // 10),
                                               min(2, len(data["groups"])), len(data["layers"])))
    ctx.sample = {"case": case["id"], "fontinfo_attributes": len(info), "kerning_pairs": len(data["kerning"]), "groups": len(data["groups"]),
                  "layers": [(l["name"], len(l["glyphs"])) for l in data["layers"]], "evaluations": st.S["n"]}


# ---------------------------------------------------------------------------
def drv_ufokern2(case, rnd, ctx, scratch):
    """UFO 2 with UFO 1/2-style kerning groups: read with the UFO 3 reader (up-conversion),
    then written back as UFO 2 with the rename maps (down-conversion)."""
    from fontTools.ufoLib import UFOWriter, UFOReader
    for i in range(case["n"]):
        collide = False      # the collision class lives in probe:kern-collision (reported finding)
        kerning, groups, glyphs = G.kerning_v2(rnd, collide=collide)
        path = os.path.join(scratch, "k%d.ufo" % i)
        with ctx.lib("UFOWriter(v2)"):
            w = UFOWriter(path, formatVersion=2)
        flat = {(l, r): v for l, d in kerning.items() for r, v in d.items()}
        with ctx.lib("UFOWriter.writeGroups"):
            w.writeGroups(copy.deepcopy(groups))
        with ctx.lib("UFOWriter.writeKerning"):
            w.writeKerning(flat)
        gs = w.getGlyphSet()
        for n in rnd.sample(glyphs, 6):
            gs.writeGlyph(n, Bag(), None)
        gs.writeContents()
        w.close()
        st.S["flags"].discard("conv-problem")
        with ctx.lib("UFOReader(v2)"):
            r = UFOReader(path)
        with ctx.lib("UFOReader.readKerning(v2)"):
            k3 = r.readKerning()
        with ctx.lib("UFOReader.readGroups(v2)"):
            g3 = r.readGroups()
        maps = r.getKerningGroupConversionRenameMaps()
        r.close()
        if "conv-problem" in st.S["flags"]:
            continue
        # down-conversion: the documented inverse ("will effectively undo the conversion")
        path2 = os.path.join(scratch, "k%d-back.ufo" % i)
        with ctx.lib("UFOWriter(v2 down)"):
            w2 = UFOWriter(path2, formatVersion=2)
        w2.setKerningGroupConversionRenameMaps(maps)
        with ctx.lib("UFOWriter.writeGroups(down)"):
            w2.writeGroups(g3)
        with ctx.lib("UFOWriter.writeKerning(down)"):
            w2.writeKerning(k3)
        w2.close()
        ok = _rt("kerning.plist after up+down conversion", kerning, _std(os.path.join(path2, "kerning.plist")) if flat else {}, "ufo2")
        ok &= _rt("groups.plist after up+down conversion", groups, _std(os.path.join(path2, "groups.plist")), "ufo2")
        if ok:
            st.key("ufo2/updown/%s" % ("plain" if any(not g.startswith(("@", "public.")) for g in list(maps["side1"]) + list(maps["side2"])) else "mmk"))
    ctx.sample = {"case": case["id"], "datasets": case["n"], "last": {"groups": sorted(groups)[:8], "kerning_firsts": sorted(kerning)[:8]},
                  "classes_seen": sorted(st.S["keys"])[:6]}


# ---------------------------------------------------------------------------
def drv_layers(case, rnd, ctx, scratch):
    from fontTools.ufoLib import UFOWriter, UFOReader
    kinds = [k for k in G.NAME_KINDS if k not in ("generated-echo",)]
    names = []
    for k in rnd.sample(kinds, 3):
        names += G.name_sequence(rnd, k, case["n"])
    seen, order = set(), []
    for n in names:
        if n.isascii() is False and len(n.encode("utf-8")) * 2 + 30 > 255:
            st.note("layers/precondition:name-exceeds-255-bytes-on-this-file-system")
            continue
        if n and n not in seen and xml_ok(n) and n != "public.default":
            seen.add(n)
            order.append(n)
    path = os.path.join(scratch, "layers.ufo")
    with ctx.lib("UFOWriter()"):
        w = UFOWriter(path, formatVersion=3)
    gs = w.getGlyphSet(layerName="public.default", defaultLayer=True)
    gs.writeGlyph("a", Bag(), None)
    gs.writeContents()
    written = []
    for n in order:
        with ctx.lib("UFOWriter.getGlyphSet(layer)"):
            g = w.getGlyphSet(layerName=n, defaultLayer=False)
        with ctx.lib("GlyphSet.writeGlyph(layer)"):
            g.writeGlyph("A", Bag(), None)
            g.writeContents()
        written.append(n)
    # rename one layer to another arbitrary name and delete one (both re-derive directory names)
    if len(written) >= 3:
        victim, renamed = written[0], written[1]
        newname = renamed[::-1] + " renamed"
        if newname not in written:
            with ctx.lib("UFOWriter.renameGlyphSet"):
                w.renameGlyphSet(renamed, newname)
            written[1] = newname
        with ctx.lib("UFOWriter.deleteGlyphSet"):
            w.deleteGlyphSet(victim)
        written = written[1:]
    allnames = ["public.default"] + written
    rnd.shuffle(allnames)
    with ctx.lib("UFOWriter.writeLayerContents"):
        w.writeLayerContents(allnames)
    w.close()
    lc = _std(os.path.join(path, "layercontents.plist"))
    dirs = [d for _, d in lc]
    st.judged()
    probs = sorted({md.name_problem(d) for d in dirs if md.name_problem(d)})
    if len({md.fold(d) for d in dirs}) != len(dirs):
        probs.append("duplicate-ignoring-case")
    if any(not (d == "glyphs" or d.startswith("glyphs.")) for d in dirs):
        probs.append("bad-prefix")
    if any(not os.path.isdir(os.path.join(path, d)) for d in dirs):
        probs.append("missing-directory")
    reported = {v["mech"].get("problem") for v in hooks._reports if v["mech"].get("kind") == "filename"}
    for p in probs:
        if p not in reported and not (p == "duplicate-ignoring-case" and reported & {"clash-casefold-only", "clash-with-existing"}):
            st.bad({"kind": "filename", "module": "ufoLib", "func": "layercontents.plist", "problem": p},
                   "layer directories: %s" % p, dirs=dirs[:40])
    _rt("layercontents order", allnames, [n for n, _ in lc], "ufo3")
    with ctx.lib("UFOReader(layers)"):
        r = UFOReader(path)
    with ctx.lib("UFOReader.getLayerNames"):
        got = r.getLayerNames()
    _rt("getLayerNames", allnames, list(got), "ufo3")
    for n in allnames:
        with ctx.lib("UFOReader.getGlyphSet(layer)"):
            g = r.getGlyphSet(n)
        st.judged()
        if sorted(g.keys()) != (["a"] if n == "public.default" else ["A"]):
            st.bad({"kind": "roundtrip", "fmt": "ufo3", "what": "layer content mixed up"}, "layer %r holds %r" % (n, sorted(g.keys())))
    r.close()
    if not probs:
        st.key("layers/%d" % min(4, len(written) // 10))
    ctx.sample = {"case": case["id"], "layers": len(allnames), "directories_head": dirs[:6], "evaluations": st.S["n"]}


# ---------------------------------------------------------------------------
def drv_infoinvalid(case, rnd, ctx, scratch):
    """Values outside the UFO specification's ranges must be rejected by the validators,
    both on write and on read (a precondition of the round trip, judged as such)."""
    from fontTools.ufoLib import UFOWriter, UFOReader
    from fontTools.ufoLib.errors import UFOLibError
    from fontTools.ufoLib import glifLib
    from fontTools.ufoLib.errors import GlifLibError
    for i in range(case["n"]):
        attr, value = G.fontinfo_invalid(rnd)
        path = os.path.join(scratch, "inv%d.ufo" % i)
        w = UFOWriter(path, formatVersion=3)
        info = bag({"familyName": "F", attr: value})
        st.judged()
        try:
            w.writeInfo(info)
            st.bad({"kind": "validator", "op": "writeInfo", "attr": attr, "what": "out-of-range value accepted"},
                   "UFOWriter.writeInfo accepted %s=%r" % (attr, value))
        except UFOLibError:
            ctx.skip("rejected:writeInfo:UFOLibError")
            st.key("invalid/w/" + attr[:28])
        w.close()
        with open(os.path.join(path, "fontinfo.plist"), "wb") as f:
            f.write(stdpl.dumps({"familyName": "F", attr: value}))
        r = UFOReader(path)
        st.judged()
        try:
            r.readInfo(Bag())
            st.bad({"kind": "validator", "op": "readInfo", "attr": attr, "what": "out-of-range value accepted"},
                   "UFOReader.readInfo accepted %s=%r" % (attr, value))
        except UFOLibError:
            ctx.skip("rejected:readInfo:UFOLibError")
            st.key("invalid/r/" + attr[:28])
        r.close()
    pt = lambda t, ident=None: {"x": 0, "y": 0, "type": t, "smooth": False, "name": None, "identifier": ident}
    bad_outlines = {
        "dup-identifier": [("contour", {"identifier": "i", "points": [pt("line", "i")]})],
        "move-not-first": [("contour", {"identifier": None, "points": [pt("line"), pt("move")]})],
        "offcurve-before-line": [("contour", {"identifier": None, "points": [pt("move"), pt(None), pt("line")]})],
        "3-offcurves-before-curve": [("contour", {"identifier": None, "points": [pt("move"), pt(None), pt(None), pt(None), pt("curve")]})],
        "open-trailing-offcurve": [("contour", {"identifier": None, "points": [pt("move"), pt("line"), pt(None)]})],
        "bad-identifier": [("contour", {"identifier": "é", "points": [pt("line")]})],
    }
    for k, out in bad_outlines.items():
        st.judged()
        try:
            with hooks.quiet():
                glifLib.writeGlyphToString("a", Bag(), ex.draw_outline(out), formatVersion=2)
            st.bad({"kind": "validator", "op": "writeGlyphToString", "attr": k, "what": "illegal outline accepted"},
                   "writeGlyphToString accepted an outline with %s" % k)
        except GlifLibError:
            ctx.skip("rejected:writeGlyph:GlifLibError")
            st.key("invalid/glif/" + k)
    ctx.sample = {"case": case["id"], "invalid_values_tried": case["n"], "classes_seen": sorted(st.S["keys"])[:8]}


# ---------------------------------------------------------------------------
def drv_corpus_ufo(case, rnd, ctx, scratch):
    from fontTools.ufoLib.errors import UFOLibError, GlifLibError
    from vmon import corpus
    from vmon.case import LibRaised
    src = corpus.abspath(case["path"])
    if not os.path.isdir(src):
        ctx.skip("corpus ufo is not a directory")
        return

    class Quiet:
        """first read: problems of the stored UFO are a precondition, not a verdict"""
        def lib(self, op, **kw):
            import contextlib
            return contextlib.nullcontext()
    try:
        first = read_ufo(src, Quiet())
    except (UFOLibError, GlifLibError, KeyError, Exception) as e:
        ctx.skip("corpus ufo not readable: %s" % type(e).__name__)
        return
    data = {"version": 3, "info": first["info"], "kerning": first["kerning"], "groups": first["groups"], "lib": first["lib"],
            "features": first["features"], "images": first["images"], "data": first["data"], "layers": []}
    for ln in first["layerOrder"]:
        l = first["layers"][ln]
        glyphs = {}
        for n, g in l["glyphs"].items():
            glyphs[n] = dict(g, name=n)
        data["layers"].append({"name": ln, "default": ln == first["defaultLayer"], "glyphs": glyphs, "info": l["info"]})
    out = os.path.join(scratch, "copy.ufo")
    write_ufo(out, data, ctx, version=3)
    second = read_ufo(out, ctx, tag="(copy)")
    ok = True
    for k in ("info", "kerning", "groups", "lib", "features", "layerOrder", "defaultLayer", "images", "data"):
        ok &= _rt("corpus read -> write v3 -> read: " + k, first[k], second[k], "ufo%d>3" % first["formatVersion"], file=case["path"])
    for ln in first["layerOrder"]:
        a, b = first["layers"][ln], second["layers"].get(ln, {"glyphs": None, "info": None})
        ok &= _rt("corpus read -> write v3 -> read: glyphs", a["glyphs"], b["glyphs"], "ufo%d>3" % first["formatVersion"], file=case["path"], layer=ln)
        ok &= _rt("corpus read -> write v3 -> read: layerinfo", a["info"], b["info"], "ufo%d>3" % first["formatVersion"], file=case["path"])
    if ok:
        st.key("corpus-ufo/%d/%s" % (first["formatVersion"], os.path.basename(case["path"])[:24]))
    ctx.sample = {"case": case["id"], "format": first["formatVersion"], "layers": first["layerOrder"],
                  "glyphs": sum(len(l["glyphs"]) for l in first["layers"].values()), "evaluations": st.S["n"]}
