"""Hand-written feature files with hand-written rule-level models for C11: the
deterministic core of the generated workload (ordering, pair subtables, marks, contextual
positions, longest ligature, lookup flags) plus the witnesses of three defects this check
found and /repo has since repaired (names "known:*")."""
from .c11_fea import ORDER, ADVANCES, BASES, LIGS, MARKS

GDEF_TXT = ("table GDEF {\n    GlyphClassDef [%s], [%s], [%s], ;\n} GDEF;\n"
            % (" ".join("\\" + g if g in ("by", "sub", "mark") else g for g in BASES), " ".join(LIGS), " ".join(MARKS)))
GDEF = dict([(g, 1) for g in BASES] + [(g, 2) for g in LIGS] + [(g, 3) for g in MARKS])


def _model(gsub, gpos, feats, gdef=None):
    ls = {"GSUB": {}, "GPOS": {}}
    for tag, d in feats.items():
        for table, idx in d.items():
            if idx:
                ls[table].setdefault("DFLT", {}).setdefault("dflt", {"features": {}, "required": []})["features"][tag] = idx
    return {"advances": dict(ADVANCES), "gdef": gdef, "GSUB": gsub, "GPOS": gpos, "langsys": ls}


def _s(rules, flag=None):
    return {"kind": "subst", "flag": flag or {}, "subtables": [[(tuple(i), tuple(o)) for i, o in rules]]}


def _texts(items):
    return [("fixed", seq, feats, "DFLT", "dflt") for seq, feats in items]


def rejected(name):
    """[(label, feature file)] that must not compile."""
    out = []
    if name == "reject:device-out-of-range":
        for d in (128, 129, -129, -130, 200, -32768):
            out.append(("device delta out of range in a value record: %d" % d,
                        "feature tst1 {\n    pos a <0 0 10 0 <device NULL> <device NULL> <device 11 %d, 12 1> <device NULL>>;\n} tst1;\n" % d))
            out.append(("device delta out of range in an anchor: %d" % d,
                        "markClass acute <anchor 100 500> @TOP;\nfeature tst1 {\n    pos base a <anchor 250 450 <device 11 %d> <device NULL>> mark @TOP;\n} tst1;\n" % d))
            out.append(("device delta out of range in a cursive anchor: %d" % d,
                        "feature tst1 {\n    pos cursive a <anchor 10 20 <device NULL> <device 12 1, 14 %d>> <anchor NULL>;\n} tst1;\n" % d))
    return out


def _devrec(dev):
    sizes = sorted(dev)
    full = tuple(dev.get(p_, 0) for p_ in range(sizes[0], sizes[-1] + 1))
    fmt = 1 if (min(full) >= -2 and max(full) <= 1) else 2 if (min(full) >= -8 and max(full) <= 7) else 3
    return (sizes[0], sizes[-1], fmt, full)


def program(name):
    on = lambda *t: {x: 1 for x in t}
    if name == "order":
        fea = """
lookup L0 { sub a by b; } L0;
lookup L1 { sub b by c; } L1;
lookup L2 { sub c by d; } L2;
feature tst1 { lookup L0; lookup L1; lookup L2; } tst1;
feature tst2 { lookup L1; } tst2;
feature tst3 { lookup L2; lookup L0; } tst3;
"""
        m = _model([_s([("a", "b")]), _s([("b", "c")]), _s([("c", "d")])], [],
                   {"tst1": {"GSUB": [0, 1, 2]}, "tst2": {"GSUB": [1]}, "tst3": {"GSUB": [0, 2]}})
        t = [(["a"], on("tst1")), (["a"], on("tst2")), (["b"], on("tst2")), (["a", "b", "c"], on("tst3")),
             (["a", "b", "c"], on("tst1")), (["c", "b", "a"], on("tst2", "tst3")), (["a"], on("tst1", "tst2", "tst3"))]
    elif name == "feature-order-vs-lookup-order":
        # the feature lists its lookups in another order than they were defined: lookup-list order decides
        fea = """
lookup L0 { sub a by b; } L0;
lookup L1 { sub b by a; } L1;
feature tst1 { lookup L1; lookup L0; } tst1;
feature tst2 { sub c by d; sub d by e; lookup L0; } tst2;
feature tst3 { sub f i by f_i; sub f_i by e; } tst3;
"""
        m = _model([_s([("a", "b")]), _s([("b", "a")]), _s([("c", "d"), ("d", "e")]), _s([(("f", "i"), ("f_i",)), (("f_i",), ("e",))])], [],
                   {"tst1": {"GSUB": [0, 1]}, "tst2": {"GSUB": [0, 2]}, "tst3": {"GSUB": [3]}})
        t = [(["a"], on("tst1")), (["b"], on("tst1")), (["a", "b"], on("tst1")), (["c", "d", "a"], on("tst2")),
             (["f", "i", "f_i"], on("tst3")), (["c", "a", "b"], on("tst1", "tst2"))]
    elif name == "known:inline-lig-prefix":
        fea = """
feature tst1 {
    sub a d' h' d' by c_d_e;
    sub d' h' by f_i;
} tst1;
"""
        chain = {"kind": "chain", "flag": {}, "subtables": [[
            {"back": [["a"]], "input": [["d"], ["h"], ["d"]], "ahead": [], "lookups": [[_s([(("d", "h", "d"), ("c_d_e",))])], [], []]},
            {"back": [], "input": [["d"], ["h"]], "ahead": [], "lookups": [[_s([(("d", "h"), ("f_i",))])], []]}]]}
        m = _model([chain], [], {"tst1": {"GSUB": [0]}})
        t = [(["d", "h", "d"], on("tst1")), (["a", "d", "h", "d"], on("tst1")), (["d", "h", "a"], on("tst1"))]
    elif name == "known:ignore-multi-marked":
        # regression (fixed in /repo c952494): IgnorePosStatement.asFea printed a context-free
        # `ignore pos` without the ' marks; parsed again the two-glyph input became one input
        # glyph + lookahead, which shapes differently
        fea = """
feature tst1 {
    ignore sub a' b';
    sub [a b]' by c;
} tst1;
feature tst2 {
    ignore pos a' b';
    pos [a b]' 50;
} tst2;
"""
        c1 = {"kind": "chain", "flag": {}, "subtables": [[
            {"back": [], "input": [["a"], ["b"]], "ahead": [], "lookups": [[], []]},
            {"back": [], "input": [["a", "b"]], "ahead": [], "lookups": [[_s([("a", "c"), ("b", "c")])]]}]]}
        c2 = {"kind": "cpos", "flag": {}, "subtables": [[
            {"back": [], "input": [["a"], ["b"]], "ahead": [], "lookups": [[], []]},
            {"back": [], "input": [["a", "b"]], "ahead": [], "lookups": [[{"kind": "spos", "flag": {}, "values": {"a": (0, 0, 50, 0), "b": (0, 0, 50, 0)}}]]}]]}
        m = _model([c1], [c2], {"tst1": {"GSUB": [0]}, "tst2": {"GPOS": [0]}})
        t = [(["a", "b"], on("tst1")), (["a", "b", "b"], on("tst1")), (["b", "a"], on("tst1")), (["a", "b"], on("tst2")), (["a", "a", "b", "b"], on("tst2"))]
    elif name == "known:contourpoint-zero":
        # regression (fixed in /repo 06f785a): Anchor.asFea / AnchorDefinition.asFea tested
        # `if self.contourpoint:` and lost point index 0
        fea = GDEF_TXT + """
anchorDef 120 -20 contourpoint 0 ANC;
markClass acute <anchor 100 500 contourpoint 0> @TOP;
feature tst1 {
    pos base a <anchor 250 450 contourpoint 0> mark @TOP;
    pos base b <anchor ANC> mark @TOP;
} tst1;
"""
        mb = {"kind": "mbase", "flag": {}, "marks": {"acute": ("TOP", (100, 500))}, "bases": {"a": {"TOP": (250, 450)}, "b": {"TOP": (120, -20)}}}
        m = _model([], [mb], {"tst1": {"GPOS": [0]}}, GDEF)
        t = [(["a", "acute"], on("tst1")), (["b", "acute"], on("tst1"))]
    elif name == "two-lookups-one-glyph":
        # lookup records of one marked glyph are applied in the order written, not in lookup-list order
        fea = """
lookup TO_C { sub b by c; sub e by g; } TO_C;
lookup TO_B { sub a by b; sub d by e; } TO_B;
lookup TO_H { sub c by h; } TO_H;
feature tst1 {
    sub a' lookup TO_B lookup TO_C x;
    sub d' lookup TO_C lookup TO_B y;
    sub i a' lookup TO_B lookup TO_C lookup TO_H b' lookup TO_C lookup TO_B;
} tst1;
lookup P1 { pos a 10; } P1;
lookup P2 { pos a <5 0 0 0>; } P2;
feature tst2 {
    pos a' lookup P2 lookup P1 b;
} tst2;
"""
        fea = fea.replace("x;", "j;").replace("y;", "k;")
        TO_C, TO_B, TO_H = _s([("b", "c"), ("e", "g")]), _s([("a", "b"), ("d", "e")]), _s([("c", "h")])
        c1 = {"kind": "chain", "flag": {}, "subtables": [[
            {"back": [], "input": [["a"]], "ahead": [["j"]], "lookups": [[1, 0]]},
            {"back": [], "input": [["d"]], "ahead": [["k"]], "lookups": [[0, 1]]},
            {"back": [["i"]], "input": [["a"], ["b"]], "ahead": [], "lookups": [[1, 0, 2], [0, 1]]}]]}
        sp = lambda d: {"kind": "spos", "flag": {}, "values": d}
        cp = {"kind": "cpos", "flag": {}, "subtables": [[{"back": [], "input": [["a"]], "ahead": [["b"]], "lookups": [[1, 0]]}]]}
        m = _model([TO_C, TO_B, TO_H, c1], [sp({"a": (0, 0, 10, 0)}), sp({"a": (5, 0, 0, 0)}), cp], {"tst1": {"GSUB": [3]}, "tst2": {"GPOS": [2]}})
        t = [(["a", "j"], on("tst1")), (["d", "k"], on("tst1")), (["i", "a", "b"], on("tst1")), (["a", "b"], on("tst1")), (["a", "b"], on("tst2")),
             (["a", "j", "d", "k"], on("tst1", "tst2"))]
    elif name == "script-resets-lookupflag":
        # "script" implicitly sets lookupflag to 0 (and drops the mark filtering set): the rules after
        # it must not skip marks
        fea = GDEF_TXT + """
feature tst1 {
    lookupflag UseMarkFilteringSet [acute];
    sub a b by a_b;
    script latn;
    sub f i by f_i;
    lookupflag IgnoreMarks;
    sub c d by f_f;
    script cyrl;
    sub c d e by c_d_e;
    pos a b -25;
} tst1;
feature tst2 {
    lookupflag MarkAttachmentType [grave];
    pos c d 15;
    script latn;
    pos f i 35;
} tst2;
"""
        l0 = _s([(("a", "b"), ("a_b",))], {"mfs": ["acute"]})
        l1 = _s([(("f", "i"), ("f_i",))])
        l2 = _s([(("c", "d"), ("f_f",))], {"ignore": [3]})
        l3 = _s([(("c", "d", "e"), ("c_d_e",))])
        p0 = {"kind": "ppos", "flag": {}, "pairs": [("a", "b", (0, 0, -25, 0), None)], "classes": []}
        p1 = {"kind": "ppos", "flag": {"mat": ["grave"]}, "pairs": [("c", "d", (0, 0, 15, 0), None)], "classes": []}
        p2 = {"kind": "ppos", "flag": {}, "pairs": [("f", "i", (0, 0, 35, 0), None)], "classes": []}
        m = _model([l0, l1, l2, l3], [p0, p1, p2], {}, GDEF)
        F = lambda d: {"features": d, "required": []}
        m["langsys"] = {"GSUB": {"DFLT": {"dflt": F({"tst1": [0]})}, "latn": {"dflt": F({"tst1": [1, 2]})}, "cyrl": {"dflt": F({"tst1": [3]})}},
                        "GPOS": {"DFLT": {"dflt": F({"tst2": [1]})}, "cyrl": {"dflt": F({"tst1": [0]})}, "latn": {"dflt": F({"tst2": [2]})}}}
        tt = [("DFLT", ["a", "grave", "b"]), ("DFLT", ["a", "acute", "b"]), ("latn", ["f", "grave", "i"]), ("latn", ["f", "acute", "i"]), ("latn", ["f", "i"]),
              ("latn", ["c", "grave", "d"]), ("cyrl", ["c", "grave", "d", "e"]), ("cyrl", ["c", "d", "e"]), ("cyrl", ["a", "acute", "b"]), ("cyrl", ["a", "b"]),
              ("DFLT", ["c", "acute", "d"]), ("DFLT", ["c", "grave", "d"]), ("latn", ["f", "acute", "i", "f", "i"]), ("latn", ["f", "grave", "i"])]
        prog = {"fea": fea.lstrip("\n"), "model": m, "kinds": ["fixed:" + name]}
        return prog, [("fixed", seq, {"tst1": 1, "tst2": 1}, sc, "dflt") for sc, seq in tt]
    elif name == "vertical-values":
        # inside vkrn / vpal / vhal / valt a bare number is a YAdvance; a format A record named at
        # file level stays an XAdvance wherever it is referenced (and must be printed so)
        fea = """
valueRecordDef 30 ADV;
valueRecordDef <1 2 3 4> FULL;
feature vkrn {
    pos a <ADV>;
    pos b 20;
    pos c d <ADV>;
    pos e f 15;
    pos g <FULL>;
} vkrn;
feature vpal {
    pos a' <ADV> b;
    pos h 12;
} vpal;
feature tst1 {
    pos a <ADV>;
    pos b 20;
} tst1;
"""
        sp = lambda d: {"kind": "spos", "flag": {}, "values": d}
        pp = {"kind": "ppos", "flag": {}, "pairs": [("c", "d", (0, 0, 30, 0), None), ("e", "f", (0, 0, 0, 15), None)], "classes": []}
        cp = {"kind": "cpos", "flag": {}, "subtables": [[{"back": [], "input": [["a"]], "ahead": [["b"]], "lookups": [[sp({"a": (0, 0, 30, 0)})]]}]]}
        m = _model([], [sp({"a": (0, 0, 30, 0), "b": (0, 0, 0, 20)}), pp, sp({"g": (1, 2, 3, 4)}), cp, sp({"h": (0, 0, 0, 12)}),
                        sp({"a": (0, 0, 30, 0), "b": (0, 0, 20, 0)})],
                   {"vkrn": {"GPOS": [0, 1, 2]}, "vpal": {"GPOS": [3, 4]}, "tst1": {"GPOS": [5]}})
        t = [(["a", "b", "g"], on("vkrn")), (["c", "d", "e", "f"], on("vkrn")), (["a", "b", "h"], on("vpal")), (["a", "b"], on("tst1")),
             (["a", "b", "c", "d"], on("vkrn", "vpal", "tst1"))]
    elif name == "format2-contexts":
        # many rules over one partition into four classes of four glyphs, backtracks of two or three
        # positions in different classes: the compiler encodes them as class-based (Format 2) subtables
        import random as _random

        rnd = _random.Random(20260924)
        part = [["a", "b", "c", "d"], ["e", "f", "g", "h"], ["i", "j", "k", "l"], ["m", "n", "a.sc", "b.sc"]]
        names_ = ["@PA", "@PB", "@PC", "@PD"]
        outs = ["c.sc", "d.sc", "e.sc", "a.alt1", "a.alt2", "a.alt3", "f_i", "f_f"]
        lines = ["%s = [%s];" % (n_, " ".join(p_)) for n_, p_ in zip(names_, part)]
        gs_rules, gp_rules, subl, posl, seen, prev = [], [], [], [], set(), None
        while len(gs_rules) < 22:
            nb = rnd.choice([2, 2, 3])
            bi = [rnd.randrange(4) for _ in range(nb)]
            if len(set(bi)) == 1:
                bi[0] = (bi[1] + 1) % 4
            ii = rnd.randrange(4)
            ai = [rnd.randrange(4)] if rnd.random() < 0.5 else []
            key = (tuple(bi), ii, tuple(ai))
            if key in seen or (key[0], key[2]) == prev:
                continue
            seen.add(key)
            prev = (key[0], key[2])
            back, inp, ahead = [part[k] for k in bi], part[ii], [part[k] for k in ai]
            t_ = rnd.choice(outs)
            v_ = 10 * (len(gs_rules) + 1)
            ctx_ = " ".join(names_[k] for k in bi), names_[ii], " ".join(names_[k] for k in ai)
            subl.append("    sub %s %s' %s by %s;" % (ctx_[0], ctx_[1], ctx_[2], t_))
            posl.append("    pos %s %s' %d %s;" % (ctx_[0], ctx_[1], v_, ctx_[2]))
            gs_rules.append({"back": back, "input": [inp], "ahead": ahead, "lookups": [[_s([((g,), (t_,)) for g in inp])]]})
            gp_rules.append({"back": back, "input": [inp], "ahead": ahead,
                             "lookups": [[{"kind": "spos", "flag": {}, "values": {g: (0, 0, v_, 0) for g in inp}}]]})
        fea = "\n".join(lines + ["feature tst1 {"] + subl + ["} tst1;", "feature tst2 {"] + posl + ["} tst2;"]) + "\n"
        m = _model([{"kind": "chain", "flag": {}, "subtables": [gs_rules]}], [{"kind": "cpos", "flag": {}, "subtables": [gp_rules]}],
                   {"tst1": {"GSUB": [0]}, "tst2": {"GPOS": [0]}})
        t = []
        for r_ in gs_rules:
            w = [rnd.choice(x) for x in r_["back"]] + [rnd.choice(r_["input"][0])] + [rnd.choice(x) for x in r_["ahead"]]
            nb = len(r_["back"])
            for s_ in (w, w[:nb][::-1] + w[nb:], w[1:], [rnd.choice(part[rnd.randrange(4)]) for _ in range(5)]):
                t.append((s_, on("tst1")))
                t.append((s_, on("tst2")))
    elif name == "mixed-brackets":
        # brackets that mix glyph names, ranges and class references in any order
        fea = """
@LC = [c d e];
@UC = [h i];
feature tst1 {
    sub [a @LC] by [j k l m];
    sub [f g @UC n] by b;
} tst1;
feature tst2 {
    pos [a b @LC] [f @UC g] 25;
    pos [k-m @UC a.sc] 15;
    pos [j @LC]' 35 [@UC n];
} tst2;
"""
        m = _model([_s([("a", "j"), ("c", "k"), ("d", "l"), ("e", "m"), ("f", "b"), ("g", "b"), ("h", "b"), ("i", "b"), ("n", "b")])],
                   [{"kind": "ppos", "flag": {}, "pairs": [], "classes": [[(["a", "b", "c", "d", "e"], ["f", "h", "i", "g"], (0, 0, 25, 0), None)]]},
                    {"kind": "spos", "flag": {}, "values": {g: (0, 0, 15, 0) for g in ["k", "l", "m", "h", "i", "a.sc"]}},
                    {"kind": "cpos", "flag": {}, "subtables": [[{"back": [], "input": [["j", "c", "d", "e"]], "ahead": [["h", "i", "n"]],
                                                                  "lookups": [[{"kind": "spos", "flag": {}, "values": {g: (0, 0, 35, 0) for g in ["j", "c", "d", "e"]}}]]}]]}],
                   {"tst1": {"GSUB": [0]}, "tst2": {"GPOS": [0, 1, 2]}})
        t = [(s_, on("tst1")) for s_ in (["a", "c", "d", "e"], ["f", "g", "h", "i", "n"], ["b", "j"])]
        t += [(s_, on("tst2")) for s_ in (["a", "f"], ["e", "i"], ["c", "g"], ["b", "h"], ["d", "n"], ["k", "l", "m", "h", "i", "a.sc"], ["j", "h"], ["e", "n"], ["c", "i"], ["a", "n"])]
    elif name == "variable-scalars":
        fea = """
markClass acute <anchor (wght=900:200 wght=100:120 wght=400:160) 500> @TOP;
feature tst1 {
    pos a b (wght=100:-40 wght=400:-80 wght=900:40);
    pos c (wght=900:80 wght=400:0 wght=100:40);
    pos d <(wght=400:40 wght=900:0 wght=100:80) 0 (wght=100:0 wght=400:40 wght=900:120) 0>;
    pos base e <anchor 300 (wght=100:400 wght=900:480 wght=400:440)> mark @TOP;
    pos f g (wght=900:40 wght=100:-40 wght=400:-80);
    pos h (wght=400:0 wght=100:40 wght=900:80);
} tst1;
"""
        V = lambda a, b, c: {"var": [(100, a), (400, b), (900, c)]}
        pp = {"kind": "ppos", "flag": {}, "pairs": [("a", "b", (0, 0, -80, 0, {"xa": V(-40, -80, 40)}), None)], "classes": []}
        sp = {"kind": "spos", "flag": {}, "values": {"c": (0, 0, 0, 0, {"xa": V(40, 0, 80)}), "d": (40, 0, 40, 0, {"xp": V(80, 40, 0), "xa": V(0, 40, 120)})}}
        mb = {"kind": "mbase", "flag": {}, "marks": {"acute": ("TOP", (160, 500, {"x": V(120, 160, 200)}))}, "bases": {"e": {"TOP": (300, 440, {"y": V(400, 440, 480)})}}}
        pp2 = {"kind": "ppos", "flag": {}, "pairs": [("f", "g", (0, 0, -80, 0, {"xa": V(-40, -80, 40)}), None)], "classes": []}
        sp2 = {"kind": "spos", "flag": {}, "values": {"h": (0, 0, 0, 0, {"xa": V(40, 0, 80)})}}
        m = _model([], [pp, sp, mb, pp2, sp2], {"tst1": {"GPOS": [0, 1, 2, 3, 4]}}, {"acute": 3})
        m["axis"] = ("wght", 100, 400, 900)
        prog = {"fea": fea.lstrip("\n"), "model": m, "kinds": ["fixed:" + name], "axis": m["axis"]}
        seqs = (["a", "b"], ["c"], ["d"], ["e", "acute"], ["f", "g"], ["h"], ["a", "b", "c", "d", "e", "acute", "f", "g", "h"])
        return prog, [("fixed", s_, {"tst1": 1}, "DFLT", "dflt", loc) for s_ in seqs for loc in (None, 100, 250, 400, 650, 900)]
    elif name == "device-boundaries":
        # <device> tables whose extreme deltas sit at and around every DeltaFormat boundary, at
        # the first and at the last ppem of the range, in values and in anchors
        edges = [(-1, 1), (-2, 1), (-2, 2), (-3, 0), (-8, 7), (-8, 8), (-9, 7), (-9, 0), (0, -9), (7, -8), (-128, 127), (127, -128), (1, -2), (0, 8), (-10, 3)]
        glyphs_ = list("abcdefghijklmn") + ["a.sc"]
        lines, vals, devs, t = ["feature tst1 {"], {}, [], []
        for g_, (lo_, hi_) in zip(glyphs_, edges):
            dx = {10: lo_, 11: 0, 13: hi_}
            dy = {12: hi_, 17: lo_}
            lines.append("    pos %s <5 0 20 0 <device %s> <device NULL> <device %s> <device NULL>>;" % (
                g_, ", ".join("%d %d" % kv for kv in sorted(dy.items())), ", ".join("%d %d" % kv for kv in sorted(dx.items()))))
            vals[g_] = (5, 0, 20, 0, {"xp": {"dev": dy}, "xa": {"dev": dx}})
            devs += [_devrec(dx), _devrec(dy)]
        lines.append("} tst1;")
        lines.append("markClass acute <anchor 100 500 <device 11 -9, 12 7> <device 11 8>> @TOP;")
        lines.append("feature tst2 {")
        lines.append("    pos base a <anchor 250 450 <device 9 -2, 10 1> <device 9 -9, 16 -8>> mark @TOP;")
        lines.append("    pos base b <anchor 240 460 <device NULL> <device 12 127, 13 -128>> mark @TOP;")
        lines.append("} tst2;")
        lines.append("feature tst3 {")
        lines.append("    pos cursive c <anchor 10 20 <device 11 -9> <device NULL>> <anchor 300 40 <device 11 7, 12 -9> <device 11 2>>;")
        lines.append("    pos cursive d <anchor 15 25> <anchor 310 45 <device NULL> <device 14 -3>>;")
        lines.append("} tst3;")
        A = lambda x, y, dx=None, dy=None: (x, y, dict(([("x", {"dev": dx})] if dx else []) + ([("y", {"dev": dy})] if dy else [])))
        mb = {"kind": "mbase", "flag": {}, "marks": {"acute": ("TOP", A(100, 500, {11: -9, 12: 7}, {11: 8}))},
              "bases": {"a": {"TOP": A(250, 450, {9: -2, 10: 1}, {9: -9, 16: -8})}, "b": {"TOP": A(240, 460, None, {12: 127, 13: -128})}}}
        cu = {"kind": "curs", "flag": {}, "anchors": {"c": (A(10, 20, {11: -9}), A(300, 40, {11: 7, 12: -9}, {11: 2})), "d": ((15, 25), A(310, 45, None, {14: -3}))}}
        devs += [_devrec(d_) for d_ in ({11: -9, 12: 7}, {11: 8}, {9: -2, 10: 1}, {9: -9, 16: -8}, {12: 127, 13: -128}, {11: -9}, {11: 7, 12: -9}, {11: 2}, {14: -3})]
        m = _model([], [{"kind": "spos", "flag": {}, "values": vals}, mb, cu], {"tst1": {"GPOS": [0]}, "tst2": {"GPOS": [1]}, "tst3": {"GPOS": [2]}}, {"acute": 3})
        prog = {"fea": "\n".join(lines) + "\n", "model": m, "kinds": ["fixed:" + name], "devices_all": sorted(set(devs)), "devices_sure": sorted(set(devs))}
        tt = []
        for p_ in [None] + list(range(8, 19)):
            for s_ in ([g_ for g_ in glyphs_[:8]], [g_ for g_ in glyphs_[8:]], ["a", "acute", "b", "acute"], ["c", "c", "d", "c"], ["d", "c"]):
                tt.append(("fixed", s_, {"tst1": 1, "tst2": 1, "tst3": 1}, "DFLT", "dflt", None, p_))
        return prog, tt
    elif name == "pair-subtables":
        fea = """
feature tst1 {
    pos a b -50;
    pos a <1 2 3 0> c <4 5 6 0>;
    enum pos [d e] f 11;
    pos [a b] [c d] 30;
    pos [e f] <0 0 7 0> [g] <0 0 9 0>;
    subtable;
    pos [a] [e] 77;
    pos [b] [c] 99;
    pos [g] [h] 13;
} tst1;
"""
        pp = {"kind": "ppos", "flag": {},
              "pairs": [("a", "b", (0, 0, -50, 0), None), ("a", "c", (1, 2, 3, 0), (4, 5, 6, 0)), ("d", "f", (0, 0, 11, 0), None), ("e", "f", (0, 0, 11, 0), None)],
              "classes": [[(["a", "b"], ["c", "d"], (0, 0, 30, 0), None), (["e", "f"], ["g"], (0, 0, 7, 0), (0, 0, 9, 0))],
                          [(["a"], ["e"], (0, 0, 77, 0), None), (["b"], ["c"], (0, 0, 99, 0), None), (["g"], ["h"], (0, 0, 13, 0), None)]]}
        m = _model([], [pp], {"tst1": {"GPOS": [0]}})
        t = [(s, on("tst1")) for s in (["a", "b"], ["a", "c"], ["a", "c", "d"], ["a", "d"], ["a", "e"], ["b", "c"], ["b", "d"], ["g", "h"],
                                        ["e", "g", "h"], ["f", "g", "h"], ["d", "f"], ["e", "f", "g"], ["a", "b", "c"], ["b", "a", "b", "d", "f"], ["a", "n"], ["n", "a"])]
    elif name == "marks":
        fea = GDEF_TXT + """
markClass [acute grave] <anchor 100 500> @TOP;
markClass macron <anchor 120 520> @TOP;
markClass [cedilla ogonek] <anchor 90 -10> @BOT;
feature tst1 {
    pos base [a b] <anchor 250 450> mark @TOP <anchor 200 -20> mark @BOT;
    pos base c <anchor 210 460> mark @TOP;
} tst1;
feature tst2 {
    pos mark [acute grave] <anchor 110 700> mark @TOP;
} tst2;
feature tst3 {
    pos ligature f_i <anchor 100 480> mark @TOP ligComponent <anchor 380 490> mark @TOP <anchor 350 -30> mark @BOT;
} tst3;
feature tst4 {
    pos a b -40;
    pos a 25;
} tst4;
"""
        marks_top = {"acute": ("TOP", (100, 500)), "grave": ("TOP", (100, 500)), "macron": ("TOP", (120, 520))}
        marks_bot = {"cedilla": ("BOT", (90, -10)), "ogonek": ("BOT", (90, -10))}
        allm = dict(marks_top)
        allm.update(marks_bot)
        mb = {"kind": "mbase", "flag": {}, "marks": allm,
              "bases": {"a": {"TOP": (250, 450), "BOT": (200, -20)}, "b": {"TOP": (250, 450), "BOT": (200, -20)}, "c": {"TOP": (210, 460)}}}
        mm = {"kind": "mmark", "flag": {}, "marks": marks_top, "bases": {"acute": {"TOP": (110, 700)}, "grave": {"TOP": (110, 700)}}}
        ml = {"kind": "mlig", "flag": {}, "marks": allm, "ligs": {"f_i": [{"TOP": (100, 480)}, {"TOP": (380, 490), "BOT": (350, -30)}]}}
        pp = {"kind": "ppos", "flag": {}, "pairs": [("a", "b", (0, 0, -40, 0), None)], "classes": []}
        sp = {"kind": "spos", "flag": {}, "values": {"a": (0, 0, 25, 0)}}
        m = _model([], [mb, mm, ml, pp, sp], {"tst1": {"GPOS": [0]}, "tst2": {"GPOS": [1]}, "tst3": {"GPOS": [2]}, "tst4": {"GPOS": [3, 4]}}, GDEF)
        t = [(["a", "acute"], on("tst1")), (["a", "cedilla", "acute"], on("tst1")), (["c", "ogonek"], on("tst1")), (["c", "macron", "grave"], on("tst1", "tst2")),
             (["a", "acute", "grave", "macron"], on("tst1", "tst2")), (["a", "cedilla", "acute", "grave"], on("tst2")), (["f_i", "acute", "ogonek"], on("tst3")),
             (["a", "acute", "b", "grave"], on("tst1", "tst4")), (["a", "b", "cedilla"], on("tst1", "tst4")), (["acute", "a"], on("tst1", "tst2")), (["n", "acute"], on("tst1"))]
    elif name == "chain-positions":
        fea = """
lookup S1 { sub a by b; } S1;
lookup S2 { sub c by d; sub b by e; } S2;
lookup M1 { sub e by f g; } M1;
lookup LG { sub c d by a_b; sub c d e by c_d_e; } LG;
feature tst1 {
    sub h a' lookup S1 b' c' lookup S2 i;
    sub i e' lookup M1 j;
    sub [j k] c' lookup LG d;
    ignore sub l a' , a' l;
    sub a' by n;
} tst1;
feature tst2 {
    sub a b' c by d;
    sub c b' a by e;
    sub b' by f;
} tst2;
feature tst3 {
    rsub a' a by b;
    rsub b c' by d;
} tst3;
feature tst4 {
    pos a' 10 b' 20 c;
    pos [d e] a' <1 2 3 0>;
    ignore pos f a';
    pos a' 50;
} tst4;
"""
        S1, S2, M1 = _s([("a", "b")]), _s([("c", "d"), ("b", "e")]), _s([(("e",), ("f", "g"))])
        LG = _s([(("c", "d"), ("a_b",)), (("c", "d", "e"), ("c_d_e",))])
        c1 = {"kind": "chain", "flag": {}, "subtables": [[
            {"back": [["h"]], "input": [["a"], ["b"], ["c"]], "ahead": [["i"]], "lookups": [[0], [], [1]]},
            {"back": [["i"]], "input": [["e"]], "ahead": [["j"]], "lookups": [[2]]},
            {"back": [["j", "k"]], "input": [["c"]], "ahead": [["d"]], "lookups": [[3]]},
            {"back": [["l"]], "input": [["a"]], "ahead": [], "lookups": [[]]},
            {"back": [], "input": [["a"]], "ahead": [["l"]], "lookups": [[]]},
            {"back": [], "input": [["a"]], "ahead": [], "lookups": [[_s([("a", "n")])]]}]]}
        c2 = {"kind": "chain", "flag": {}, "subtables": [[
            {"back": [["a"]], "input": [["b"]], "ahead": [["c"]], "lookups": [[_s([("b", "d")])]]},
            {"back": [["c"]], "input": [["b"]], "ahead": [["a"]], "lookups": [[_s([("b", "e")])]]},
            {"back": [], "input": [["b"]], "ahead": [], "lookups": [[_s([("b", "f")])]]}]]}
        r1 = {"kind": "rchain", "flag": {}, "rules": [{"back": [], "ahead": [["a"]], "map": {"a": "b"}}, {"back": [["b"]], "ahead": [], "map": {"c": "d"}}]}
        sp = lambda d: {"kind": "spos", "flag": {}, "values": d}
        cp = {"kind": "cpos", "flag": {}, "subtables": [[
            {"back": [], "input": [["a"], ["b"]], "ahead": [["c"]], "lookups": [[sp({"a": (0, 0, 10, 0)})], [sp({"b": (0, 0, 20, 0)})]]},
            {"back": [["d", "e"]], "input": [["a"]], "ahead": [], "lookups": [[sp({"a": (1, 2, 3, 0)})]]},
            {"back": [["f"]], "input": [["a"]], "ahead": [], "lookups": [[]]},
            {"back": [], "input": [["a"]], "ahead": [], "lookups": [[sp({"a": (0, 0, 50, 0)})]]}]]}
        m = _model([S1, S2, M1, LG, c1, c2, r1], [cp], {"tst1": {"GSUB": [4]}, "tst2": {"GSUB": [5]}, "tst3": {"GSUB": [6]}, "tst4": {"GPOS": [0]}})
        t = [(s, on("tst1")) for s in (["h", "a", "b", "c", "i"], ["h", "a", "b", "c"], ["a", "b", "c", "i"], ["i", "e", "j"], ["i", "e", "j", "a"], ["j", "c", "d"],
                                        ["k", "c", "d", "e"], ["k", "c", "e"], ["l", "a"], ["a", "l"], ["a"], ["a", "a", "l", "a"], ["h", "a", "b", "c", "i", "e", "j", "c", "d"])]
        t += [(s, on("tst2")) for s in (["a", "b", "c"], ["c", "b", "a"], ["b"], ["a", "b", "b", "c"], ["c", "b", "c", "b", "a"])]
        t += [(s, on("tst3")) for s in (["a", "a"], ["a", "a", "a", "a"], ["b", "c"], ["a", "a", "c"], ["a", "c", "a", "a", "c"])]
        t += [(s, on("tst4")) for s in (["a", "b", "c"], ["a", "b"], ["d", "a"], ["e", "a", "b", "c"], ["f", "a"], ["a"], ["n", "a", "f", "a", "d", "a"])]
    elif name == "ligature-longest":
        fea = """
feature tst1 {
    sub f i by f_i;
    sub f f i by f_f_i;
    sub f f by f_f;
    sub a b by a_b;
} tst1;
feature tst2 {
    sub f f by f_f;
    subtable;
    sub f f i by f_f_i;
} tst2;
feature tst3 {
    sub c d e by c_d_e;
    sub c by d e;
} tst3;
lookup MIX {
    sub a by b;
    sub a b by a_b;
    sub c by d;
} MIX;
feature tst4 { lookup MIX; } tst4;
"""
        l1 = _s([(("f", "i"), ("f_i",)), (("f", "f", "i"), ("f_f_i",)), (("f", "f"), ("f_f",)), (("a", "b"), ("a_b",))])
        l2 = {"kind": "subst", "flag": {}, "subtables": [[(("f", "f"), ("f_f",))], [(("f", "f", "i"), ("f_f_i",))]]}
        l3a = _s([(("c", "d", "e"), ("c_d_e",))])
        l3b = _s([(("c",), ("d", "e"))])
        mix = _s([(("a",), ("b",)), (("a", "b"), ("a_b",)), (("c",), ("d",))])
        m = _model([mix, l1, l2, l3a, l3b], [], {"tst1": {"GSUB": [1]}, "tst2": {"GSUB": [2]}, "tst3": {"GSUB": [3, 4]}, "tst4": {"GSUB": [0]}})
        t = [(s, on("tst1")) for s in (["f", "f", "i"], ["f", "i"], ["f", "f"], ["f", "f", "f", "i"], ["a", "b", "f", "f", "a"], ["f", "a", "b"])]
        t += [(s, on("tst2")) for s in (["f", "f", "i"], ["f", "f"], ["f", "i"])]
        t += [(s, on("tst3")) for s in (["c", "d", "e"], ["c", "d"], ["c"], ["c", "c", "d", "e"])]
        t += [(s, on("tst4")) for s in (["a"], ["a", "b"], ["c", "a", "a", "b"], ["b", "a"])]
    elif name == "flags":
        fea = GDEF_TXT + """
@TOPM = [acute grave];
@BOTM = [cedilla ogonek];
feature tst1 {
    lookupflag IgnoreMarks;
    sub f i by f_i;
    sub a' b by c;
} tst1;
feature tst2 {
    lookupflag MarkAttachmentType @TOPM;
    sub a acute by b;
    lookupflag MarkAttachmentType @BOTM;
    sub a cedilla by c;
} tst2;
feature tst3 {
    lookupflag UseMarkFilteringSet [acute];
    sub d acute by e;
    lookupflag UseMarkFilteringSet [cedilla macron];
    sub d cedilla by g;
    lookupflag 0;
    sub d macron by h;
} tst3;
feature tst4 {
    lookupflag IgnoreLigatures;
    pos a b -30;
    lookupflag IgnoreBaseGlyphs;
    pos acute 15;
    pos f_i grave 22;
} tst4;
"""
        im = {"ignore": [3]}
        m = _model([_s([(("f", "i"), ("f_i",))], im),
                    {"kind": "chain", "flag": im, "subtables": [[{"back": [], "input": [["a"]], "ahead": [["b"]], "lookups": [[_s([("a", "c")], im)]]}]]},
                    _s([(("a", "acute"), ("b",))], {"mat": ["acute", "grave"]}),
                    _s([(("a", "cedilla"), ("c",))], {"mat": ["cedilla", "ogonek"]}),
                    _s([(("d", "acute"), ("e",))], {"mfs": ["acute"]}),
                    _s([(("d", "cedilla"), ("g",))], {"mfs": ["cedilla", "macron"]}),
                    _s([(("d", "macron"), ("h",))])],
                   [{"kind": "ppos", "flag": {"ignore": [2]}, "pairs": [("a", "b", (0, 0, -30, 0), None)], "classes": []},
                    {"kind": "spos", "flag": {"ignore": [1]}, "values": {"acute": (0, 0, 15, 0)}},
                    {"kind": "ppos", "flag": {"ignore": [1]}, "pairs": [("f_i", "grave", (0, 0, 22, 0), None)], "classes": []}],
                   {"tst1": {"GSUB": [0, 1]}, "tst2": {"GSUB": [2, 3]}, "tst3": {"GSUB": [4, 5, 6]},
                    "tst4": {"GPOS": [0, 1, 2]}}, GDEF)
        t = [(s, on("tst1")) for s in (["f", "acute", "i"], ["f", "i"], ["f", "f_f", "i"], ["a", "grave", "cedilla", "b"], ["a", "b"], ["a", "c", "b"])]
        t += [(s, on("tst2")) for s in (["a", "acute"], ["a", "cedilla", "acute"], ["a", "grave", "acute"], ["a", "acute", "cedilla"], ["a", "macron", "cedilla"],
                                        ["a", "grave", "cedilla"], ["a", "ogonek", "cedilla"])]
        t += [(s, on("tst3")) for s in (["d", "acute"], ["d", "grave", "cedilla", "acute"], ["d", "acute", "cedilla"], ["d", "grave", "cedilla"], ["d", "macron", "cedilla"],
                                        ["d", "macron"], ["d", "acute", "macron"], ["d", "n", "acute"])]
        t += [(s, on("tst4")) for s in (["a", "f_i", "b"], ["a", "acute", "b"], ["a", "b"], ["f_i", "a", "grave"], ["f_i", "f_f", "grave"], ["a", "acute"])]
    else:
        raise KeyError(name)
    prog = {"fea": fea.lstrip("\n"), "model": m, "kinds": ["fixed:" + name]}
    return prog, _texts(t)
