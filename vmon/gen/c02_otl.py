"""Generators for Coverage / ClassDef / SingleSubst contents (C02): plain glyph-id sets and maps.

The library decides the binary format from the shape of the data:
  Coverage  format 2 iff  3 * ranges < glyphs      (or the glyph list is not sorted by glyph id)
  ClassDef  format 2 iff  3 * ranges < span + 1    (span = last - first + 1 of all classified glyphs)
  SingleSubst format 1 iff every pair has the same (out - in) mod 65536
so the generators produce sets exactly at, just below and just above those thresholds.
"""

COVERAGE_SHAPES = ["empty", "single", "scattered", "one_run", "boundary", "runs_gap1", "with_notdef", "last_glyph",
                   "unsorted", "dense_random", "all"]
CLASSDEF_SHAPES = ["empty", "single", "scattered", "one_run", "boundary", "alternating", "start_at_0", "end_at_last",
                   "holes", "big_classes", "all_one_class"]
SINGLE_SHAPES = ["empty", "one_pair", "const_delta", "neg_delta", "wrap_delta", "identity", "one_outlier", "random",
                 "to_notdef", "from_notdef", "dense_random"]


def _ranges_to_set(ranges):
    s = []
    for a, b in ranges:
        s.extend(range(a, b + 1))
    return s


def _disjoint_ranges(rnd, n, lengths):
    """Place runs of the given lengths in 0..n-1 with at least one missing glyph between two runs."""
    r = len(lengths)
    need = sum(lengths) + (r - 1)
    if need > n:
        return None
    free = n - need
    cuts = sorted(rnd.randint(0, free) for _ in range(r))
    out, pos, prev = [], 0, 0
    for i, (ln, cut) in enumerate(zip(lengths, cuts)):
        pos += (cut - prev) + (1 if i else 0)
        prev = cut
        out.append((pos, pos + ln - 1))
        pos += ln
    return out


def gen_coverage(rnd, shape, n):
    """-> list of glyph ids (sorted unless shape == 'unsorted')"""
    if shape == "empty":
        return []
    if shape == "single":
        return [rnd.choice([0, 1, n - 1, rnd.randrange(n)])]
    if shape == "all":
        return list(range(n))
    if shape == "scattered":
        k = rnd.randint(2, max(2, min(40, n // 3)))
        return sorted(rnd.sample(range(0, n, 2), min(k, len(range(0, n, 2)))))
    if shape == "one_run":
        ln = rnd.choice([2, 3, 4, 5, 50, n // 2])
        ln = max(1, min(ln, n - 1))
        a = rnd.randrange(0, n - ln + 1)
        return list(range(a, a + ln))
    if shape == "boundary":
        # glyphs - 3*ranges in {-1, 0, +1}
        for _ in range(50):
            r = rnd.randint(1, 8)
            target = 3 * r + rnd.choice([-1, 0, 1])
            lengths = [1] * r
            extra = target - r
            if extra < 0:
                continue
            for _k in range(extra):
                lengths[rnd.randrange(r)] += 1
            rs = _disjoint_ranges(rnd, n, lengths)
            if rs:
                return _ranges_to_set(rs)
        return [1, 2, 3]
    if shape == "runs_gap1":
        # runs separated by exactly one missing glyph
        out, pos = [], rnd.randrange(0, max(1, n // 4))
        for _ in range(rnd.randint(2, 10)):
            ln = rnd.choice([1, 2, 3, 4, 7])
            if pos + ln >= n:
                break
            out.extend(range(pos, pos + ln))
            pos += ln + 1
        return out or [0]
    if shape == "with_notdef":
        return sorted(set([0] + rnd.sample(range(n), min(n, rnd.randint(1, 10)))))
    if shape == "last_glyph":
        k = rnd.randint(1, min(6, n))
        return sorted(set(range(n - k, n)) | set(rnd.sample(range(n), min(n, 3))))
    if shape == "unsorted":
        g = sorted(rnd.sample(range(n), min(n, rnd.randint(2, 30))))
        h = list(g)
        while h == g and len(g) > 1:
            rnd.shuffle(h)
        return h
    if shape == "dense_random":
        return sorted(g for g in range(n) if rnd.random() < 0.6)
    raise ValueError(shape)


def gen_classdef(rnd, shape, n, classes=(1, 2, 3, 4)):
    """-> {gid: class != 0}"""
    cl = lambda: rnd.choice(classes)
    if shape == "empty":
        return {}
    if shape == "single":
        return {rnd.choice([0, 1, n - 1, rnd.randrange(n)]): cl()}
    if shape == "scattered":
        return {g: cl() for g in rnd.sample(range(n), min(n, rnd.randint(2, 30)))}
    if shape == "one_run":
        ln = max(1, min(rnd.choice([2, 3, 4, 50]), n - 1))
        a = rnd.randrange(0, n - ln + 1)
        c = cl()
        return {g: c for g in range(a, a + ln)}
    if shape == "all_one_class":
        c = cl()
        return {g: c for g in range(n)}
    if shape == "alternating":
        a = rnd.randrange(0, max(1, n - 20))
        c1, c2 = classes[0], classes[1 % len(classes)]
        return {g: (c1 if (g - a) % 2 == 0 else c2) for g in range(a, min(n, a + rnd.randint(2, 20)))}
    if shape in ("boundary", "start_at_0", "end_at_last", "holes"):
        # span + 1 - 3*ranges in {-1, 0, 1}: ranges are maximal runs of equal class
        for _ in range(80):
            r = rnd.randint(1, 7)
            span = 3 * r - 1 + rnd.choice([-1, 0, 1])
            if span < r or span > n:
                continue
            # r runs inside `span` consecutive glyph ids, first and last glyph classified
            covered = span if shape != "holes" else max(r, span - rnd.randint(1, max(1, span - r)))
            lengths = [1] * r
            for _k in range(covered - r):
                lengths[rnd.randrange(r)] += 1
            gaps = [0] * (r - 1)
            for _k in range(span - covered):
                if not gaps:
                    break
                gaps[rnd.randrange(r - 1)] += 1
            if sum(lengths) + sum(gaps) != span:
                continue
            a = 0 if shape == "start_at_0" else (n - span if shape == "end_at_last" else rnd.randrange(0, n - span + 1))
            out, pos, prev = {}, a, None
            ok = True
            for i, ln in enumerate(lengths):
                c = cl()
                if i and gaps[i - 1] == 0:
                    others = [x for x in classes if x != prev]
                    if not others:
                        ok = False
                        break
                    c = rnd.choice(others)
                for g in range(pos, pos + ln):
                    out[g] = c
                prev = c
                pos += ln + (gaps[i] if i < r - 1 else 0)
            if ok:
                return out
        return {1: classes[0]}
    if shape == "big_classes":
        return {g: rnd.choice([1, 255, 256, 65535, 1000]) for g in rnd.sample(range(n), min(n, rnd.randint(2, 40)))}
    raise ValueError(shape)


def gen_single(rnd, shape, n):
    """-> {in gid: out gid}"""
    if shape == "empty":
        return {}
    if shape == "one_pair":
        return {rnd.randrange(n): rnd.randrange(n)}
    if shape in ("const_delta", "neg_delta"):
        k = rnd.randint(2, min(40, n // 2))
        d = rnd.randint(1, n - k - 1) if n - k - 1 >= 1 else 0
        ins = sorted(rnd.sample(range(0, n - d), min(k, n - d)))
        if shape == "neg_delta":
            return {g + d: g for g in ins}
        return {g: g + d for g in ins}
    if shape == "wrap_delta":
        # some pairs go up, some wrap around modulo 65536 -- only a constant delta mod 65536 if n == 65536;
        # in a smaller font a constant *negative* delta is what exercises the modulo
        d = rnd.randint(1, max(1, n // 2))
        ins = sorted(rnd.sample(range(d, n), min(rnd.randint(1, 30), n - d)))
        return {g: g - d for g in ins}
    if shape == "identity":
        return {g: g for g in rnd.sample(range(n), min(n, rnd.randint(1, 20)))}
    if shape == "one_outlier":
        k = rnd.randint(3, min(30, max(3, n // 2)))
        d = rnd.randint(1, max(1, n - k - 1))
        ins = sorted(rnd.sample(range(0, max(1, n - d)), min(k, max(1, n - d))))
        m = {g: g + d for g in ins}
        o = rnd.choice(ins)
        m[o] = (m[o] + 1) % n
        return m
    if shape == "to_notdef":
        return {g: 0 for g in rnd.sample(range(1, n), min(n - 1, rnd.randint(1, 10)))} if n > 1 else {0: 0}
    if shape == "from_notdef":
        m = {0: rnd.randrange(n)}
        for g in rnd.sample(range(n), min(n, 5)):
            m.setdefault(g, rnd.randrange(n))
        return m
    if shape == "random":
        return {g: rnd.randrange(n) for g in rnd.sample(range(n), min(n, rnd.randint(2, 60)))}
    if shape == "dense_random":
        return {g: rnd.randrange(n) for g in range(n) if rnd.random() < 0.7}
    raise ValueError(shape)


# ---------------------------------------------------------------- pair positioning big enough to overflow 16-bit offsets
PAIRPOS_SHAPES = ["classes_2split", "classes_multi_glyph", "classes_value2", "classes_3split", "glyphs_split", "classes_small"]


def gen_pairpos(rnd, shape):
    """-> dict(n glyphs, kind 'classes'|'glyphs', left [[gid]], right [[gid]], value(i, j) -> (v1, v2)) as plain data:
    {"n", "kind", "left", "right", "values": {(i, j): ((xPla, yPla, xAdv, yAdv), (..))}}.
    A single subtable holds everything; its record array is larger than 64 KiB except for 'classes_small'."""
    dims = {"classes_2split": (220, 180), "classes_multi_glyph": (200, 190), "classes_value2": (150, 120),
            "classes_3split": (420, 170), "glyphs_split": (340, 90), "classes_small": (12, 9)}[shape]
    nl, nr = dims
    nl += rnd.randint(0, 7)
    nr += rnd.randint(0, 5)
    per = 2 if shape == "classes_multi_glyph" else 1
    left, right, g = [], [], 1
    for _ in range(nl):
        k = rnd.randint(1, per + 1) if per > 1 else 1
        left.append(list(range(g, g + k)))
        g += k
    for _ in range(nr):
        k = rnd.randint(1, per) if per > 1 else 1
        right.append(list(range(g, g + k)))
        g += k
    n = g + rnd.randint(1, 6)          # a few glyphs in no class at all
    a, b, c = rnd.randrange(1, 500), rnd.randrange(1, 50), rnd.randrange(1000)
    values = {}
    for i in range(nl):
        for j in range(nr):
            x = ((i * a + j * b + c) % 1999) - 999
            x = x if x else 1000
            if shape == "classes_value2":
                values[(i, j)] = ((0, 0, x, 0), (((i + j) % 7) - 3, 0, ((i * 3 + j) % 11) - 5, 0))
            elif shape == "glyphs_split":
                if (i + j) % 3 == 0:
                    continue          # format 1 lists pairs individually: leave holes
                values[(i, j)] = ((0, 0, x, 0), (0, 0, 0, 0))
            else:
                values[(i, j)] = ((0, 0, x, 0), (0, 0, 0, 0))
    return {"n": n, "kind": "glyphs" if shape == "glyphs_split" else "classes", "left": left, "right": right, "values": values}
