"""Grammar-based generator of OpenType feature files for C11.

`generate(rnd, level)` returns a dict with the feature-file TEXT and, built in parallel
from the same random decisions, the rule-level MODEL (vmon/oracle/otlref.py) of what the
rules mean, plus witness / near-miss / ordering / random texts.  The model is written
from the OpenType Feature File specification; it never looks at compiled tables.

The generator stays inside the fragment where the specification fixes the meaning:

* a run of anonymous rules inside a feature is one lookup per (rule type, lookupflag);
  adjacent anonymous runs of single / multiple / ligature substitutions are always
  separated by another statement (whether they share a lookup is implementation-defined);
* class pairs inside one subtable use pairwise disjoint-or-identical left classes and
  right classes; specific pairs precede class pairs; no duplicate pairs;
* second value records of pairs are absent or have a non-zero field;
* no all-zero value records;
* contextual rules carry at most one length-changing nested lookup (ligature /
  multiple) and it is the last lookup record of the rule;
* cursive attachment only left-to-right without the RightToLeft flag;
* every lookup block inside a feature states its lookupflag explicitly, and so does the
  first anonymous run after a block, a script or a language statement;
* script/language sections follow the canonical pattern
  `default rules; script X; rules; language Y [exclude_dflt]; rules; ...` with every
  script at most once per feature and `languagesystem X dflt` declared whenever
  `languagesystem X Y` is.
"""

LETTERS = list("abcdefghijklmn")
SC = [x + ".sc" for x in "abcde"]
ALTS = ["a.alt1", "a.alt2", "a.alt3"]
LIGS = ["f_i", "f_f", "f_f_i", "a_b", "c_d_e"]
MARKS = ["acute", "grave", "macron", "cedilla", "ogonek", "dotbelow"]
KW = ["by", "sub", "mark"]
CIDS = ["cid00010", "cid00011", "cid00012"]
ORDER = [".notdef"] + LETTERS + SC + ALTS + LIGS + MARKS + KW + CIDS
ADVANCES = {g: 400 + 10 * i for i, g in enumerate(ORDER)}
BASES = LETTERS + SC + ALTS + KW + CIDS
FAMILIES = [LETTERS, SC, ALTS]
TOP, BOT = ["acute", "grave", "macron"], ["cedilla", "ogonek", "dotbelow"]
MAT = {"MAT1": ["acute", "grave"], "MAT2": ["cedilla", "ogonek"]}
SCRIPTS = {"latn": ["TRK ", "NLD "], "cyrl": ["SRB "], "grek": []}
KEYWORDS = set(KW)
VERTICAL = ["vkrn", "vpal", "vhal", "valt"]
DEVICE_EDGES = [-128, -127, -10, -9, -9, -8, -7, -3, -2, -1, 0, 1, 2, 7, 8, 9, 126, 127]
_ANY = ("single", "multiple", "ligature")
FAMILY = {"single": _ANY, "multiple": _ANY, "ligature": _ANY, "chain": ("chain",), "rchain": ("rchain",),
          "alternate": ("alternate",), "spos": ("spos",), "ppos": ("ppos",), "curs": ("curs",), "mbase": ("mbase",),
          "mlig": ("mlig",), "mmark": ("mmark",), "cpos": ("cpos",)}


def gtext(rnd, g):
    if g in KEYWORDS:
        return "\\" + g
    if g.startswith("cid"):
        return ("\\%d" % int(g[3:])) if rnd.random() < 0.6 else g
    return g


def device_records(x, out=None):
    """(StartSize, EndSize, DeltaFormat, deltas) of every Device table in a model fragment."""
    out = set() if out is None else out
    if isinstance(x, dict):
        if "dev" in x and isinstance(x["dev"], dict) and x["dev"]:
            sizes = sorted(x["dev"])
            full = tuple(x["dev"].get(p_, 0) for p_ in range(sizes[0], sizes[-1] + 1))
            fmt = 1 if (min(full) >= -2 and max(full) <= 1) else 2 if (min(full) >= -8 and max(full) <= 7) else 3
            out.add((sizes[0], sizes[-1], fmt, full))
        for k, v in x.items():
            if not (isinstance(k, str) and k.startswith("_")):
                device_records(v, out)
    elif isinstance(x, (list, tuple)):
        for v in x:
            device_records(v, out)
    return out


class Lk(object):
    """One generated lookup: statements + model + witnesses."""

    def __init__(self, table, kind, model, lines, flag_text, wit, near=()):
        self.table, self.kind, self.model, self.lines = table, kind, model, lines
        self.flag_text = flag_text       # "" or "lookupflag ...;"
        self.wit = wit                   # witness glyph sequences
        self.near = list(near)
        self.name = None
        self.index = None
        self.feature_value = None        # for alternates: number of alternates
        self.seqs = [list(w) for w in wit]  # plain input sequences (no sprinkled glyphs)
        self.devs, self.mark_devs = [], []  # <device> tables written inside the lookup / in the mark classes it uses


class FeaGen(object):
    def __init__(self, rnd, level=3):
        self.rnd = rnd
        self.level = level     # 1: subst + single/pair pos; 2: + contextual; 3: + mark/cursive
        self.pre = []
        self.blocks = []
        self.lookups = {"GSUB": [], "GPOS": []}
        self.named = []        # Lk with names, defined so far
        self.ncls = 0
        self.nname = 0
        self.outs = []         # glyphs produced by earlier substitutions (to bias feeding)
        self.ins = []          # glyphs consumed by earlier substitutions
        self.stmt_kinds = set()
        r = rnd.random()
        self.use_marks = level >= 2 and r < 0.75
        self.gdef_mode = "none"
        if self.use_marks:
            self.gdef_mode = "explicit" if rnd.random() < 0.7 else "inferred"
        self.comp = []
        self.gdef = None
        self.langsys = [("DFLT", "dflt")]
        self.anchordefs = {}
        self.vrdefs = {}
        self.inferred = {}     # glyph -> class from pos base/ligature/mark statements
        self.vertical = False  # inside a vertical feature block a bare number means YAdvance
        self._devlog = []      # (StartSize, EndSize, DeltaFormat, deltas) of every <device> written so far
        self.markclass_devs = []

    # ------------------------------------------------------------ text helpers
    def g(self, name):
        return gtext(self.rnd, name)

    def seq(self, names):
        return " ".join(self.g(n) for n in names)

    def cls(self, glyphs, allow_single=True, force_class=False):
        """Feature-file text of an ordered glyph list (class or single glyph)."""
        rnd = self.rnd
        glyphs = list(glyphs)
        if len(glyphs) == 1 and allow_single and not force_class and rnd.random() < 0.8:
            return self.g(glyphs[0])
        r = rnd.random()
        if r < 0.2 and len(glyphs) >= 2:
            self.ncls += 1
            name = "@C%d" % self.ncls
            self.pre.append("%s = %s;" % (name, self._inline(glyphs)))
            self.stmt_kinds.add("named-class")
            return name
        if r < 0.4 and len(glyphs) >= 3:
            # brackets mixing glyph names, ranges and class references in any order: the part
            # glyphs[i:j] becomes a named class, what precedes and follows stays inline
            i = rnd.randrange(0, len(glyphs) - 1)
            j = rnd.randrange(i + 1, len(glyphs) + (1 if i else 0))
            self.ncls += 1
            name = "@C%d" % self.ncls
            self.pre.append("%s = %s;" % (name, self._inline(glyphs[i:j])))
            parts = []
            if i:
                parts.append(self._inline(glyphs[:i])[1:-1])
            parts.append(name)
            rest = glyphs[j:]
            if len(rest) >= 2 and rnd.random() < 0.3:
                self.ncls += 1
                name2 = "@C%d" % self.ncls
                self.pre.append("%s = %s;" % (name2, self._inline(rest[:1] if len(rest) < 3 else rest[:2])))
                parts.append(name2)
                rest = rest[1:] if len(rest) < 3 else rest[2:]
            if rest:
                parts.append(self._inline(rest)[1:-1])
            self.stmt_kinds.add("nested-class" if not i else "glyphs-before-class-in-brackets")
            return "[%s]" % " ".join(parts)
        return self._inline(glyphs)

    def _inline(self, glyphs):
        # collapse runs that are contiguous inside a family into ranges
        parts = []
        i = 0
        while i < len(glyphs):
            run = 1
            fam = next((f for f in FAMILIES if glyphs[i] in f), None)
            if fam is not None:
                p = fam.index(glyphs[i])
                while i + run < len(glyphs) and p + run < len(fam) and glyphs[i + run] == fam[p + run]:
                    run += 1
            if run >= 3 and self.rnd.random() < 0.7:
                sep = " - " if self.rnd.random() < 0.3 else "-"
                parts.append("%s%s%s" % (glyphs[i], sep, glyphs[i + run - 1]))
                self.stmt_kinds.add("range")
                i += run
                continue
            if (glyphs[i] == "cid00010" and glyphs[i:i + 3] == CIDS and self.rnd.random() < 0.7):
                parts.append("\\10-\\12")
                self.stmt_kinds.add("cid-range")
                i += 3
                continue
            parts.append(self.g(glyphs[i]))
            i += 1
        return "[" + " ".join(parts) + "]"

    def pick(self, pool, n):
        pool = list(pool)
        n = min(n, len(pool))
        return self.rnd.sample(pool, n)

    def pick_run(self, n):
        """n glyphs, with some chance a contiguous family run (so that ranges appear)."""
        rnd = self.rnd
        if n >= 3 and rnd.random() < 0.5:
            fam = rnd.choice([f for f in FAMILIES if len(f) >= n])
            s = rnd.randrange(0, len(fam) - n + 1)
            return fam[s:s + n]
        return self.pick(BASES, n)

    def src_glyph(self, exclude=()):
        rnd = self.rnd
        if self.outs and rnd.random() < 0.4:
            c = [x for x in self.outs if x not in exclude]
            if c:
                return rnd.choice(c)
        pool = [x for x in LETTERS + SC[:2] + KW[:1] + CIDS[:1] if x not in exclude]
        return rnd.choice(pool)

    def dst_glyph(self, exclude=()):
        rnd = self.rnd
        if self.ins and rnd.random() < 0.25:
            c = [x for x in self.ins if x not in exclude]
            if c:
                return rnd.choice(c)
        pool = [x for x in BASES + LIGS if x not in exclude]
        return rnd.choice(pool)

    def value(self, allow_named=True):
        """-> (text, (xPla, yPla, xAdv, yAdv))"""
        rnd = self.rnd
        r = rnd.random()
        nz = lambda: rnd.choice([-1, 1]) * rnd.randrange(1, 120)
        if r < 0.45:
            v = nz()
            # a bare number is XAdvance, or YAdvance inside a vertical feature (vkrn, vpal, vhal, valt)
            return str(v), ((0, 0, 0, v) if self.vertical else (0, 0, v, 0))
        if allow_named and r < (0.75 if self.vertical else 0.6) and self.level >= 1:
            if not self.vrdefs or rnd.random() < 0.4:
                name = "VR%d" % (len(self.vrdefs) + 1)
                if rnd.random() < 0.4:
                    # format A at file level: always an XAdvance, wherever it is referenced
                    v = (0, 0, nz(), 0)
                    self.pre.append("valueRecordDef %d %s;" % (v[2], name))
                    self.stmt_kinds.add("valueRecordDef-formatA")
                else:
                    v = (rnd.choice([0, nz()]), rnd.choice([0, nz()]), nz(), 0)
                    self.pre.append("valueRecordDef <%d %d %d %d> %s;" % (v + (name,)))
                self.vrdefs[name] = v
                self.stmt_kinds.add("valueRecordDef")
            name = rnd.choice(sorted(self.vrdefs))
            return "<%s>" % name, self.vrdefs[name]
        while True:
            v = (rnd.choice([0, nz()]), rnd.choice([0, nz()]), rnd.choice([0, nz()]), rnd.choice([0, 0, 0, nz()]))
            if any(v):
                break
        if rnd.random() < 0.3:
            # format C: the four values followed by four device tables
            ex, parts = {}, []
            chosen = rnd.sample(["xp", "yp", "xa", "ya"], rnd.choice([1, 1, 2, 3]))
            if not set(chosen) & {"xp", "yp", "xa"}:
                chosen.append("xa")
            for f in ("xp", "yp", "xa", "ya"):
                if f in chosen:
                    t, e = self.device()
                    ex[f] = e
                    parts.append(t)
                else:
                    parts.append("<device NULL>")
            self.stmt_kinds.add("valuerecord-device")
            return "<%d %d %d %d %s>" % (v + (" ".join(parts),)), v + (ex,)
        return "<%d %d %d %d>" % v, v

    def device(self):
        """A `<device ...>` with deltas at and around every DeltaFormat boundary at both ends of
        its ppem range.  -> (text, {"dev": {ppem: pixels}})"""
        rnd = self.rnd
        n = rnd.choice([1, 2, 2, 3, 4])
        start = rnd.randrange(8, 20)
        sizes = sorted(rnd.sample(range(start, start + 7), n))
        ds = [rnd.choice(DEVICE_EDGES) for _ in sizes]
        for i in range(1, len(ds) - 1):
            if rnd.random() < 0.6:
                ds[i] = rnd.randrange(-2, 2)
        if not any(ds):
            ds[0] = rnd.choice([-9, -2, 1, 8])
        if rnd.random() < 0.5:
            # keep the whole table inside one format, the extremes sitting at the ends of the range
            lo, hi = rnd.choice([(-2, 1), (-8, 7), (-9, 7), (-8, 8), (-128, 127)])
            ds = [min(max(d, lo), hi) for d in ds]
            ds[0] = rnd.choice([lo, hi])
            ds[-1] = rnd.choice([lo, hi, 0])
        dev = dict(zip(sizes, ds))
        full = tuple(dev.get(p_, 0) for p_ in range(sizes[0], sizes[-1] + 1))
        fmt = 1 if (min(full) >= -2 and max(full) <= 1) else 2 if (min(full) >= -8 and max(full) <= 7) else 3
        rec = (sizes[0], sizes[-1], fmt, full)
        self._devlog.append(rec)
        self.stmt_kinds.add("device")
        return "<device %s>" % ", ".join("%d %d" % kv for kv in sorted(dev.items())), {"dev": dev}

    def anchor(self, allow_null=False):
        """-> (text, (x, y) | None)"""
        rnd = self.rnd
        if allow_null and rnd.random() < 0.25:
            return "<anchor NULL>", None
        x, y = rnd.randrange(-50, 600), rnd.randrange(-300, 800)
        r = rnd.random()
        if self.level >= 3 and r > 0.88:
            ex, parts = {}, []
            which = rnd.choice(["x", "y", "xy"])
            for f in ("x", "y"):
                if f in which:
                    t, e = self.device()
                    ex[f] = e
                    parts.append(t)
                else:
                    parts.append("<device NULL>")
            self.stmt_kinds.add("anchor-device")
            return "<anchor %d %d %s>" % (x, y, " ".join(parts)), (x, y, ex)
        if r < 0.2:
            if not self.anchordefs or rnd.random() < 0.5:
                name = "AN%d" % (len(self.anchordefs) + 1)
                self.anchordefs[name] = (x, y)
                self.pre.append("anchorDef %d %d %s;" % (x, y, name))
                self.stmt_kinds.add("anchorDef")
            name = rnd.choice(sorted(self.anchordefs))
            return "<anchor %s>" % name, self.anchordefs[name]
        if r < 0.28:
            self.stmt_kinds.add("anchor-contourpoint")
            return "<anchor %d %d contourpoint %d>" % (x, y, rnd.randrange(0, 3)), (x, y)
        return "<anchor %d %d>" % (x, y), (x, y)

    # ------------------------------------------------------------ lookup flags
    def flag(self, kind):
        """-> (statement text or "", model flag dict)"""
        rnd = self.rnd
        if self.gdef_mode == "none" or rnd.random() < 0.5:
            return "", {}
        opts = ["IgnoreMarks", "IgnoreMarks", "IgnoreLigatures", "MAT", "MFS", "combo", "num"]
        if kind in ("mbase", "mlig", "mmark"):
            opts = ["MAT", "MFS", "IgnoreLigatures"]
        if kind == "curs":
            opts = ["IgnoreMarks"]
        o = rnd.choice(opts)
        rtl = ""
        m = {}
        if kind not in ("curs",) and rnd.random() < 0.1:
            rtl = "RightToLeft "
            m["rtl"] = True
        if o == "IgnoreMarks":
            m["ignore"] = [3]
            return "lookupflag %sIgnoreMarks;" % rtl, m
        if o == "IgnoreLigatures":
            m["ignore"] = [2]
            return "lookupflag %sIgnoreLigatures;" % rtl, m
        if o == "combo":
            m["ignore"] = [2, 3]
            return "lookupflag %sIgnoreLigatures IgnoreMarks;" % rtl, m
        if o == "num":
            v = rnd.choice([8, 4, 12, 9])
            m = {"ignore": [c for c, bit in ((1, 2), (2, 4), (3, 8)) if v & bit]}
            if v & 1:
                m["rtl"] = True
                if kind == "curs":
                    v &= ~1
                    m.pop("rtl")
            return "lookupflag %d;" % v, m
        if o == "MAT":
            name = rnd.choice(sorted(MAT))
            m["mat"] = list(MAT[name])
            self.stmt_kinds.add("MarkAttachmentType")
            return "lookupflag %sMarkAttachmentType @%s;" % (rtl, name), m
        sub = sorted(self.pick(MARKS, rnd.randrange(1, 4)), key=MARKS.index)
        m["mfs"] = sub
        self.stmt_kinds.add("UseMarkFilteringSet")
        return "lookupflag %sUseMarkFilteringSet %s;" % (rtl, self.cls(sub, allow_single=False)), m

    def skippable(self, flag):
        """Glyphs the flag makes transparent (for sprinkling into witnesses)."""
        if not flag or self.gdef is None:
            return []
        out = []
        for gname, c in self.gdef.items():
            if c in (flag.get("ignore") or ()):
                out.append(gname)
            elif c == 3:
                if flag.get("mfs") is not None:
                    if gname not in flag["mfs"]:
                        out.append(gname)
                elif flag.get("mat") is not None and gname not in flag["mat"]:
                    out.append(gname)
        return sorted(out)

    def sprinkle(self, seq, flag):
        sk = self.skippable(flag)
        if not sk or len(seq) < 2 or self.rnd.random() < 0.4:
            return list(seq)
        out = [seq[0]]
        for x in seq[1:]:
            if self.rnd.random() < 0.5:
                out.append(self.rnd.choice(sk))
            out.append(x)
        return out

    # ------------------------------------------------------------ GSUB kinds
    def k_single(self, named):
        rnd = self.rnd
        ft, fm = self.flag("single")
        lines, subtables, wit = [], [[]], []
        used = set()
        for _ in range(rnd.randrange(1, 4)):
            r = rnd.random()
            if r < 0.5:
                s = self.src_glyph(used)
                t = self.dst_glyph([s])
                lines.append("sub %s by %s;" % (self.g(s), self.g(t)))
                pairs = [(s, t)]
            else:
                n = rnd.randrange(2, 5)
                src = [x for x in self.pick_run(n) if x not in used]
                if not src:
                    continue
                if r < 0.75:
                    t = self.dst_glyph(src)
                    lines.append("sub %s by %s;" % (self.cls(src, allow_single=False), self.g(t)))
                    pairs = [(s, t) for s in src]
                else:
                    dst = self.pick([x for x in BASES + LIGS], len(src))
                    lines.append("sub %s by %s;" % (self.cls(src, allow_single=False), self.cls(dst, allow_single=False)))
                    pairs = list(zip(src, dst))
            for s, t in pairs:
                used.add(s)
                subtables[-1].append(((s,), (t,)))
                self.ins.append(s)
                self.outs.append(t)
            wit.append([rnd.choice(pairs)[0]])
            if rnd.random() < 0.12:
                lines.append("subtable;")
                subtables.append([])
                self.stmt_kinds.add("subtable;subst")
        if lines and lines[-1] == "subtable;":
            lines.pop()
            subtables.pop()
        if not any(subtables):
            return self.k_single(named)
        model = {"kind": "subst", "flag": fm, "subtables": [s for s in subtables]}
        return Lk("GSUB", "single", model, lines, ft, wit)

    def k_multiple(self, named):
        rnd = self.rnd
        ft, fm = self.flag("multiple")
        lines, rules, wit = [], [], []
        used = set()
        for _ in range(rnd.randrange(1, 4)):
            s = self.src_glyph(used)
            used.add(s)
            r = rnd.random()
            if r < 0.12:
                lines.append("sub %s by NULL;" % self.g(s))
                out = ()
                self.stmt_kinds.add("delete")
            elif r < 0.3 and named:
                # a one-to-one rule inside a multiple lookup (promotion); named blocks only
                out = (self.dst_glyph([s]),)
                lines.append("sub %s by %s;" % (self.g(s), self.g(out[0])))
                self.stmt_kinds.add("single-in-multiple")
            else:
                pool = BASES + (MARKS if self.use_marks else [])
                out = tuple(rnd.choice(pool) for _i in range(rnd.randrange(2, 4)))
                lines.append("sub %s by %s;" % (self.g(s), self.seq(out)))
            rules.append(((s,), out))
            self.ins.append(s)
            self.outs.extend(out)
            wit.append([s])
        if all(len(o) == 1 for i, o in rules):
            return self.k_multiple(named)
        model = {"kind": "subst", "flag": fm, "subtables": [rules]}
        return Lk("GSUB", "multiple", model, lines, ft, wit)

    def k_alternate(self, named):
        rnd = self.rnd
        ft, fm = self.flag("alternate")
        lines, alts, wit = [], {}, []
        for _ in range(rnd.randrange(1, 3)):
            s = self.src_glyph(alts)
            if rnd.random() < 0.4 and s != "a" and "a" not in alts:
                s = "a"
            a = ALTS[:rnd.randrange(2, 4)] if s == "a" and rnd.random() < 0.7 else self.pick([x for x in BASES if x != s], rnd.randrange(1, 4))
            alts[s] = list(a)
            lines.append("sub %s from %s;" % (self.g(s), self.cls(a, allow_single=False)))
            wit.append([s])
            self.ins.append(s)
            self.outs.extend(a)
        model = {"kind": "alt", "flag": fm, "alternates": alts}
        lk = Lk("GSUB", "alternate", model, lines, ft, wit)
        lk.feature_value = max(len(a) for a in alts.values())
        return lk

    def k_ligature(self, named):
        rnd = self.rnd
        ft, fm = self.flag("ligature")
        lines, subtables, wit, near = [], [[]], [], []
        plains = []
        seen = set()
        stem = [self.src_glyph() for _ in range(3)]
        pool = LETTERS[:8] + (MARKS[:2] if self.use_marks and rnd.random() < 0.3 else [])
        for _ in range(rnd.randrange(1, 5)):
            n = rnd.randrange(2, 5)
            if rnd.random() < 0.6:
                comps = [[x] for x in stem[:min(n, 3)]] + [[rnd.choice(pool)] for _i in range(max(0, n - 3))]
                if rnd.random() < 0.5:
                    comps[-1] = [rnd.choice(pool)]
            else:
                comps = [[rnd.choice(pool)] for _i in range(n)]
            if rnd.random() < 0.3:
                k = rnd.randrange(len(comps))
                extra = [x for x in self.pick(pool, 2) if x not in comps[k]]
                comps[k] = comps[k] + extra
            seqs = [()]
            for c in comps:
                seqs = [s + (x,) for s in seqs for x in c]
            if any(s in seen for s in seqs):
                continue
            out = rnd.choice(LIGS) if rnd.random() < 0.7 else self.dst_glyph()
            if named and rnd.random() < 0.1 and not any(len(s) == 1 for s in seen):
                pass
            seen.update(seqs)
            lines.append("sub %s by %s;" % (" ".join(self.cls(c) for c in comps), self.g(out)))
            for s in seqs:
                subtables[-1].append((s, (out,)))
            w = list(rnd.choice(seqs))
            plains.append(w)
            wit.append(self.sprinkle(w, fm))
            near.append(w[:-1] + [rnd.choice([x for x in BASES if x != w[-1]])])
            self.ins.extend(w)
            self.outs.append(out)
            if rnd.random() < 0.1:
                lines.append("subtable;")
                subtables.append([])
                self.stmt_kinds.add("subtable;subst")
        if named and rnd.random() < 0.25:
            # a one-to-one rule inside a ligature lookup (promotion); named blocks only
            s = self.src_glyph()
            if (s,) not in seen:
                t = self.dst_glyph([s])
                lines.append("sub %s by %s;" % (self.g(s), self.g(t)))
                subtables[-1].append(((s,), (t,)))
                seen.add((s,))
                wit.append([s])
                plains.append([s])
                self.stmt_kinds.add("single-in-ligature")
        if lines and lines[-1] == "subtable;":
            lines.pop()
            subtables.pop()
        if not any(len(r[0]) > 1 for st in subtables for r in st):
            return self.k_ligature(named)
        model = {"kind": "subst", "flag": fm, "subtables": [s for s in subtables if s]}
        lk = Lk("GSUB", "ligature", model, lines, ft, wit, near)
        lk.seqs = plains
        return lk

    def context(self):
        """-> (back sets, ahead sets)"""
        rnd = self.rnd

        def one():
            n = rnd.choice([1, 1, 1, 2, 3])
            return self.pick(LETTERS[:10] + SC[:2], n)

        nb = rnd.choice([0, 0, 1, 1, 2])
        na = rnd.choice([0, 0, 1, 1, 2])
        return [one() for _ in range(nb)], [one() for _ in range(na)]

    def ctx_text(self, back, marked, ahead):
        parts = [self.cls(s) for s in back] + list(marked) + [self.cls(s) for s in ahead]
        return " ".join(parts)

    def ctx_witness(self, back, inp, ahead, fm):
        rnd = self.rnd
        w = [rnd.choice(s) for s in back] + [rnd.choice(s) for s in inp] + [rnd.choice(s) for s in ahead]
        return self.sprinkle(w, fm), w

    def near_miss(self, w, sets):
        rnd = self.rnd
        k = rnd.randrange(len(w))
        alt = [x for x in BASES if x not in sets[k]]
        n = list(w)
        n[k] = rnd.choice(alt)
        return n

    def _partitioned(self, named, pos):
        """A contextual lookup all of whose rules draw backtrack, input and lookahead from one
        partition of the glyphs into a few classes (what makes the compiler choose the class
        based Format 2), with backtracks of two or three positions in different classes."""
        rnd = self.rnd
        kind = "cpos" if pos else "chain"
        ft, fm = self.flag(kind)
        big = rnd.random() < 0.55     # many rules over few large classes: Format 2 becomes the smallest encoding
        pool = (LETTERS + SC + ALTS) if big else (LETTERS[:12] + SC[:3])
        rnd.shuffle(pool)
        part, i = [], 0
        for _ in range(4 if big else rnd.randrange(3, 6)):
            k = rnd.choice([4, 4, 5]) if big else rnd.choice([2, 2, 3])
            part.append(sorted(pool[i:i + k], key=ORDER.index))
            i += k
        lines, rules, wit, near, seen = [], [], [], [], set()
        prev_ctx = None
        for _ in range(rnd.randrange(18, 26) if big else rnd.randrange(4, 8)):
            nb = rnd.choice([2, 2, 2, 3, 1])
            back = [rnd.choice(part) for _i in range(nb)]
            if nb >= 2 and all(b == back[0] for b in back):
                back[0] = rnd.choice([c for c in part if c != back[1]])
            inp = [rnd.choice(part) for _i in range(rnd.choice([1, 1, 2]))]
            ahead = [rnd.choice(part) for _i in range(rnd.choice([0, 1, 1, 2]))]
            key = (tuple(map(tuple, back)), tuple(map(tuple, inp)), tuple(map(tuple, ahead)))
            if key in seen or (key[0], key[2]) == prev_ctx:
                continue
            seen.add(key)
            prev_ctx = (key[0], key[2])
            r = rnd.random()
            if r < 0.2:
                lines.append("ignore %s %s;" % ("pos" if pos else "sub", self.ctx_text(back, [self.cls(x) + "'" for x in inp], ahead)))
                rule = {"back": back, "input": inp, "ahead": ahead, "lookups": [[] for _i in inp]}
                self.stmt_kinds.add("ignore-pos" if pos else "ignore-sub")
            elif pos:
                marked, lks = [], []
                for x in inp:
                    vt, v = self.value()
                    marked.append("%s' %s" % (self.cls(x), vt))
                    lks.append([{"kind": "spos", "flag": fm, "values": {g_: v for g_ in x}}])
                lines.append("pos %s;" % self.ctx_text(back, marked, ahead))
                rule = {"back": back, "input": inp, "ahead": ahead, "lookups": lks}
            else:
                inp = inp[:1]
                t = self.dst_glyph(inp[0])
                inline = {"kind": "subst", "flag": fm, "subtables": [[((g_,), (t,)) for g_ in inp[0]]]}
                lines.append("sub %s by %s;" % (self.ctx_text(back, [self.cls(inp[0]) + "'"], ahead), self.g(t)))
                rule = {"back": back, "input": inp, "ahead": ahead, "lookups": [[inline]]}
            rules.append(rule)
            w, plain = self.ctx_witness(rule["back"], rule["input"], rule["ahead"], fm)
            wit.append(w)
            if len(back) >= 2:
                # the same glyphs with the backtrack in the opposite order must not match
                near.append(plain[:len(back)][::-1] + plain[len(back):])
            near.append(self.near_miss(plain, rule["back"] + rule["input"] + rule["ahead"]))
        if len(rules) < 2:
            return self._partitioned(named, pos)
        self.stmt_kinds.add("ctx-class-partition")
        model = {"kind": kind, "flag": fm, "subtables": [rules]}
        return Lk("GPOS" if pos else "GSUB", kind, model, lines, ft, wit, near)

    def k_chain(self, named):
        rnd = self.rnd
        if rnd.random() < 0.3:
            return self._partitioned(named, False)
        ft, fm = self.flag("chain")
        lines, subtables, wit, near = [], [[]], [], []
        refs = [l for l in self.named if l.table == "GSUB" and l.kind in ("single", "multiple", "ligature", "alternate")]
        alt_n = None
        for _ in range(rnd.randrange(1, 4)):
            back, ahead = self.context()
            r = rnd.random()
            rule = None
            if r < 0.3:
                # inline single substitution
                n = rnd.choice([1, 1, 2, 3])
                src = self.pick(LETTERS[:10], n)
                if n == 1 or rnd.random() < 0.5:
                    t = self.dst_glyph(src)
                    dst = [t] * len(src)
                    by = self.g(t)
                else:
                    dst = self.pick(BASES, n)
                    by = self.cls(dst, allow_single=False)
                inline = {"kind": "subst", "flag": fm, "subtables": [[((s,), (d,)) for s, d in zip(src, dst)]]}
                lines.append("sub %s by %s;" % (self.ctx_text(back, [self.cls(src) + "'"], ahead), by))
                rule = {"back": back, "input": [src], "ahead": ahead, "lookups": [[inline]]}
                self.outs.extend(dst)
                self.stmt_kinds.add("ctx-inline-single")
            elif r < 0.42:
                # inline ligature
                n = rnd.randrange(2, 4)
                comps = [self.pick(LETTERS[:8], rnd.choice([1, 1, 2])) for _i in range(n)]
                out = rnd.choice(LIGS)
                seqs = [()]
                for c in comps:
                    seqs = [s + (x,) for s in seqs for x in c]
                inline = {"kind": "subst", "flag": fm, "subtables": [[(s, (out,)) for s in seqs]]}
                lines.append("sub %s by %s;" % (self.ctx_text(back, [self.cls(c) + "'" for c in comps], ahead), self.g(out)))
                rule = {"back": back, "input": comps, "ahead": ahead, "lookups": [[inline]] + [[] for _i in comps[1:]]}
                self.outs.append(out)
                self.stmt_kinds.add("ctx-inline-ligature")
            elif r < 0.52:
                # inline multiple
                s = self.src_glyph()
                out = tuple(rnd.choice(BASES) for _i in range(rnd.randrange(2, 4)))
                if not back and not ahead:
                    ahead = [self.pick(LETTERS[:10], 1)]
                inline = {"kind": "subst", "flag": fm, "subtables": [[((s,), out)]]}
                lines.append("sub %s by %s;" % (self.ctx_text(back, [self.g(s) + "'"], ahead), self.seq(out)))
                rule = {"back": back, "input": [[s]], "ahead": ahead, "lookups": [[inline]]}
                self.outs.extend(out)
                self.stmt_kinds.add("ctx-inline-multiple")
            elif r < 0.60:
                # inline alternate
                s = self.src_glyph()
                a = self.pick([x for x in BASES if x != s], rnd.randrange(1, 4))
                if not back and not ahead:
                    back = [self.pick(LETTERS[:10], 1)]
                inline = {"kind": "alt", "flag": fm, "alternates": {s: list(a)}}
                lines.append("sub %s from %s;" % (self.ctx_text(back, [self.g(s) + "'"], ahead), self.cls(a, allow_single=False)))
                rule = {"back": back, "input": [[s]], "ahead": ahead, "lookups": [[inline]]}
                alt_n = max(alt_n or 0, len(a))
                self.stmt_kinds.add("ctx-inline-alternate")
            elif r < 0.72:
                # ignore
                ctxs, rl = [], []
                for _j in range(rnd.choice([1, 1, 2])):
                    b2, a2 = self.context()
                    inp = [self.pick(LETTERS[:10], rnd.choice([1, 1, 2])) for _i in range(rnd.choice([1, 1, 2]))]
                    ctxs.append(self.ctx_text(b2, [self.cls(s) + "'" for s in inp], a2))
                    rl.append({"back": b2, "input": inp, "ahead": a2, "lookups": [[] for _i in inp]})
                lines.append("ignore sub %s;" % ", ".join(ctxs))
                for x in rl:
                    subtables[-1].append(x)
                    w, plain = self.ctx_witness(x["back"], x["input"], x["ahead"], fm)
                    wit.append(w)
                self.stmt_kinds.add("ignore-sub")
                continue
            elif refs:
                # explicit lookup references
                n = rnd.randrange(1, 4)
                chosen = []
                for i in range(n):
                    here = []
                    if rnd.random() < 0.7:
                        here.append(rnd.choice(refs))
                        if rnd.random() < 0.3:
                            here.append(rnd.choice(refs))
                    chosen.append(here)
                # at most one length-changing lookup, and only as the last record of the rule
                flat = [(i, l) for i, hs in enumerate(chosen) for l in hs]
                flat = [(i, l) for k, (i, l) in enumerate(flat) if l.kind not in ("multiple", "ligature") or k == len(flat) - 1]
                if not flat:
                    flat = [(n - 1, rnd.choice(refs))]
                chosen = [[l for j, l in flat if j == i] for i in range(n)]
                last_i, last = flat[-1]
                if last.kind == "ligature":
                    # the ligature starts at the last input position and eats the lookahead
                    chosen = chosen[:last_i + 1]
                    n = last_i + 1
                inp, marked, lks = [], [], []
                for i in range(n):
                    if chosen[i]:
                        first = rnd.choice(chosen[i][0].seqs)[0]
                        s = [first] + [x for x in self.pick(LETTERS[:10], rnd.choice([0, 0, 1])) if x != first]
                    else:
                        s = self.pick(LETTERS[:10], rnd.choice([1, 2]))
                    inp.append(s)
                    marked.append(self.cls(s) + "'" + "".join(" lookup %s" % l.name for l in chosen[i]))
                    lks.append([l.index for l in chosen[i]])
                    for l in chosen[i]:
                        if l.kind == "alternate":
                            alt_n = max(alt_n or 0, l.feature_value)
                if last.kind == "ligature" and rnd.random() < 0.85:
                    cands = [q for q in last.seqs if q[0] == inp[-1][0]]
                    if cands:
                        ahead = [[x] for x in rnd.choice(cands)[1:]] + ahead[:1]
                lines.append("sub %s;" % self.ctx_text(back, marked, ahead))
                rule = {"back": back, "input": inp, "ahead": ahead, "lookups": lks}
                self.stmt_kinds.add("ctx-lookup-ref")
            else:
                continue
            subtables[-1].append(rule)
            w, plain = self.ctx_witness(rule["back"], rule["input"], rule["ahead"], fm)
            wit.append(w)
            near.append(self.near_miss(plain, rule["back"] + rule["input"] + rule["ahead"]))
            self.ins.extend(plain)
            if rnd.random() < 0.1:
                lines.append("subtable;")
                subtables.append([])
                self.stmt_kinds.add("subtable;chain")
        if lines and lines[-1] == "subtable;":
            lines.pop()
        subtables = [s for s in subtables if s]
        if not subtables:
            return self.k_chain(named)
        model = {"kind": "chain", "flag": fm, "subtables": subtables}
        lk = Lk("GSUB", "chain", model, lines, ft, wit, near)
        lk.feature_value = alt_n
        return lk

    def k_rchain(self, named):
        rnd = self.rnd
        ft, fm = self.flag("rchain")
        lines, rules, wit, near = [], [], [], []
        for _ in range(rnd.randrange(1, 3)):
            back, ahead = self.context()
            n = rnd.choice([1, 2, 3])
            src = self.pick(LETTERS[:10], n)
            if n == 1 or rnd.random() < 0.4:
                t = self.dst_glyph(src)
                dst = [t] * len(src)
                by = self.g(t)
            else:
                dst = self.pick(BASES, n)
                by = self.cls(dst, allow_single=False)
            if back and rnd.random() < 0.5:
                # make right-to-left processing observable: the context is itself rewritten
                back[-1] = list(dict.fromkeys(back[-1] + src[:1]))
            lines.append("%s %s by %s;" % (rnd.choice(["rsub", "reversesub"]), self.ctx_text(back, [self.cls(src) + "'"], ahead), by))
            rules.append({"back": back, "ahead": ahead, "map": dict(zip(src, dst))})
            w, plain = self.ctx_witness(back, [src], ahead, fm)
            wit.append(w)
            wit.append([src[0]] * 3 + plain)
            near.append(self.near_miss(plain, back + [src] + ahead))
            self.outs.extend(dst)
        model = {"kind": "rchain", "flag": fm, "rules": rules}
        return Lk("GSUB", "rchain", model, lines, ft, wit, near)

    # ------------------------------------------------------------ GPOS kinds
    def k_spos(self, named):
        rnd = self.rnd
        ft, fm = self.flag("spos")
        lines, values, wit = [], {}, []
        pool = BASES + LIGS + (MARKS if self.use_marks else [])
        for _ in range(rnd.randrange(1, 4)):
            gl = [x for x in (self.pick_run(rnd.choice([1, 1, 2, 3])) if rnd.random() < 0.7 else self.pick(pool, 2)) if x not in values]
            if not gl:
                continue
            vt, v = self.value()
            lines.append("pos %s %s;" % (self.cls(gl), vt))
            for x in gl:
                values[x] = v
            wit.append([rnd.choice(gl)])
        if not values:
            return self.k_spos(named)
        model = {"kind": "spos", "flag": fm, "values": values}
        return Lk("GPOS", "spos", model, lines, ft, wit)

    def partition(self, pool, nclasses):
        rnd = self.rnd
        pool = list(pool)
        rnd.shuffle(pool)
        out = []
        for _ in range(nclasses):
            k = rnd.choice([1, 1, 2, 3])
            if len(pool) < k:
                break
            out.append(sorted(pool[:k], key=ORDER.index))
            pool = pool[k:]
        return out

    def k_ppos(self, named):
        rnd = self.rnd
        ft, fm = self.flag("ppos")
        lines, pairs, classes, wit, near = [], {}, [], [], []
        pool = LETTERS[:10] + SC[:3] + KW[:1]

        def vals():
            r = rnd.random()
            if r < 0.6:
                t, v = self.value(allow_named=False)
                return "B", t, v, None, None
            t1, v1 = self.value()
            t2, v2 = self.value()
            return "A", t1, v1, t2, v2

        for _ in range(rnd.choice([0, 1, 2, 3])):
            form, t1, v1, t2, v2 = vals()
            if rnd.random() < 0.25:
                a = self.pick(pool, rnd.choice([1, 2, 3]))
                b = self.pick(pool, rnd.choice([1, 2]))
                new = [(x, y) for x in a for y in b]
                if any(p in pairs for p in new):
                    continue
                if form == "B":
                    lines.append("%s pos %s %s %s;" % (rnd.choice(["enum", "enumerate"]), self.cls(a), self.cls(b), t1))
                else:
                    lines.append("enum pos %s %s %s %s;" % (self.cls(a), t1, self.cls(b), t2))
                self.stmt_kinds.add("enum-pos")
            else:
                a, b = [rnd.choice(pool)], [rnd.choice(pool)]
                new = [(a[0], b[0])]
                if new[0] in pairs:
                    continue
                if form == "B":
                    lines.append("pos %s %s %s;" % (self.g(a[0]), self.g(b[0]), t1))
                else:
                    lines.append("pos %s %s %s %s;" % (self.g(a[0]), t1, self.g(b[0]), t2))
            for p in new:
                pairs[p] = (v1, v2)
            w = list(rnd.choice(new))
            wit.append(self.sprinkle(w, fm))
            wit.append(w + [w[1], w[0]])
        nst = rnd.choice([0, 1, 1, 2]) if pairs else rnd.choice([1, 1, 2])
        for si in range(nst):
            lefts = self.partition(pool, rnd.choice([1, 2, 3]))
            rights = self.partition(pool, rnd.choice([1, 2, 3]))
            st = []
            combos = [(l, r) for l in lefts for r in rights]
            rnd.shuffle(combos)
            for l, r in combos[:rnd.randrange(1, 5)]:
                form, t1, v1, t2, v2 = vals()
                lt, rt = self.cls(l, force_class=len(l) == 1 and len(r) == 1), self.cls(r)
                if len(l) == 1 and len(r) == 1 and not lt.startswith(("[", "@")):
                    lt = "[%s]" % lt
                if form == "B":
                    lines.append("pos %s %s %s;" % (lt, rt, t1))
                else:
                    lines.append("pos %s %s %s %s;" % (lt, t1, rt, t2))
                st.append((l, r, v1, v2))
                w = [rnd.choice(l), rnd.choice(r)]
                wit.append(self.sprinkle(w, fm))
                wit.append(w + w)
                near.append([w[0], rnd.choice([x for x in BASES if x not in r])])
            if st:
                if classes:
                    # the break goes before this subtable's first rule
                    idx = len(lines) - len(st)
                    lines.insert(idx, "subtable;")
                    self.stmt_kinds.add("subtable;pair")
                classes.append(st)
        if not pairs and not classes:
            return self.k_ppos(named)
        model = {"kind": "ppos", "flag": fm, "pairs": [(a, b, v1, v2) for (a, b), (v1, v2) in pairs.items()], "classes": classes}
        return Lk("GPOS", "ppos", model, lines, ft, wit, near)

    def k_curs(self, named):
        rnd = self.rnd
        ft, fm = self.flag("curs")
        lines, anchors, wit = [], {}, []
        gl = self.pick(LETTERS[:8], rnd.randrange(2, 5))
        i = 0
        while i < len(gl):
            k = rnd.choice([1, 1, 2])
            grp = gl[i:i + k]
            i += k
            et, e = self.anchor(allow_null=True)
            xt, x = self.anchor(allow_null=True)
            lines.append("pos cursive %s %s %s;" % (self.cls(grp), et, xt))
            for g_ in grp:
                anchors[g_] = (e, x)
        seqw = [rnd.choice(gl) for _ in range(rnd.randrange(2, 6))]
        wit.append(self.sprinkle(seqw, fm))
        wit.append(gl + gl[::-1])
        model = {"kind": "curs", "flag": fm, "anchors": anchors}
        return Lk("GPOS", "curs", model, lines, ft, wit)

    def _mark_classes(self, which):
        marks = {}
        for cname in which:
            for glyphs, anchor in self.markclasses[cname]:
                for m in glyphs:
                    marks[m] = (cname, anchor)
        return marks

    def _anchor_marks(self, which, allow_null=False):
        parts, d = [], {}
        for cname in which:
            at, a = self.anchor()
            parts.append("%s mark @%s" % (at, cname))
            d[cname] = a
        return " ".join(parts), d

    def k_mbase(self, named):
        rnd = self.rnd
        ft, fm = self.flag("mbase")
        lines, bases, wit = [], {}, []
        allc = sorted(self.markclasses)
        used = set()
        gl = self.pick(LETTERS[:10] + SC[:2], rnd.randrange(2, 6))
        i = 0
        while i < len(gl):
            k = rnd.choice([1, 2, 3])
            grp = gl[i:i + k]
            i += k
            which = allc if rnd.random() < 0.6 else [rnd.choice(allc)]
            used.update(which)
            t, d = self._anchor_marks(which)
            lines.append("pos base %s %s;" % (self.cls(grp), t))
            for b in grp:
                bases[b] = d
                self.inferred.setdefault(b, 1)
        marks = self._mark_classes(sorted(used))
        ml = sorted(marks)
        for b in gl[:3]:
            wit.append([b, rnd.choice(ml)])
            wit.append([b, rnd.choice(MARKS), rnd.choice(MARKS), rnd.choice(ml)])
        wit.append([rnd.choice(BASES), rnd.choice(gl), rnd.choice(ml), rnd.choice(gl), rnd.choice(MARKS)])
        model = {"kind": "mbase", "flag": fm, "marks": marks, "bases": bases}
        return Lk("GPOS", "mbase", model, lines, ft, wit)

    def k_mmark(self, named):
        rnd = self.rnd
        ft, fm = self.flag("mmark")
        lines, bases, wit = [], {}, []
        allc = sorted(self.markclasses)
        used = set()
        gl = self.pick(MARKS, rnd.randrange(1, 5))
        i = 0
        while i < len(gl):
            k = rnd.choice([1, 2])
            grp = gl[i:i + k]
            i += k
            which = allc if rnd.random() < 0.4 else [rnd.choice(allc)]
            used.update(which)
            t, d = self._anchor_marks(which)
            lines.append("pos mark %s %s;" % (self.cls(grp), t))
            for b in grp:
                bases[b] = d
        marks = self._mark_classes(sorted(used))
        ml = sorted(marks)
        for b in gl[:3]:
            wit.append([rnd.choice(LETTERS), b, rnd.choice(ml)])
            wit.append([rnd.choice(LETTERS), b, rnd.choice(MARKS), rnd.choice(ml), rnd.choice(ml)])
        model = {"kind": "mmark", "flag": fm, "marks": marks, "bases": bases}
        return Lk("GPOS", "mmark", model, lines, ft, wit)

    def k_mlig(self, named):
        rnd = self.rnd
        ft, fm = self.flag("mlig")
        lines, ligs, wit = [], {}, []
        allc = sorted(self.markclasses)
        used = set()
        for lg in self.pick(LIGS, rnd.randrange(1, 4)):
            ncomp = lg.count("_") + 1
            comps, parts = [], []
            for ci in range(ncomp):
                if rnd.random() < 0.2:
                    parts.append("<anchor NULL>")
                    comps.append({})
                    continue
                which = allc if rnd.random() < 0.5 else [rnd.choice(allc)]
                used.update(which)
                t, d = self._anchor_marks(which)
                parts.append(t)
                comps.append(d)
            if not used:
                used.add(allc[0])
                t, d = self._anchor_marks([allc[0]])
                parts[-1], comps[-1] = t, d
            lines.append("pos ligature %s %s;" % (self.g(lg), "\n    ligComponent ".join(parts)))
            ligs[lg] = comps
            self.inferred.setdefault(lg, 2)
        marks = self._mark_classes(sorted(used))
        ml = sorted(marks)
        for lg in ligs:
            wit.append([lg, rnd.choice(ml)])
            wit.append([lg, rnd.choice(MARKS), rnd.choice(ml)])
        model = {"kind": "mlig", "flag": fm, "marks": marks, "ligs": ligs}
        return Lk("GPOS", "mlig", model, lines, ft, wit)

    def k_cpos(self, named):
        rnd = self.rnd
        if rnd.random() < 0.3:
            return self._partitioned(named, True)
        ft, fm = self.flag("cpos")
        lines, subtables, wit, near = [], [[]], [], []
        refs = [l for l in self.named if l.table == "GPOS" and l.kind in ("spos", "ppos")]
        for _ in range(rnd.randrange(1, 4)):
            back, ahead = self.context()
            r = rnd.random()
            if r < 0.45 or (r >= 0.6 and not refs):
                n = rnd.choice([1, 1, 2, 3])
                inp, marked, lks = [], [], []
                anyv = False
                for i in range(n):
                    s = self.pick(LETTERS[:10], rnd.choice([1, 1, 2]))
                    inp.append(s)
                    if rnd.random() < 0.7 or (i == n - 1 and not anyv):
                        vt, v = self.value()
                        anyv = True
                        marked.append("%s' %s" % (self.cls(s), vt))
                        lks.append([{"kind": "spos", "flag": fm, "values": {x: v for x in s}}])
                    else:
                        marked.append(self.cls(s) + "'")
                        lks.append([])
                lines.append("pos %s;" % self.ctx_text(back, marked, ahead))
                rule = {"back": back, "input": inp, "ahead": ahead, "lookups": lks}
                self.stmt_kinds.add("ctx-inline-pos")
            elif r < 0.6:
                b2, a2 = self.context()
                inp = [self.pick(LETTERS[:10], rnd.choice([1, 1, 2])) for _i in range(rnd.choice([1, 1, 2]))]
                lines.append("ignore pos %s;" % self.ctx_text(b2, [self.cls(s) + "'" for s in inp], a2))
                rule = {"back": b2, "input": inp, "ahead": a2, "lookups": [[] for _i in inp]}
                subtables[-1].append(rule)
                w, plain = self.ctx_witness(b2, inp, a2, fm)
                wit.append(w)
                self.stmt_kinds.add("ignore-pos")
                continue
            else:
                n = rnd.randrange(1, 4)
                inp, marked, lks = [], [], []
                anyl = False
                for i in range(n):
                    here = []
                    if rnd.random() < 0.7 or (i == n - 1 and not anyl):
                        here.append(rnd.choice(refs))
                        anyl = True
                    if here:
                        first = rnd.choice(here[0].wit)[0]
                        s = [first] + [x for x in self.pick(LETTERS[:10], rnd.choice([0, 0, 1])) if x != first]
                    else:
                        s = self.pick(LETTERS[:10], rnd.choice([1, 2]))
                    inp.append(s)
                    marked.append(self.cls(s) + "'" + "".join(" lookup %s" % l.name for l in here))
                    lks.append([l.index for l in here])
                lines.append("pos %s;" % self.ctx_text(back, marked, ahead))
                rule = {"back": back, "input": inp, "ahead": ahead, "lookups": lks}
                self.stmt_kinds.add("ctx-pos-lookup-ref")
            subtables[-1].append(rule)
            w, plain = self.ctx_witness(rule["back"], rule["input"], rule["ahead"], fm)
            wit.append(w)
            near.append(self.near_miss(plain, rule["back"] + rule["input"] + rule["ahead"]))
            if rnd.random() < 0.1:
                lines.append("subtable;")
                subtables.append([])
                self.stmt_kinds.add("subtable;chain")
        if lines and lines[-1] == "subtable;":
            lines.pop()
        subtables = [s for s in subtables if s]
        if not subtables:
            return self.k_cpos(named)
        model = {"kind": "cpos", "flag": fm, "subtables": subtables}
        return Lk("GPOS", "cpos", model, lines, ft, wit, near)

    # ------------------------------------------------------------ assembly
    def kinds(self):
        k = ["single", "single", "multiple", "alternate", "ligature", "ligature", "spos", "ppos", "ppos"]
        if self.level >= 2:
            k += ["chain", "chain", "chain", "rchain", "cpos", "cpos"]
        if self.level >= 3 and self.use_marks:
            k += ["mbase", "mbase", "mmark", "mlig", "curs"]
        elif self.level >= 3:
            k += ["curs"]
        return k

    def new_lookup(self, named, exclude=()):
        ks = [k for k in self.kinds() if k not in exclude]
        kind = self.rnd.choice(ks)
        n0 = len(self._devlog)
        lk = getattr(self, "k_" + kind)(named)
        # the Device tables that made it into the lookup (rules dropped while generating do not count)
        lk.devs = sorted(device_records(lk.model))
        lk.mark_devs = []
        self.stmt_kinds.add(kind)
        return lk

    def register(self, lk, name=None):
        lk.index = len(self.lookups[lk.table])
        self.lookups[lk.table].append(lk)
        if name:
            lk.name = name
            self.named.append(lk)

    def block_text(self, lk, indent="", known_zero=False):
        ext = " useExtension" if self.rnd.random() < 0.15 else ""
        if ext:
            self.stmt_kinds.add("useExtension")
        out = [indent + "lookup %s%s {" % (lk.name, ext)]
        if lk.flag_text:
            out.append(indent + "    " + lk.flag_text)
        elif indent and not (known_zero and self.rnd.random() < 0.7):
            out.append(indent + "    lookupflag 0;")
        out.extend(indent + "    " + l for l in lk.lines)
        out.append(indent + "} %s;" % lk.name)
        return out

    def generate(self):
        rnd = self.rnd
        # language systems
        r = rnd.random()
        if r < 0.45:
            ls_lines = [] if rnd.random() < 0.5 else ["languagesystem DFLT dflt;"]
        else:
            ls_lines = ["languagesystem DFLT dflt;"]
            for sc in self.pick(sorted(SCRIPTS), rnd.randrange(1, 3)):
                ls_lines.append("languagesystem %s dflt;" % sc)
                self.langsys.append((sc, "dflt"))
                for lg in SCRIPTS[sc]:
                    if rnd.random() < 0.4:
                        ls_lines.append("languagesystem %s %s;" % (sc, lg.strip()))
                        self.langsys.append((sc, lg))
            self.stmt_kinds.add("languagesystem")
        # GDEF / mark classes
        self.markclasses = {}
        if self.use_marks:
            for cname, glyphs in (("TOP", TOP), ("BOT", BOT)):
                defs = []
                k = rnd.choice([len(glyphs), 1, 2])
                for grp in (glyphs[:k], glyphs[k:]):
                    if not grp:
                        continue
                    at, a = self.anchor()
                    self.pre.append("markClass %s %s @%s;" % (self.cls(grp), at, cname))
                    defs.append((grp, a))
                self.markclasses[cname] = defs
            self.markclass_devs = list(self._devlog)
            for name, gl in sorted(MAT.items()):
                self.pre.append("@%s = %s;" % (name, self._inline(gl)))
            self.stmt_kinds.add("markClass")
        if self.gdef_mode == "explicit":
            self.comp = [ALTS[2]] if rnd.random() < 0.3 else []
            self.gdef = {}
            for x in BASES:
                self.gdef[x] = 1
            for x in LIGS:
                self.gdef[x] = 2
            for x in MARKS:
                self.gdef[x] = 3
            for x in self.comp:
                self.gdef[x] = 4
            unclassified = [KW[2]] if rnd.random() < 0.3 else []
            for x in unclassified:
                del self.gdef[x]
        elif self.gdef_mode == "inferred":
            self.gdef = {m: 3 for m in MARKS}   # flags see the marks; completed after generation
        # a pair of named single substitutions that do not commute (x -> y in the one defined
        # LAST, y -> z in the one defined FIRST): a contextual rule that calls them in the
        # written order "later one, earlier one" on one glyph must give z
        self.feedpair = None
        if self.level >= 2 and rnd.random() < 0.45:
            x, y, z = self.pick(LETTERS[:10], 3)
            for src, dst in ((y, z), (x, y)):
                extra = [g_ for g_ in self.pick(SC + KW[:2], 2)]
                pairs = [(src, dst)] + [(e, self.dst_glyph([e])) for e in extra if rnd.random() < 0.5]
                lines = ["sub %s by %s;" % (self.g(a), self.g(b)) for a, b in pairs]
                lk = Lk("GSUB", "single", {"kind": "subst", "flag": {}, "subtables": [[((a,), (b,)) for a, b in pairs]]}, lines, "", [[src]])
                self.nname += 1
                self.register(lk, "L%d" % self.nname)
                self.blocks.append(self.block_text(lk))
            self.feedpair = (self.named[-1], self.named[-2], x)
            self.stmt_kinds.add("single")
        # standalone named lookups
        for _ in range(rnd.randrange(1, 5)):
            lk = self.new_lookup(True)
            self.nname += 1
            self.register(lk, "L%d" % self.nname)
            self.blocks.append(self.block_text(lk))
        # features
        ntags = rnd.randrange(2, 5)
        tags = ["tst%d" % (i + 1) for i in range(ntags)]
        if rnd.random() < 0.3:
            tags[rnd.randrange(ntags)] = rnd.choice(VERTICAL)
            self.stmt_kinds.add("vertical-feature")
        feat = {}   # (script, lang, tag) -> {"GSUB": [...], "GPOS": [...]}

        def reg(cur, tag, lk):
            for sc, lg in cur:
                feat.setdefault((sc, lg, tag), []).append((lk.table, lk.index))

        alt_values = {}
        for tag in tags:
            self.vertical = tag in VERTICAL
            out = ["feature %s {" % tag]
            cur = list(self.langsys)
            flag_known = ""      # lookupflag text in force, None = must restate
            prev_anon = None     # kind of the previous anonymous run if nothing separated it

            def items(n, cur):
                nonlocal flag_known, prev_anon
                for _i in range(n):
                    r = rnd.random()
                    if self.feedpair and prev_anon != "chain":
                        hi, lo, x = self.feedpair
                        self.feedpair = None
                        back, ahead = self.context()
                        if not back and not ahead:
                            ahead = [self.pick(LETTERS[:10], 1)]
                        line = "sub %s;" % self.ctx_text(back, ["%s' lookup %s lookup %s" % (self.g(x), hi.name, lo.name)], ahead)
                        rule = {"back": back, "input": [[x]], "ahead": ahead, "lookups": [[hi.index, lo.index]]}
                        w, plain = self.ctx_witness(back, [[x]], ahead, {})
                        lk = Lk("GSUB", "chain", {"kind": "chain", "flag": {}, "subtables": [[rule]]}, [line], "", [w])
                        if (flag_known or "") not in ("", "lookupflag 0;") or flag_known is None:
                            out.append("    lookupflag 0;")
                            flag_known = "lookupflag 0;"
                        self.register(lk)
                        out.append("    " + line)
                        reg(cur, tag, lk)
                        prev_anon = "chain"
                        self.stmt_kinds.add("ctx-two-lookups-one-glyph")
                        continue
                    if r < 0.35 and self.named:
                        lk = rnd.choice(self.named)
                        out.append("    lookup %s;" % lk.name)
                        reg(cur, tag, lk)
                        prev_anon = None
                        self.stmt_kinds.add("lookup-reference")
                    elif r < 0.5:
                        lk = self.new_lookup(True)
                        self.nname += 1
                        self.register(lk, "L%d" % self.nname)
                        out.extend(self.block_text(lk, "    ", known_zero=(flag_known == "")))
                        reg(cur, tag, lk)
                        # feaLib keeps a block's lookupflag in force after the block: restate it,
                        # except when the block provably left it at 0
                        flag_known = None if (lk.flag_text or flag_known != "") else ""
                        prev_anon = None
                        self.stmt_kinds.add("lookup-block-in-feature")
                    else:
                        # an anonymous run never follows a run of the same builder family
                        excl = FAMILY.get(prev_anon, ())
                        lk = self.new_lookup(False, exclude=excl)
                        want = lk.flag_text or "lookupflag 0;"
                        eff = "lookupflag 0;" if flag_known == "" else flag_known
                        if eff != want or rnd.random() < 0.08:
                            out.append("    " + want)
                            flag_known = want
                        self.register(lk)
                        out.extend("    " + l for l in lk.lines)
                        reg(cur, tag, lk)
                        prev_anon = lk.kind
                        self.stmt_kinds.add("anonymous-run")
                    if lk.feature_value:
                        alt_values[tag] = max(alt_values.get(tag, 0), lk.feature_value)

            items(rnd.randrange(1, 4), cur)
            if len(self.langsys) > 1 or rnd.random() < 0.25:
                if rnd.random() < 0.7:
                    scripts = self.pick(sorted(SCRIPTS), rnd.randrange(1, 3))
                    for sc in scripts:
                        out.append("    script %s;" % sc)
                        self.stmt_kinds.add("script")
                        cur = [(sc, "dflt")]
                        # "script" implicitly sets the lookupflag attribute to 0 (feature file spec 4.b.ii)
                        flag_known, prev_anon = "", None
                        if rnd.random() < 0.8:
                            items(rnd.randrange(1, 3), cur)
                        for lg in SCRIPTS[sc]:
                            if rnd.random() < 0.5:
                                continue
                            declared = (sc, lg) in self.langsys
                            excl = (not declared) and rnd.random() < 0.4
                            kw = " exclude_dflt" if excl else rnd.choice(["", "", " include_dflt"])
                            out.append("    language %s%s;" % (lg.strip(), kw))
                            self.stmt_kinds.add("language" + (" exclude_dflt" if excl else ""))
                            base = [] if excl else list(feat.get((sc, "dflt", tag), []))
                            if base or (sc, lg, tag) in feat:
                                feat[(sc, lg, tag)] = base
                            cur = [(sc, lg)]
                            flag_known, prev_anon = None, None
                            items(rnd.randrange(1, 3), cur)
            out.append("} %s;" % tag)
            self.blocks.append(out)
            self.vertical = False

        # GDEF table block
        gdef_block = []
        if self.gdef_mode == "explicit":
            b = [x for x in BASES if self.gdef.get(x) == 1]
            parts = [self.cls(b, allow_single=False), self.cls(LIGS, allow_single=False), self.cls(MARKS, allow_single=False),
                     self.cls(self.comp, allow_single=False) if self.comp else ""]
            gdef_block = ["table GDEF {", "    GlyphClassDef %s;" % ", ".join(parts), "} GDEF;"]
            self.stmt_kinds.add("table-GDEF")
        elif self.gdef_mode == "inferred":
            g = dict(self.inferred)
            for m in MARKS:
                g[m] = 3
            self.gdef = g

        text = []
        text.extend(ls_lines)
        pre = list(self.pre)
        text.extend(pre)
        if gdef_block and rnd.random() < 0.5:
            text.extend(gdef_block)
            gdef_block = []
        for b in self.blocks:
            text.extend(b)
        text.extend(gdef_block)
        fea = "\n".join(text) + "\n"

        # model
        model = {"advances": dict(ADVANCES), "gdef": self.gdef, "GSUB": [l.model for l in self.lookups["GSUB"]],
                 "GPOS": [l.model for l in self.lookups["GPOS"]], "langsys": {"GSUB": {}, "GPOS": {}}}
        for (sc, lg, tag), lst in feat.items():
            for table in ("GSUB", "GPOS"):
                idx = sorted({i for t, i in lst if t == table})
                if not idx:
                    continue
                model["langsys"][table].setdefault(sc, {}).setdefault(lg, {"features": {}, "required": []})["features"][tag] = idx
        sure = set()
        for table in ("GSUB", "GPOS"):
            for l_ in self.lookups[table]:
                sure.update(l_.devs)
        return {"devices_all": sorted(sure), "devices_sure": sorted(sure),
                "fea": fea, "model": model, "tags": tags, "alt_values": alt_values,
                "lookups": self.lookups, "kinds": sorted(self.stmt_kinds), "langsys": list(self.langsys),
                "feat": feat}


def make_texts(rnd, prog, n_random=12):
    """[(kind, glyph sequence, features dict, script, lang)]"""
    tags = prog["tags"]
    feat = prog["feat"]
    texts = []
    # which tags activate which lookup (under DFLT/dflt or any langsys)
    by_lookup = {}
    for (sc, lg, tag), lst in feat.items():
        for t, i in lst:
            by_lookup.setdefault((t, i), set()).add((sc, lg, tag))
    allon = {t: 1 for t in tags}
    sl_choices = [("DFLT", "dflt")] + [x for x in prog["langsys"] if x != ("DFLT", "dflt")]
    extra_sl = sorted({(sc, lg) for (sc, lg, tag) in feat})
    alphabet = set()
    for table in ("GSUB", "GPOS"):
        for lk in prog["lookups"][table]:
            for w in lk.wit:
                alphabet.update(w)
            users = sorted(by_lookup.get((table, lk.index), ()))
            for w in lk.wit:
                if users:
                    sc, lg, tag = rnd.choice(users)
                    val = 1
                    if lk.kind == "alternate" or lk.feature_value:
                        val = rnd.randrange(1, (lk.feature_value or 1) + 2)
                    texts.append(("witness", w, {tag: val}, sc, lg))
                    if rnd.random() < 0.5:
                        texts.append(("witness-all", w, allon, sc, lg))
                else:
                    texts.append(("unreferenced", w, allon, "DFLT", "dflt"))
            for w in lk.near:
                if users:
                    sc, lg, tag = rnd.choice(users)
                    texts.append(("near-miss", w, {tag: 1}, sc, lg))
    # marks put between the glyphs of a witness: whatever the lookup's own flag does not skip
    # must break the match (probes a lookup flag or filtering set that leaks from elsewhere)
    gdef = prog["model"].get("gdef") or {}
    allmarks = sorted(g for g, c in gdef.items() if c == 3)
    if allmarks:
        for table in ("GSUB", "GPOS"):
            for lk in prog["lookups"][table]:
                users = sorted(by_lookup.get((table, lk.index), ()))
                for w in lk.seqs:
                    if len(w) < 2 or not users or rnd.random() < 0.4:
                        continue
                    k = rnd.randrange(1, len(w))
                    sc, lg, tag = rnd.choice(users)
                    texts.append(("mark-interleaved", list(w[:k]) + [rnd.choice(allmarks)] + list(w[k:]), {tag: 1}, sc, lg))
    # lookups with hinting Device tables: their witnesses at every ppem of the device ranges
    for lk in prog["lookups"]["GPOS"]:
        devs = lk.devs + lk.mark_devs
        if not devs:
            continue
        ppems = set()
        for d in devs:
            ppems.update(range(d[0] - 1, d[1] + 2))
        users = sorted(by_lookup.get(("GPOS", lk.index), ()))
        for w in lk.wit[:4]:
            for p_ in sorted(ppems):
                if users:
                    sc, lg, tag = users[0]
                    texts.append(("witness-ppem", w, {tag: 1}, sc, lg, None, p_))
                else:
                    texts.append(("unreferenced-ppem", w, allon, "DFLT", "dflt", None, p_))
        for p_ in rnd.sample(sorted(ppems), min(3, len(ppems))):
            texts.append(("random-ppem", [rnd.choice(sorted(alphabet) or ["a"]) for _i in range(rnd.randrange(2, 6))], allon, "DFLT", "dflt", None, p_))
    # ordering texts: concatenated witnesses of different lookups, all features on
    wl = [w for table in ("GSUB", "GPOS") for lk in prog["lookups"][table] for w in lk.wit]
    for _ in range(min(8, len(wl))):
        a, b = rnd.choice(wl), rnd.choice(wl)
        sc, lg = rnd.choice(extra_sl) if extra_sl and rnd.random() < 0.4 else ("DFLT", "dflt")
        texts.append(("ordering", list(a) + list(b), allon, sc, lg))
    alphabet = sorted(alphabet) + ["n", "e.sc"]
    for _ in range(n_random):
        n = rnd.randrange(1, 9)
        s = [rnd.choice(alphabet) for _i in range(n)]
        r = rnd.random()
        if r < 0.5:
            f = allon
        else:
            f = {t: 1 for t in tags if rnd.random() < 0.5} or {rnd.choice(tags): 1}
        if prog["alt_values"] and rnd.random() < 0.3:
            t = rnd.choice(sorted(prog["alt_values"]))
            f = {t: rnd.randrange(1, prog["alt_values"][t] + 2)}
        sc, lg = rnd.choice(extra_sl) if extra_sl and rnd.random() < 0.5 else ("DFLT", "dflt")
        if rnd.random() < 0.1:
            sc, lg = rnd.choice([("grek", "dflt"), ("latn", "ZZZ "), ("cyrl", "dflt")])
        texts.append(("random", s, f, sc, lg))
    return texts


def generate(rnd, level=3):
    return FeaGen(rnd, level).generate()


AXIS = ("wght", 100, 400, 900)
VAR_LOCS = [None, 100, 250, 400, 650, 900]


def generate_variable(rnd):
    """A feature file for a one-axis variable font: single and pair values (glyph and class
    pairs), contextual values and mark/base anchors given as variable scalars whose masters
    are listed in varying order.  Master values are multiples of 40, so the interpolated
    values at the probed locations are integers."""
    masters = [100, 400, 900]

    def scalar(nonzero_default=True):
        vals = [40 * rnd.randrange(-4, 5) for _ in masters]
        if nonzero_default and not vals[1]:
            vals[1] = 40
        if len(set(vals)) == 1:
            vals[2] += 80
        pts = list(zip(masters, vals))
        show = list(pts)
        rnd.shuffle(show)
        return "(%s)" % " ".join("wght=%d:%d" % p for p in show), vals[1], {"var": pts}

    def value():
        r = rnd.random()
        if r < 0.5:
            t, d, ex = scalar()
            return t, (0, 0, d, 0, {"xa": ex})
        fields, text, ex = [0, 0, 0, 0], [], {}
        for i, f in enumerate(("xp", "yp", "xa", "ya")):
            q = rnd.random()
            if i < 3 and q < 0.5:
                t, d, e = scalar(i == 2)
                fields[i], ex[f] = d, e
                text.append(t)
            elif i < 3 and q < 0.7:
                fields[i] = 40 * rnd.randrange(1, 4)
                text.append(str(fields[i]))
            else:
                text.append("0")
        if not ex:
            t, d, e = scalar()
            fields[2], ex["xa"] = d, e
            text[2] = t
        return "<%s>" % " ".join(text), tuple(fields) + (ex,)

    def anchor():
        r = rnd.random()
        x, y = rnd.randrange(0, 500), rnd.randrange(0, 800)
        ex, tx, ty = {}, str(x), str(y)
        if r < 0.7:
            tx, x, ex["x"] = scalar()
        if r > 0.4:
            ty, y, ex["y"] = scalar()
        return "<anchor %s %s>" % (tx, ty), (x, y, ex)

    cls = lambda gl: "[" + " ".join(gl) + "]"
    pre, lines, gpos, texts = [], [], [], []
    marks = {}
    for mk in ("acute", "grave", "cedilla"):
        at, a = anchor()
        cname = "TOP" if mk != "cedilla" else "BOT"
        pre.append("markClass %s %s @%s;" % (mk, at, cname))
        marks[mk] = (cname, a)
    pre.append("table GDEF {\n    GlyphClassDef [%s], [%s], [%s], ;\n} GDEF;" % (" ".join(LETTERS + SC), " ".join(LIGS), " ".join(MARKS)))
    gdef = dict([(g, 1) for g in LETTERS + SC] + [(g, 2) for g in LIGS] + [(g, 3) for g in MARKS])
    feats = {}
    order = ["spos", "ppos", "cpos", "mbase"]
    rnd.shuffle(order)
    for fi, kind in enumerate(order):
        tag = "tst%d" % (fi + 1)
        lines.append("feature %s {" % tag)
        if kind == "spos":
            vals = {}
            for g in rnd.sample(LETTERS, 4):
                t, v = value()
                lines.append("    pos %s %s;" % (g, t))
                vals[g] = v
                texts.append([g])
            gpos.append({"kind": "spos", "flag": {}, "values": vals})
        elif kind == "ppos":
            pairs, rules = [], []
            for _ in range(3):
                a, b = rnd.sample(LETTERS[:7], 2)
                if any(p[0] == a and p[1] == b for p in pairs):
                    continue
                t, d, ex = scalar()
                lines.append("    pos %s %s %s;" % (a, b, t))
                pairs.append((a, b, (0, 0, d, 0, {"xa": ex}), None))
                texts.append([a, b])
            lefts = [LETTERS[7:9], LETTERS[9:11]]
            rights = [LETTERS[11:13], SC[:2], SC[2:4]]
            for l in lefts:
                for r_ in rnd.sample(rights, 2):
                    t, d, ex = scalar(rnd.random() < 0.6)
                    lines.append("    pos %s %s %s;" % (cls(l), cls(r_), t))
                    rules.append((l, r_, (0, 0, d, 0, {"xa": ex}), None))
                    texts.append([rnd.choice(l), rnd.choice(r_)])
            gpos.append({"kind": "ppos", "flag": {}, "pairs": pairs, "classes": [rules]})
        elif kind == "cpos":
            rules = []
            for _ in range(2):
                b, i, a = rnd.sample(LETTERS, 3)
                t, v = value()
                lines.append("    pos %s %s' %s %s;" % (b, i, t, a))
                rules.append({"back": [[b]], "input": [[i]], "ahead": [[a]], "lookups": [[{"kind": "spos", "flag": {}, "values": {i: v}}]]})
                texts.append([b, i, a])
            gpos.append({"kind": "cpos", "flag": {}, "subtables": [rules]})
        else:
            bases = {}
            for g in rnd.sample(LETTERS, 3):
                d, parts = {}, []
                for cname in ("TOP", "BOT"):
                    at, a = anchor()
                    parts.append("%s mark @%s" % (at, cname))
                    d[cname] = a
                lines.append("    pos base %s %s;" % (g, " ".join(parts)))
                bases[g] = d
                texts.append([g, rnd.choice(sorted(marks))])
                texts.append([g, "cedilla", "acute"])
            gpos.append({"kind": "mbase", "flag": {}, "marks": dict(marks), "bases": bases})
        lines.append("} %s;" % tag)
        feats[tag] = [len(gpos) - 1]
    model = {"advances": dict(ADVANCES), "gdef": gdef, "GSUB": [], "GPOS": gpos, "axis": AXIS,
             "langsys": {"GSUB": {}, "GPOS": {"DFLT": {"dflt": {"features": feats, "required": []}}}}}
    tags = sorted(feats)
    allon = {t: 1 for t in tags}
    tt = []
    for seq in texts + [[rnd.choice(LETTERS + MARKS[:2]) for _i in range(rnd.randrange(2, 6))] for _ in range(8)]:
        for loc in VAR_LOCS:
            tt.append(("variable", seq, allon, "DFLT", "dflt", loc))
    return {"fea": "\n".join(pre + lines) + "\n", "model": model, "tags": tags, "kinds": ["variable-scalar", "variable-anchor"], "axis": AXIS}, tt
