"""Generated designspaces with point-compatible in-memory masters (C10 workload (a); the
built variable fonts are also inputs of C08).

Everything is a function of a `random.Random`; the masters are assembled with
fontBuilder / feaLib (library code, used here only as a *workload generator*: the
verdicts come from HarfBuzz comparing the saved masters with the saved variable font).

make(rnd, kind, ...) -> dict with
  ds        DesignSpaceDocument whose sources carry .font (TTFont re-loaded from bytes)
  masters   [{name, design:{axis name: v}, user:{tag: v}, bytes, order, sparse_glyphs:set, layout:bool}]
  axes      [{name, tag, min, default, max, map:[(user, design)] or None}]
  pairs     kerned glyph pairs, bases, marks   (glyph names)
"""
import io

UPEM = 1000

# ---- base shapes: list of contours; contour = list of (x, y, kind) with kind 'l' line point,
# 'o' off-curve (quadratic, TrueType) ; for CFF the off-curve points are used pairwise as cubic
# control points (every contour below has its off-curve points in groups of two, so that the
# same point list serves both flavours).
SHAPES = {
    ".notdef": [[(50, 0, "l"), (50, 700, "l"), (450, 700, "l"), (450, 0, "l")],
                [(100, 50, "l"), (400, 50, "l"), (400, 650, "l"), (100, 650, "l")]],
    "A": [[(20, 0, "l"), (250, 700, "l"), (300, 700, "l"), (530, 0, "l"), (440, 0, "l"), (275, 560, "l"), (110, 0, "l")]],
    "A.alt": [[(30, 0, "l"), (240, 690, "l"), (310, 690, "l"), (520, 0, "l"), (430, 0, "l"), (275, 540, "l"), (120, 0, "l")]],
    "B": [[(80, 0, "l"), (80, 700, "l"), (300, 700, "l"), (420, 690, "o"), (480, 600, "o"), (480, 520, "l"),
           (480, 430, "o"), (420, 370, "o"), (330, 360, "l"), (440, 340, "o"), (520, 280, "o"), (520, 180, "l"),
           (520, 60, "o"), (430, 0, "o"), (310, 0, "l")],
          [(170, 80, "l"), (300, 80, "l"), (400, 90, "o"), (430, 120, "o"), (430, 190, "l"), (430, 260, "o"),
           (400, 300, "o"), (300, 300, "l"), (170, 300, "l")]],
    "E": [[(70, 0, "l"), (70, 700, "l"), (470, 700, "l"), (470, 620, "l"), (160, 620, "l"), (160, 400, "l"),
           (430, 400, "l"), (430, 320, "l"), (160, 320, "l"), (160, 80, "l"), (480, 80, "l"), (480, 0, "l")]],
    "O": [[(300, -10, "l"), (140, -10, "o"), (40, 130, "o"), (40, 350, "l"), (40, 570, "o"), (140, 710, "o"),
           (300, 710, "l"), (460, 710, "o"), (560, 570, "o"), (560, 350, "l"), (560, 130, "o"), (460, -10, "o")],
          [(300, 70, "l"), (400, 70, "o"), (470, 170, "o"), (470, 350, "l"), (470, 530, "o"), (400, 630, "o"),
           (300, 630, "l"), (200, 630, "o"), (130, 530, "o"), (130, 350, "l"), (130, 170, "o"), (200, 70, "o")]],
    "acutecomb": [[(-120, 580, "l"), (-40, 720, "l"), (20, 720, "l"), (-70, 580, "l")]],
    "gravecomb": [[(-20, 580, "l"), (-110, 720, "l"), (-170, 720, "l"), (-70, 580, "l")]],
}
# composites (TrueType only; CFF draws the decomposed contours)
COMPOSITES = {
    "C": [("A", 0, 0, None, False), ("acutecomb", 330, 40, None, False)],
    "D": [("E", 0, 0, None, True), ("O", 520, 10, (0.5, 0.0, 0.0, 0.5), False)],
    # depth-2 composites; one name sorts before its inner composite, the other after it
    "Anest": [("C", 0, 0, None, False), ("gravecomb", 470, 90, None, False)],
    "Znest": [("D", 10, 0, None, False), ("acutecomb", 300, 60, None, False)],
}
ORDER = [".notdef", "space", "A", "B", "E", "O", "C", "D", "acutecomb", "gravecomb", "A.alt", "Znest", "Anest"]
CMAP = {0x20: "space", 0x41: "A", 0x42: "B", 0x45: "E", 0x4F: "O", 0x43: "C", 0x44: "D", 0x301: "acutecomb", 0x300: "gravecomb",
        0xE000: "Anest", 0xE001: "Znest"}
MARKS = ["acutecomb", "gravecomb"]
BASES = ["A", "B", "E", "O"]

AXIS_POOL = [("Weight", "wght", (100, 400, 900)), ("Width", "wdth", (50, 100, 200)), ("Contrast", "CNTR", (0, 0, 100)),
             ("Optical", "opsz", (8, 14, 144)), ("Slant", "slnt", (-12, 0, 0))]

MVAR_FIELDS = {
    "OS/2": ["sxHeight", "sCapHeight", "sTypoAscender", "sTypoDescender", "sTypoLineGap", "usWinAscent", "usWinDescent",
             "yStrikeoutSize", "yStrikeoutPosition", "ySubscriptXSize", "ySubscriptYSize", "ySubscriptYOffset",
             "ySuperscriptXSize", "ySuperscriptYSize", "ySuperscriptYOffset"],
    "post": ["underlinePosition", "underlineThickness"],
    "hhea": ["caretSlopeRise", "caretSlopeRun", "caretOffset"],
}
MVAR_BASE = {"sxHeight": 480, "sCapHeight": 700, "sTypoAscender": 780, "sTypoDescender": -220, "sTypoLineGap": 60,
             "usWinAscent": 900, "usWinDescent": 260, "yStrikeoutSize": 50, "yStrikeoutPosition": 290,
             "ySubscriptXSize": 650, "ySubscriptYSize": 600, "ySubscriptYOffset": 75, "ySuperscriptXSize": 640,
             "ySuperscriptYSize": 610, "ySuperscriptYOffset": 350, "underlinePosition": -75, "underlineThickness": 50,
             "caretSlopeRise": 1000, "caretSlopeRun": 0, "caretOffset": 0}


def _pmap(v, knots):
    """piecewise linear, knots sorted [(x, y)], inside the knot range."""
    for (a, fa), (b, fb) in zip(knots, knots[1:]):
        if a <= v <= b:
            return fa if a == b else fa + (v - a) * (fb - fa) / (b - a)
    return knots[0][1] if v < knots[0][0] else knots[-1][1]


def gen_axes(rnd, naxes, maps=True):
    axes = []
    for name, tag, (lo, df, hi) in rnd.sample(AXIS_POOL, naxes):
        r = rnd.random()
        if r < 0.25:
            df = lo
        elif r < 0.4:
            df = hi
        elif r < 0.7:
            df = rnd.randrange(int(lo) + 1, int(hi)) if hi - lo > 2 else df
        amap = None
        if maps and rnd.random() < 0.6:
            kind = rnd.random()
            if kind < 0.2:
                users = sorted({lo, df, hi})
                amap = [(float(u), float(u)) for u in users]           # identity map
            elif kind < 0.45:
                # "user == design at most stops, one stop tweaked": interior knots that normalise to themselves
                # next to one that does not
                users = sorted({lo, df, hi} | {rnd.randrange(int(lo), int(hi) + 1) for _ in range(rnd.randrange(2, 5))})
                amap = [(float(u), float(u)) for u in users]
                inner = [i for i, u in enumerate(users) if u not in (lo, df, hi)]
                if inner:
                    j = rnd.choice(inner)
                    gap = (users[j + 1] - users[j]) if rnd.random() < 0.5 else -(users[j] - users[j - 1])
                    amap[j] = (float(users[j]), float(users[j]) + gap * rnd.choice([0.25, 0.5, 0.75]))
            else:
                users = sorted({lo, df, hi} | {rnd.randrange(int(lo), int(hi) + 1) for _ in range(rnd.randrange(0, 3))})
                # monotone design values; occasionally steep / nearly flat segments
                d = rnd.choice([0, 20, 100, -50])
                amap = []
                for i, u in enumerate(users):
                    if i:
                        step = (u - users[i - 1]) * rnd.choice([0.2, 0.5, 1, 1, 2, 5])
                        d += max(1, round(step))
                    amap.append((float(u), float(d)))
        axes.append({"name": name, "tag": tag, "min": float(lo), "default": float(df), "max": float(hi), "map": amap})
    return axes


def _fwd(ax, u):
    return _pmap(u, ax["map"]) if ax["map"] else u


def gen_master_locations(rnd, axes, n_extra, grid):
    """User-space master locations: default, on-axis extremes, some corners, on-axis and
    off-axis intermediates.  With grid=True intermediates sit on normalised multiples of 1/8."""
    default = {a["tag"]: a["default"] for a in axes}
    locs = [dict(default)]

    def ends(a):
        return [v for v in (a["min"], a["max"]) if v != a["default"]]

    def inter(a):
        side = rnd.choice(ends(a))
        if grid:
            t = rnd.choice([1, 2, 3, 4, 5, 6, 7]) / 8.0
        else:
            t = rnd.uniform(0.1, 0.9)
        v = a["default"] + t * (side - a["default"])
        if a["map"]:
            # keep intermediate masters on map knots half of the time
            ks = [u for u, _ in a["map"] if u not in (a["min"], a["default"], a["max"])]
            if ks and rnd.random() < 0.5:
                v = rnd.choice(ks)
        return v

    for a in axes:
        for e in ends(a):
            if rnd.random() < 0.9:
                l = dict(default)
                l[a["tag"]] = e
                locs.append(l)
    if len(axes) > 1:
        for _ in range(rnd.randrange(0, 3)):
            l = {a["tag"]: rnd.choice([a["min"], a["max"], a["default"]]) for a in axes}
            locs.append(l)
    for _ in range(n_extra):
        r = rnd.random()
        l = dict(default)
        if r < 0.5 or len(axes) == 1:
            a = rnd.choice(axes)
            l[a["tag"]] = inter(a)
        else:
            for a in axes:
                if rnd.random() < 0.7:
                    l[a["tag"]] = inter(a) if rnd.random() < 0.7 else rnd.choice([a["min"], a["max"]])
        locs.append(l)
    mode = rnd.random()
    if mode < 0.3:
        # a chain of intermediate masters on one side of the default of one axis: evenly spaced, or closely spaced
        # ("brace layer" style); fractional weights of earlier deltas then feed into later masters
        cand = [a for a in axes if ends(a)]
        if cand:
            a = rnd.choice(cand)
            side = rnd.choice(ends(a))
            if rnd.random() < 0.5:
                ts = [0.25, 0.5, 0.75]
            else:
                t0 = rnd.choice([0.2, 0.4, 0.6])
                ts = [t0 + 0.025 * k for k in range(rnd.choice([3, 4]))]
            for t in ts:
                l = dict(default)
                l[a["tag"]] = a["default"] + t * (side - a["default"])
                locs.append(l)
    elif mode < 0.6 and len([a for a in axes if ends(a)]) >= 2:
        # two off-axis masters mirroring each other: (end, half) and (half, end) - equal tent triples on swapped axes
        a1, a2 = rnd.sample([a for a in axes if ends(a)], 2)
        e1, e2 = rnd.choice(ends(a1)), rnd.choice(ends(a2))
        for (ax, vx), (ay, vy) in (((a1, e1), (a2, a2["default"] + 0.5 * (e2 - a2["default"]))),
                                   ((a1, a1["default"] + 0.5 * (e1 - a1["default"])), (a2, e2))):
            l = dict(default)
            l[ax["tag"]], l[ay["tag"]] = vx, vy
            locs.append(l)
    out, seen = [], set()
    for l in locs:
        k = tuple(sorted(l.items()))
        if k not in seen:
            seen.add(k)
            out.append(l)
    return out


def _perturb(rnd, strength):
    sx, sy = rnd.uniform(-0.25, 0.25) * strength, rnd.uniform(-0.15, 0.15) * strength
    tx, ty = rnd.randrange(-30, 31) * strength, rnd.randrange(-20, 21) * strength
    return sx, sy, tx, ty


def _master_shapes(rnd, is_default, mark_zero=True):
    """-> {glyph: contours with integer points}, component offsets, advances, lsb slack"""
    shapes = {}
    for g, contours in SHAPES.items():
        if is_default:
            shapes[g] = [[(x, y, k) for x, y, k in c] for c in contours]
            continue
        sx, sy, tx, ty = _perturb(rnd, 1.0)
        noisy = rnd.random() < 0.6
        out = []
        for c in contours:
            cc = []
            for x, y, k in c:
                nx = x * (1 + sx) + tx
                ny = y * (1 + sy) + ty
                if noisy and rnd.random() < 0.3:
                    nx += rnd.randrange(-25, 26)
                    ny += rnd.randrange(-25, 26)
                cc.append((int(round(nx)), int(round(ny)), k))
            out.append(cc)
        if rnd.random() < 0.5:
            # one point pulled away on its own while its neighbours follow the affine move: the deltas of the others
            # stay IUP-inferable, and the inference ratios depend on which outline they are computed against
            c = rnd.choice(out)
            j = rnd.randrange(len(c))
            x, y, k = c[j]
            c[j] = (x + rnd.choice([-1, 1]) * rnd.randrange(30, 81), y + rnd.choice([-1, 1]) * rnd.randrange(20, 61), k)
        shapes[g] = out
    comps = {}
    for g, cl in COMPOSITES.items():
        comps[g] = []
        for base, dx, dy, tr, umm in cl:
            if not is_default:
                dx += rnd.randrange(-40, 41)
                dy += rnd.randrange(-30, 31)
            comps[g].append((base, dx, dy, tr, umm))
    adv = {}
    for g in ORDER:
        base = {"space": 250, "acutecomb": 0, "gravecomb": 0, ".notdef": 500}.get(g, 600)
        if g in MARKS:
            # constant zero advance, or clearly positive in every master (an interpolated advance must not go negative)
            adv[g] = 0 if mark_zero else 60 + rnd.randrange(0, 40)
        else:
            adv[g] = base if is_default else base + rnd.randrange(-120, 160)
    return shapes, comps, adv


def _use_my_metrics_advances(adv):
    """a composite whose component carries USE_MY_METRICS has that component's advance"""
    for g, cl in COMPOSITES.items():
        for base, dx, dy, tr, umm in cl:
            if umm:
                adv[g] = adv[base]


def _fix_tt_segment_types(contours):
    """TrueType point pen: an on-curve point following off-curve points is 'qcurve'."""
    out = []
    for c in contours:
        cc = []
        n = len(c)
        for i, (x, y, k) in enumerate(c):
            if k == "o":
                cc.append((x, y, None))
            else:
                prev = c[(i - 1) % n][2]
                cc.append((x, y, "qcurve" if prev == "o" else "line"))
        out.append(cc)
    return out


def _tt_glyph2(contours):
    from fontTools.pens.ttGlyphPen import TTGlyphPointPen

    pen = TTGlyphPointPen(None)
    for c in _fix_tt_segment_types(contours):
        pen.beginPath()
        for x, y, st in c:
            pen.addPoint((x, y), st)
        pen.endPath()
    return pen.glyph(dropImpliedOnCurves=False)


def _tt_composite(comps):
    from fontTools.pens.ttGlyphPen import TTGlyphPen
    from fontTools.ttLib.tables._g_l_y_f import USE_MY_METRICS

    pen = TTGlyphPen({g: None for g in ORDER})
    for base, dx, dy, tr, umm in comps:
        t = tr or (1, 0, 0, 1)
        pen.addComponent(base, (t[0], t[1], t[2], t[3], dx, dy))
    g = pen.glyph()
    for comp, (base, dx, dy, tr, umm) in zip(g.components, comps):
        if umm:
            comp.flags |= USE_MY_METRICS
    return g


def _cff_charstring(contours, width=None):
    from fontTools.pens.t2CharStringPen import T2CharStringPen

    pen = T2CharStringPen(width, None)
    for c in contours:
        # rotate so that the contour starts on an on-curve point
        pts = list(c)
        pen.moveTo((pts[0][0], pts[0][1]))
        i = 1
        n = len(pts)
        while i < n:
            x, y, k = pts[i]
            if k == "l":
                pen.lineTo((x, y))
                i += 1
            else:
                c1 = pts[i]
                c2 = pts[i + 1]
                e = pts[(i + 2) % n]
                pen.curveTo((c1[0], c1[1]), (c2[0], c2[1]), (e[0], e[1]))
                i += 3
        pen.closePath()
    # masters of a variable build must keep one operator per segment (no specialisation: it merges collinear
    # segments differently in each master and makes otherwise compatible masters incompatible)
    return pen.getCharString(optimize=False)


def _decomposed(g, shapes, comps):
    if g in shapes:
        return shapes[g]
    out = []
    for base, dx, dy, tr, umm in comps[g]:
        t = tr or (1, 0, 0, 1)
        for c in _decomposed(base, shapes, comps):
            out.append([(int(round(t[0] * x + t[2] * y + dx)), int(round(t[1] * x + t[3] * y + dy)), k) for x, y, k in c])
    return out


def _fea(rnd, is_default, glyphs, with_caret, sparse_kern=False, kern_const=(False, False, False)):
    def j(v, r=40):
        return v if is_default else v + rnd.randrange(-r, r + 1)

    def nz(v):
        return v if v != 0 else 7

    has = lambda *gs: all(g in glyphs for g in gs)
    lines = ["languagesystem DFLT dflt;"]
    marks = [m for m in MARKS if m in glyphs]
    for m in marks:
        lines.append("markClass %s <anchor %d %d> @TOP;" % (m, j(-60, 30), j(570, 30)))
    lines.append("feature kern {")
    pairs = []
    for a, b, v in (("A", "B", -50), ("B", "A", 30), ("A", "E", -35), ("E", "E", 22), ("O", "A", -44), ("A", "A", 15)):
        if has(a, b):
            lines.append("  pos %s %s %d;" % (a, b, nz(j(v))))
            pairs.append((a, b))
    if has("A", "B", "C", "D"):
        if sparse_kern:
            # kerning exceptions to the class pair below that exist in only some masters: in the others the pair is
            # kerned by the class subtable while its first glyph is still covered by the glyph-pair subtable (A B, B A)
            for a, b, v in (("A", "C", -70), ("B", "D", 55), ("A", "D", -33)):
                if rnd.random() < 0.5:
                    lines.append("  pos %s %s %d;" % (a, b, nz(v + rnd.randrange(-20, 21))))
        # (a class row may be the same in every master while other rows vary: kern_const)
        lines.append("  pos [A B] [C D] %d;" % (18 if kern_const[0] else nz(j(18))))
        pairs += [("A", "C"), ("B", "D"), ("A", "D"), ("B", "C")]
        if has("E", "O"):
            # further class-based subtables whose first-glyph coverage overlaps the one above (hand-written kerning
            # with `subtable;` breaks: same left glyphs, other right classes); the first covering subtable wins
            lines.append("  subtable;")
            lines.append("  pos [A B E] [O D] %d;" % (-27 if kern_const[1] else nz(j(-27))))
            lines.append("  subtable;")
            lines.append("  pos [B E O] [A C] %d;" % (33 if kern_const[2] else nz(j(33))))
            pairs += [("A", "O"), ("B", "O"), ("E", "O"), ("E", "D"), ("E", "A"), ("O", "C"), ("B", "A"), ("E", "C")]
    if has("O", "E"):
        lines.append("  pos O E <%d %d %d 0>;" % (nz(j(12, 10)), nz(j(9, 8)), nz(j(-25, 20))))
        pairs.append(("O", "E"))
    lines.append("} kern;")
    if marks:
        lines.append("feature mark {")
        for b, (x, y) in (("A", (275, 710)), ("B", (260, 715)), ("E", (270, 712)), ("O", (300, 722))):
            if b in glyphs:
                lines.append("  pos base %s <anchor %d %d> mark @TOP;" % (b, j(x), j(y)))
        lines.append("} mark;")
        lines.append("feature mkmk {")
        for m in marks:
            lines.append("  pos mark %s <anchor %d %d> mark @TOP;" % (m, j(-70, 25), j(740, 25)))
        lines.append("} mkmk;")
    bases = [g for g in ("A", "B", "E", "O", "C", "D", "A.alt", "Anest", "Znest") if g in glyphs]
    lines.append("table GDEF {")
    lines.append("  GlyphClassDef [%s], , [%s], ;" % (" ".join(bases), " ".join(marks)))
    if with_caret and "D" in glyphs:
        lines.append("  LigatureCaretByPos D %d;" % j(520, 60))
    lines.append("} GDEF;")
    return "\n".join(lines) + "\n", pairs


def build_master(rnd, kind, is_default, glyphs, opts, name):
    """-> (bytes, info).  glyphs: the glyph names present with outlines (sparse masters have fewer)."""
    from fontTools.fontBuilder import FontBuilder
    from fontTools.ttLib.tables._g_l_y_f import Glyph
    from fontTools.feaLib.builder import addOpenTypeFeaturesFromString

    shapes, comps, adv = _master_shapes(rnd, is_default, opts.get("mark_zero", True))
    sparse = set(ORDER) - set(glyphs)
    order = list(ORDER) if kind == "ttf" or not opts.get("cff_subset_sparse") else [g for g in ORDER if g in glyphs or g in (".notdef",)]
    if not opts.get("alt"):
        order = [g for g in order if g != "A.alt"]
        sparse.discard("A.alt")
    if kind == "ttf" and opts.get("umm", True):
        _use_my_metrics_advances(adv)
    elif kind == "ttf":
        # this master does not carry the USE_MY_METRICS flags (and its composites have advances of their own)
        comps = {g: [(b, dx, dy, tr, False) for b, dx, dy, tr, u in cl] for g, cl in comps.items()}
    fb = FontBuilder(UPEM, isTTF=(kind == "ttf"))
    fb.setupGlyphOrder(order)
    fb.setupCharacterMap({cp: g for cp, g in CMAP.items() if g in order})
    metrics = {}
    if kind == "ttf":
        gl = {}
        for g in order:
            if g == "space" or g in sparse:
                gl[g] = Glyph()
            elif g in comps:
                gl[g] = _tt_composite(comps[g])
            else:
                gl[g] = _tt_glyph2(shapes[g])
        fb.setupGlyf(gl)
        glyf = fb.font["glyf"]
        for g in order:
            xmin = getattr(glyf[g], "xMin", 0) if glyf[g].numberOfContours else 0
            slack = 0 if opts.get("lsb_is_xmin", True) else rnd.choice([0, 0, 7, -5])
            metrics[g] = (adv[g], xmin + slack)
    else:
        cs = {}
        for g in order:
            if g == "space" or g in sparse:
                cs[g] = _cff_charstring([])
            else:
                cs[g] = _cff_charstring(_decomposed(g, shapes, comps))
            metrics[g] = (adv[g], 0)
        fb.setupCFF("Gen-" + name, {"FullName": "Gen " + name}, cs, {})
        for g in order:
            # lsb = xMin of the charstring
            b = cs[g].calcBounds(None)
            metrics[g] = (metrics[g][0], int(b[0]) if b else 0)
        if opts.get("vertical"):
            # vertical metrics: vhea/vmtx and a VORG whose default origin differs per master, with explicit records
            # for a few glyphs only (the others sit at the master's own default)
            dflt = 880 if is_default else 880 + rnd.randrange(-70, 71)
            vorg, vmet = {}, {}
            for g in order:
                if g in ("A", "O", "acutecomb") and g not in sparse:
                    vorg[g] = (860 if g != "O" else 905) if is_default else 870 + rnd.randrange(-60, 61)
                b = cs[g].calcBounds(None)
                ymax = int(b[3]) if b else 0
                h = 1000 if is_default or g in MARKS else 1000 + rnd.randrange(-90, 91)
                vmet[g] = (h, vorg.get(g, dflt) - ymax)
            fb.setupVerticalHeader(ascent=500, descent=-500)
            fb.setupVerticalMetrics(vmet)
            fb.setupVerticalOrigins(vorg, dflt)
    fb.setupHorizontalMetrics(metrics)

    def mv(field):
        base = MVAR_BASE[field]
        if is_default or not opts.get("mvar", True):
            return base
        if field == "usWinDescent" or field == "usWinAscent":
            return base + rnd.randrange(0, 80)
        return base + rnd.randrange(-40, 41)

    os2 = {f: mv(f) for f in MVAR_FIELDS["OS/2"]}
    fs = 0x40 | (0x80 if opts.get("use_typo") else 0)
    fb.setupHorizontalHeader(ascent=os2["sTypoAscender"], descent=os2["sTypoDescender"], lineGap=os2["sTypoLineGap"],
                             **{f: mv(f) for f in MVAR_FIELDS["hhea"]})
    fb.setupNameTable({"familyName": "Gen", "styleName": name})
    fb.setupOS2(version=4, fsSelection=fs, **os2)
    fb.setupPost(**{f: mv(f) for f in MVAR_FIELDS["post"]})
    pairs = []
    if opts.get("layout", True) and not (sparse and (opts.get("sparse_no_layout") or len(order) < len([g for g in ORDER if opts.get("alt") or g != "A.alt"]))):
        fea, pairs = _fea(rnd, is_default, set(order) - ({"space"}), opts.get("caret"), opts.get("sparse_kern"), opts.get("kern_const", (False, False, False)))
        addOpenTypeFeaturesFromString(fb.font, fea)
    buf = io.BytesIO()
    fb.font.save(buf)
    return buf.getvalue(), {"order": order, "sparse": sorted(sparse), "pairs": pairs,
                            "layout": "GPOS" in fb.font, "adv": {g: metrics[g][0] for g in order}}


def make(rnd, kind="ttf", naxes=None, maps=True, rules=False, sparse=True, grid=False, layout=True, n_extra=None, twin=False, axis_sparse=None):
    from fontTools.designspaceLib import DesignSpaceDocument, AxisDescriptor, SourceDescriptor, RuleDescriptor
    from fontTools.ttLib import TTFont

    naxes = naxes or rnd.choice([1, 1, 2, 2, 3])
    axes = gen_axes(rnd, naxes, maps)
    if n_extra is None:
        n_extra = rnd.choice([0, 1, 1, 2, 3])
    ulocs = gen_master_locations(rnd, axes, n_extra, grid)
    if rnd.random() < 0.6:
        rnd.shuffle(ulocs)      # the default master need not be the first source
    opts = {"alt": rules, "layout": layout, "use_typo": rnd.random() < 0.5, "caret": rnd.random() < 0.5,
            "lsb_is_xmin": rnd.random() < 0.6, "mvar": rnd.random() < 0.85,
            "sparse_adv_sentinel": rnd.random() < 0.5, "sparse_no_layout": rnd.random() < 0.5,
            "cff_subset_sparse": rnd.random() < 0.5, "mark_zero": rnd.random() < 0.7,
            "sparse_kern": rnd.random() < 0.7, "partial_locations": rnd.random() < 0.6,
            "axis_sparse": rnd.random() < 0.35, "vertical": kind == "cff" and rnd.random() < 0.45,
            "kern_const": tuple(rnd.random() < 0.4 for _ in range(3))}
    ds = DesignSpaceDocument()
    for a in axes:
        ad = AxisDescriptor()
        ad.name, ad.tag = a["name"], a["tag"]
        ad.minimum, ad.default, ad.maximum = a["min"], a["default"], a["max"]
        if a["map"]:
            ad.map = list(a["map"])
        ds.addAxis(ad)
    masters = []
    default = {a["tag"]: a["default"] for a in axes}
    # candidates for sparse masters: intermediates (not on-axis extremes of a 1-master-per-axis set)
    sparse_idx = set()
    if sparse and len(ulocs) > naxes + 2 and rnd.random() < 0.6:
        cands = [i for i, l in enumerate(ulocs) if l != default and any(l[a["tag"]] not in (a["min"], a["max"], a["default"]) for a in axes)]
        if cands:
            sparse_idx.add(rnd.choice(cands))
    # USE_MY_METRICS on composite components: set in every master, or missing from exactly one of them (often the
    # first-listed source, which need not be the default master) - the builder must then clear the flag
    umm_off = None
    if kind == "ttf" and len(ulocs) > 1 and rnd.random() < 0.5:
        cands = [i for i, l in enumerate(ulocs) if l != default]
        umm_off = 0 if (ulocs[0] != default and rnd.random() < 0.6) else rnd.choice(cands)
        # with the flag a renderer positions the composite by the component's side bearing, without it by its own:
        # keep both at zero slack so that clearing the flag cannot move the outline
        opts["lsb_is_xmin"] = True
    full = [g for g in ORDER if rules or g != "A.alt"]
    force_axis_sparse, axis_sparse, ends_only = axis_sparse, {}, None
    if (opts["axis_sparse"] if force_axis_sparse is None else force_axis_sparse) and sparse and naxes >= 2:
        a1, a2 = rnd.sample(axes, 2)
        # B has masters everywhere along a1 only; E (and the composites built from it) only at the default and at the
        # ends of a2, not at a2's intermediate masters: three different sub-models / region sets in one font
        axis_sparse = {a1["tag"]: {".notdef", "B"}, a2["tag"]: {"E", "D", "Znest"}}
        ends2 = [v for v in (a2["min"], a2["max"]) if v != a2["default"]]
        if ends2:
            mid = dict(default)
            mid[a2["tag"]] = a2["default"] + 0.5 * (rnd.choice(ends2) - a2["default"])
            if mid not in ulocs:
                ulocs.append(mid)       # make sure a2 has an on-axis intermediate master
        ends_only = a2["tag"]
    for i, ul in enumerate(ulocs):
        is_default = ul == default
        glyphs = list(full)
        if i in sparse_idx:
            keep = set(rnd.sample(["A", "B", "E", "O"], rnd.randrange(1, 3))) | {".notdef", "space"}
            if kind == "ttf" and rnd.random() < 0.5 and "A" in keep:
                keep |= {"C", "acutecomb"}
            glyphs = [g for g in full if g in keep]
        if axis_sparse and not is_default:
            # glyphs that only have masters along one axis: absent wherever another axis is off its default
            off = {a["tag"] for a in axes if ul[a["tag"]] != a["default"]}
            drop = set()
            for tag, gs in axis_sparse.items():
                if off - {tag}:
                    drop |= gs
                elif tag == ends_only and any(ul[a["tag"]] not in (a["min"], a["max"], a["default"]) for a in axes if a["tag"] == tag):
                    drop |= gs
            glyphs = [g for g in glyphs if g not in drop]
        name = "m%d" % i
        data, info = build_master(rnd, kind, is_default, glyphs, dict(opts, umm=(i != umm_off)), name)
        design = {a["name"]: _fwd(a, ul[a["tag"]]) for a in axes}
        sd = SourceDescriptor()
        sd.name = name
        sd.familyName, sd.styleName = "Gen", name
        loc = dict(design)
        if opts["partial_locations"]:
            # since designspace format 5 a source may omit axes that sit at their default
            for a in axes:
                if ul[a["tag"]] == a["default"] and rnd.random() < 0.7:
                    del loc[a["name"]]
        sd.location = loc
        sd.font = TTFont(io.BytesIO(data), recalcTimestamp=False)
        # TrueType: a glyph absent from a sparse master does not contribute to gvar (phantom points), so its
        # advance must not contribute to HVAR either, or the built font's HVAR and gvar disagree
        sentinel = bool(info["sparse"]) and (opts["sparse_adv_sentinel"] or kind == "ttf")
        if sentinel:
            # varLib's documented sentinel: advance 0xFFFF = "glyph absent from this master's metrics".
            # Applied in memory only (a saved master with such advances overflows OS/2.xAvgCharWidth).
            hm = sd.font["hmtx"].metrics
            for g in info["sparse"]:
                if g in hm:
                    hm[g] = (0xFFFF, hm[g][1])
        ds.addSource(sd)
        masters.append({"name": name, "design": design, "user": dict(ul), "bytes": data, "order": info["order"],
                        "sparse": info["sparse"], "pairs": info["pairs"], "layout": info["layout"],
                        "is_default": is_default, "adv": info["adv"], "adv_sentinel": sentinel,
                        "partial_location": len(loc) < len(design)})
    twin_axes = []
    if rules and twin:
        # two rules on *different* axes with the *same* normalised range [t, 1] and different substitutions
        pos = [a for a in axes if a["default"] < a["max"]]
        if len(pos) >= 2:
            t = rnd.choice([0.5, 0.25, 0.75])
            for k, (a, sub) in enumerate(zip(rnd.sample(pos, 2), (("A", "A.alt"), ("E", "O")))):
                dd, dm = _fwd(a, a["default"]), _fwd(a, a["max"])
                rd = RuleDescriptor()
                rd.name = "twin%d" % k
                rd.conditionSets = [[dict(name=a["name"], minimum=dd + t * (dm - dd), maximum=dm)]]
                rd.subs = [sub]
                ds.addRule(rd)
                twin_axes.append(a["tag"])
    if rules and not twin_axes:
        for k in range(rnd.randrange(1, 3)):
            a = rnd.choice(axes)
            lo_u, hi_u = sorted([rnd.uniform(a["min"], a["max"]), rnd.uniform(a["min"], a["max"])])
            if rnd.random() < 0.4:
                hi_u = a["max"]
            rd = RuleDescriptor()
            rd.name = "r%d" % k
            conds = [dict(name=a["name"], minimum=_fwd(a, lo_u), maximum=_fwd(a, hi_u))]
            if len(axes) > 1 and rnd.random() < 0.4:
                b = rnd.choice([x for x in axes if x is not a])
                lo2 = rnd.uniform(b["min"], b["max"])
                conds.append(dict(name=b["name"], minimum=_fwd(b, lo2), maximum=_fwd(b, b["max"])))
            rd.conditionSets = [conds]
            rd.subs = [("A", "A.alt")]
            ds.addRule(rd)
    return {"ds": ds, "masters": masters, "axes": axes, "kind": kind, "opts": opts,
            "marks": list(MARKS), "bases": list(BASES), "twin_axes": twin_axes,
            "axis_sparse": {t: sorted(gs) for t, gs in axis_sparse.items()}, "umm_off": umm_off}
