"""Seeded generators of pen call sequences, glyph sets and affine transforms (C14).

A record is a list of (operator, args) exactly as RecordingPen stores it; points are
tuples of int or float.  Everything is a plain function of a random.Random.
"""
import math


def _coord_fn(rnd, mode):
    if mode == "grid":      # tiny grid: many coincident / collinear points
        return lambda: rnd.randint(-3, 3)
    if mode == "int":
        return lambda: rnd.randint(-1000, 1000)
    if mode == "small":
        return lambda: rnd.randint(-200, 200)
    if mode == "half":      # k/2: rounding ties (banker's vs half-up), both signs, even and odd k
        return lambda: rnd.randint(-40, 40) / 2.0
    if mode == "dyadic":
        return lambda: rnd.randint(-4000, 4000) / 8.0
    if mode == "dec":       # decimals as a designer would type them
        return lambda: round(rnd.uniform(-500, 500), rnd.choice([1, 2, 3]))
    if mode == "float":
        return lambda: rnd.uniform(-1000, 1000)
    raise ValueError(mode)


INT_MODES = ("grid", "int")      # "small" is integer too (used explicitly)
FRAC_MODES = ("half", "dyadic", "dec", "float")


def gen_contour(rnd, pt, opts):
    """One contour's worth of pen calls."""
    quad_only = opts.get("quad_only", False)
    closed_only = opts.get("closed_only", False)
    r = rnd.random()
    if opts.get("blob", True) and r < 0.12:
        n = rnd.choice([1, 2, 2, 3, 3, 4, 5, 6])
        offs = [pt() for _ in range(n)]
        k = rnd.random()
        if n > 2 and k < 0.3:
            offs[-1] = offs[0]                      # last off-curve == first off-curve
        elif n > 1 and k < 0.4:
            offs = [offs[0]] * n                    # all coincide
        elif n > 2 and k < 0.5:
            offs[1] = offs[0]                       # consecutive duplicate off-curves
        return [("qCurveTo", tuple(offs) + (None,)), ("closePath", ())]
    if opts.get("single", True) and r < 0.18:
        return [("moveTo", (pt(),)), (("closePath" if rnd.random() < 0.5 or closed_only else "endPath"), ())]
    start = opts.get("_start") or pt()
    rec = [("moveTo", (start,))]
    if r < 0.22:
        # every point coincides
        for _ in range(rnd.randint(1, 3)):
            k = rnd.random()
            if k < 0.5:
                rec.append(("lineTo", (start,)))
            elif k < 0.8 or quad_only:
                rec.append(("qCurveTo", (start,) * rnd.randint(1, 3)))
            else:
                rec.append(("curveTo", (start,) * 3))
        rec.append(("closePath" if rnd.random() < 0.6 or closed_only else "endPath", ()))
        return rec
    closed = closed_only or rnd.random() < 0.7
    cur = start
    nseg = rnd.randint(1, 6) if rnd.random() < 0.9 else rnd.randint(7, 12)
    for _ in range(nseg):
        k = rnd.random()

        def nxt():
            q = rnd.random()
            if q < 0.06:
                return cur          # duplicate of the current point
            if q < 0.10:
                return start        # touches the start point
            return pt()

        if k < 0.35:
            p = nxt()
            rec.append(("lineTo", (p,)))
        elif k < 0.70 or quad_only:
            n = rnd.choice([0, 1, 1, 1, 2, 2, 3, 4, 5, 6])
            offs = [pt() for _ in range(n)]
            if n >= 2 and rnd.random() < 0.15:
                offs[rnd.randrange(1, n)] = offs[0]
            if n >= 2 and opts.get("implied_mid") and rnd.random() < 0.5:
                # TrueType style: split the spline at an (almost) implied point
                i = rnd.randrange(1, n)
                mx, my = offs[i - 1][0] + offs[i][0], offs[i - 1][1] + offs[i][1]
                d = rnd.choice([0, 0, 0, 1, -1, 2])
                if mx % 2 == 0 and my % 2 == 0 and isinstance(mx, int):
                    mid = (mx // 2 + d, my // 2)
                    rec.append(("qCurveTo", tuple(offs[:i]) + (mid,)))
                    cur = mid
                    offs = offs[i:]
            p = nxt()
            rec.append(("qCurveTo", tuple(offs) + (p,)))
        else:
            n = rnd.choice([0, 1, 2, 2, 2, 2, 3, 4, 5])
            if opts.get("plain_cubic"):
                n = 2
            offs = [pt() for _ in range(n)]
            if n >= 2 and rnd.random() < 0.1:
                offs[-1] = offs[0]
            if n >= 1 and rnd.random() < 0.05:
                offs[0] = cur       # zero-length handle
            p = nxt()
            rec.append(("curveTo", tuple(offs) + (p,)))
        cur = p
    if closed:
        k = rnd.random()
        if k < 0.30 and cur != start:
            rec.append(("lineTo", (start,)))           # explicit closing line
            if rnd.random() < 0.3:
                rec.append(("lineTo", (start,)))       # ... followed by a duplicate point
        elif k < 0.40 and cur != start and not quad_only:
            rec.append(("curveTo", (pt(), pt(), start)))   # last curve ends on the start point
        elif k < 0.50 and cur != start:
            rec.append(("qCurveTo", (pt(), start)))
        elif k < 0.58 and cur == start:
            rec.append(("lineTo", (start,)))           # closing line coincides with the start
    rec.append(("closePath" if closed else "endPath", ()))
    return rec


def gen_record(rnd, **opts):
    """-> (record, coordinate mode)"""
    mode = opts.get("mode")
    if mode is None:
        pool = INT_MODES if opts.get("integer") else INT_MODES + INT_MODES + FRAC_MODES
        mode = rnd.choice(pool)
    pt0 = _coord_fn(rnd, mode)
    pt = lambda: (pt0(), pt0())
    rec = []
    ncont = rnd.choice([1, 1, 2, 2, 3, 4]) if not opts.get("ncont") else opts["ncont"]
    comps = opts.get("components")
    if comps and rnd.random() < 0.25:
        ncont = 0        # components only (composite glyph)
    touch = opts.get("touch", 0.25)
    last = None
    for i in range(ncont):
        if comps and rnd.random() < 0.3:
            rec.append(("addComponent", (rnd.choice(comps), gen_transform(rnd, opts.get("tkind")))))
            last = None
        o = opts
        if last is not None and rnd.random() < touch:
            # the next contour starts where the previous one ended (shapes touching at a corner, pixel-style
            # chains); in fractional modes sometimes a start that only *rounds* onto that point
            st = last
            if mode in FRAC_MODES and rnd.random() < 0.5:
                st = (round(last[0]) + rnd.choice([0.25, -0.25, 0.0, 0.375]), round(last[1]) + rnd.choice([-0.25, 0.25, 0.0]))
            o = dict(opts, _start=st, blob=False)
        c = gen_contour(rnd, pt, o)
        rec.extend(c)
        segs = [e for e in c if e[0] in ("moveTo", "lineTo", "curveTo", "qCurveTo") and e[1][-1] is not None]
        last = segs[-1][1][-1] if segs else None
    if comps and (not rec or rnd.random() < 0.5):
        for _ in range(rnd.randint(1, 2)):
            rec.append(("addComponent", (rnd.choice(comps), gen_transform(rnd, opts.get("tkind")))))
    return rec, mode


def gen_transform(rnd, kind=None):
    """A random invertible affine 6-tuple, |det| >= 1e-3."""
    kinds = ("int", "dyadic", "float", "rot", "flip", "offset", "scale", "ident", "f2dot14")
    for _ in range(100):
        k = kind or rnd.choice(kinds)
        if k == "ident":
            return (1, 0, 0, 1, 0, 0)
        if k == "offset":
            return (1, 0, 0, 1, rnd.randint(-500, 500), rnd.randint(-500, 500))
        if k == "int":
            t = tuple(rnd.randint(-3, 3) for _ in range(4)) + (rnd.randint(-300, 300), rnd.randint(-300, 300))
        elif k == "dyadic":
            t = tuple(rnd.randint(-12, 12) / 4.0 for _ in range(4)) + (rnd.randint(-600, 600) / 2.0, rnd.randint(-600, 600) / 2.0)
        elif k == "f2dot14":    # exactly representable in a glyf component, offsets integral
            t = tuple(rnd.randint(-32768, 32767) / 16384.0 for _ in range(4)) + (rnd.randint(-300, 300), rnd.randint(-300, 300))
        elif k == "float":
            t = tuple(rnd.uniform(-3, 3) for _ in range(4)) + (rnd.uniform(-300, 300), rnd.uniform(-300, 300))
        elif k == "rot":
            a = rnd.choice([math.pi / 2, math.pi, -math.pi / 2, rnd.uniform(-math.pi, math.pi)])
            s = rnd.choice([1, 1, 2, 0.5])
            t = (s * math.cos(a), s * math.sin(a), -s * math.sin(a), s * math.cos(a), rnd.randint(-100, 100), rnd.randint(-100, 100))
        elif k == "flip":
            t = (rnd.choice([-1, -2, -0.5]), 0, 0, rnd.choice([1, 1.5]), rnd.randint(-100, 100), 0)
        elif k == "scale":
            t = (rnd.choice([2, 0.5, 3, 1.25, -1]), 0, 0, rnd.choice([2, 0.5, 1, -1.5]), 0, 0)
        else:
            raise ValueError(k)
        det = t[0] * t[3] - t[1] * t[2]
        if abs(det) >= 1e-3:
            return t
    return (1, 0, 0, 1, 0, 0)


def gen_glyphset(rnd, **opts):
    """{'a','b': simple glyphs, 'c': composite of a and b, 'd': nested composite}"""
    o = dict(opts)
    o.pop("components", None)
    gs = {}
    gs["a"], _ = gen_record(rnd, ncont=rnd.choice([1, 2]), **o)
    gs["b"], _ = gen_record(rnd, ncont=rnd.choice([1, 2]), **o)
    tk = opts.get("tkind")
    gs["c"] = [("addComponent", ("a", gen_transform(rnd, tk))), ("addComponent", ("b", gen_transform(rnd, tk)))]
    gs["d"] = [("addComponent", ("c", gen_transform(rnd, tk)))] + gen_record(rnd, ncont=1, **o)[0]
    return gs
