"""Foreign-writer encodings for C01: spec-legal encodings of cmap / glyf+loca / hmtx / name /
post that fontTools itself never emits, produced by small spec-level writers (struct only), plus
the spec-level readers that give their *meaning*.  Nothing here imports fontTools.

Writers take the host font's raw tables ({tag: bytes}) and return replacement tables; the caller
splices them in at the sfnt level (oracle/c01_sfntdir.build)."""
import struct

from vmon.gen import c01_glyf as GL


# =============================================================== cmap
def read_cmap(data):
    """-> {(platformID, encodingID, format, language): {code: gid}} with gid 0 entries dropped
    (glyph 0 means 'unmapped'); subtables in formats this reader does not cover map to None."""
    _ver, n = struct.unpack(">HH", data[:4])
    out = {}
    for i in range(n):
        pid, eid, off = struct.unpack(">HHL", data[4 + 8 * i:12 + 8 * i])
        fmt = struct.unpack(">H", data[off:off + 2])[0]
        m = None
        if fmt == 0:
            _f, ln, lang = struct.unpack(">HHH", data[off:off + 6])
            m = {c: g for c, g in enumerate(data[off + 6:off + 262]) if g}
        elif fmt == 4:
            _f, ln, lang, sx2 = struct.unpack(">HHHH", data[off:off + 8])
            sc = sx2 // 2
            p = off + 14
            ends = struct.unpack(">%dH" % sc, data[p:p + 2 * sc])
            p += 2 * sc + 2
            starts = struct.unpack(">%dH" % sc, data[p:p + 2 * sc])
            p += 2 * sc
            deltas = struct.unpack(">%dH" % sc, data[p:p + 2 * sc])
            p += 2 * sc
            ro_pos = p
            ros = struct.unpack(">%dH" % sc, data[p:p + 2 * sc])
            m = {}
            for k in range(sc):
                for c in range(starts[k], ends[k] + 1):
                    if c == 0xFFFF:
                        continue
                    if ros[k] == 0:
                        g = (c + deltas[k]) & 0xFFFF
                    else:
                        a = ro_pos + 2 * k + ros[k] + 2 * (c - starts[k])
                        if a + 2 > off + ln:
                            continue
                        g = struct.unpack(">H", data[a:a + 2])[0]
                        if g:
                            g = (g + deltas[k]) & 0xFFFF
                    if g:
                        m[c] = g
        elif fmt == 6:
            _f, ln, lang, first, cnt = struct.unpack(">HHHHH", data[off:off + 10])
            arr = struct.unpack(">%dH" % cnt, data[off + 10:off + 10 + 2 * cnt])
            m = {first + k: g for k, g in enumerate(arr) if g}
        elif fmt == 12:
            _f, _r, ln, lang, ng = struct.unpack(">HHLLL", data[off:off + 16])
            m = {}
            for k in range(ng):
                s, e, g = struct.unpack(">LLL", data[off + 16 + 12 * k:off + 28 + 12 * k])
                for c in range(s, e + 1):
                    if g + c - s:
                        m[c] = g + c - s
        else:
            lang = None
        out[(pid, eid, fmt, lang)] = m
    return out


def _fmt4(rnd, mapping, n_glyphs):
    """Format 4 subtable with glyphIdArray segments that also carry a non-zero idDelta, entries
    of 0 inside such segments, two segments sharing one glyphIdArray range, arithmetic segments
    with wrapping deltas.  `mapping` may be extended (extra PUA codes for the shared segment)."""
    codes = sorted(c for c in mapping if c < 0xF000)
    runs, cur = [], []
    for c in codes:
        if cur and c - cur[-1] > 3:      # gaps up to 2 are bridged with 0 entries
            runs.append(cur)
            cur = []
        cur.append(c)
    if cur:
        runs.append(cur)
    segs, array = [], []           # seg: [start, end, delta, array index or None]
    first_array_seg = None
    for run in runs:
        start, end = run[0], run[-1]
        gids = [mapping.get(c, 0) for c in range(start, end + 1)]
        consecutive = all(g and g == gids[0] + k for k, g in enumerate(gids))
        style = rnd.choice(["arith", "array-delta", "array-delta", "array0"]) if consecutive else \
            rnd.choice(["array-delta", "array-delta", "array0"])
        if style == "arith":
            segs.append([start, end, (gids[0] - start) & 0xFFFF, None])
            continue
        delta = 0
        if style == "array-delta":
            for _try in range(20):
                d = rnd.choice([1, 2, 7, 10, 0xFFFF, 0xFFF0, 300])
                if all(g == 0 or (g - d) & 0xFFFF for g in gids):
                    delta = d
                    break
        segs.append([start, end, delta, len(array)])
        array += [((g - delta) & 0xFFFF) if g else 0 for g in gids]
        if first_array_seg is None:
            first_array_seg = segs[-1]
    if first_array_seg is not None:
        # a second segment (PUA) looking at the same glyphIdArray slice, with its own delta
        s0, e0, d0, idx = first_array_seg
        pua = 0xE000 + rnd.randrange(0, 0x400)
        d1 = d0
        ent = array[idx:idx + e0 - s0 + 1]
        for d in (d0 + 1, d0 + 2, d0):
            if all(x == 0 or 0 < ((x + d) & 0xFFFF) < n_glyphs for x in ent):
                d1 = d & 0xFFFF
                break
        segs.append([pua, pua + e0 - s0, d1, idx])
        for k, x in enumerate(ent):
            if x and ((x + d1) & 0xFFFF):
                mapping[pua + k] = (x + d1) & 0xFFFF
    segs.sort()
    segs.append([0xFFFF, 0xFFFF, 1, None])
    sc = len(segs)
    ros = []
    for i, (s, e, d, idx) in enumerate(segs):
        ros.append(0 if idx is None else 2 * (sc - i) + 2 * idx)
    if any(r > 0xFFFF for r in ros):
        return None
    es = 0
    while (1 << (es + 1)) <= sc:
        es += 1
    sr = 2 * (1 << es)
    body = struct.pack(">HHHH", 2 * sc, sr, es, 2 * sc - sr)
    body += struct.pack(">%dH" % sc, *[s[1] for s in segs]) + b"\0\0"
    body += struct.pack(">%dH" % sc, *[s[0] for s in segs])
    body += struct.pack(">%dH" % sc, *[s[2] for s in segs])
    body += struct.pack(">%dH" % sc, *ros)
    body += struct.pack(">%dH" % len(array), *array)
    if len(body) + 6 > 0xFFFF:
        return None
    return struct.pack(">HHH", 4, len(body) + 6, 0) + body


def _fmt12(rnd, mapping):
    """Format 12 with groups split in unusual but legal ways: runs cut at random points, single
    code groups, never merged where they could be."""
    codes = sorted(mapping)
    groups = []
    for c in codes:
        g = mapping[c]
        if groups and groups[-1][1] + 1 == c and groups[-1][2] + (c - groups[-1][0]) == g and rnd.random() < 0.5:
            groups[-1][1] = c
        else:
            groups.append([c, c, g])
    body = b"".join(struct.pack(">LLL", *g) for g in groups)
    return struct.pack(">HHLLL", 12, 0, 16 + len(body), 0, len(groups)) + body


def cmap_foreign(rnd, base_mapping, n_glyphs):
    """-> (cmap bytes, description) or (None, why)"""
    if n_glyphs < 3:
        return None, "fewer than 3 glyphs"
    mapping = {c: g for c, g in base_mapping.items() if 0 < g < n_glyphs and c < 0xE000}
    if len(mapping) < 6:
        for k in range(26):
            mapping.setdefault(0x41 + k + (k // 5), 1 + (k * 7) % (n_glyphs - 1))
    if len(mapping) > 400:
        keep = sorted(mapping)[:400]
        mapping = {c: mapping[c] for c in keep}
    bmp = dict(mapping)
    st4 = _fmt4(rnd, bmp, n_glyphs)
    if st4 is None:
        return None, "format 4 does not fit"
    full = dict(bmp)
    for k in range(rnd.choice([0, 3, 9])):
        full[0x1F600 + 2 * k + (k % 2)] = 1 + (k * 5) % (n_glyphs - 1)
    for k in range(rnd.choice([0, 4])):
        full[0x20000 + k] = 1 + k % (n_glyphs - 1)
    st12 = _fmt12(rnd, full)
    subs = [(3, 1, st4), (3, 10, st12)]
    if rnd.random() < 0.5:
        subs.insert(0, (0, 3, st4))           # same subtable referenced twice (shared offset)
    subs.sort(key=lambda s: (s[0], s[1]))
    hdr = struct.pack(">HH", 0, len(subs))
    pos = 4 + 8 * len(subs)
    offs, blob = {}, b""
    for _p, _e, st in subs:
        if id(st) not in offs:
            offs[id(st)] = pos + len(blob)
            blob += st
    for p, e, st in subs:
        hdr += struct.pack(">HHL", p, e, offs[id(st)])
    return hdr + blob, "cmap: format 4 (glyphIdArray+idDelta, 0 entries, shared ranges) + format 12 (odd splits), %d codes" % len(full)


# =============================================================== glyf / loca padding
def glyf_padded(rnd, tables):
    """Same glyph records, slots enlarged with zero padding, possibly in the other loca format."""
    glyphs, fmt = GL.split(tables)
    newfmt = rnd.choice([fmt, fmt, 1])
    offs, out = [0], bytearray()
    for g in glyphs:
        out += g
        out += b"\0" * ((-len(out)) % 4)
        if g:
            out += b"\0" * rnd.choice([0, 0, 4, 8])
        offs.append(len(out))
    if newfmt == 0 and offs[-1] > 0x1FFFE:
        newfmt = 1
    loca = struct.pack(">%dH" % len(offs), *[o // 2 for o in offs]) if newfmt == 0 else struct.pack(">%dL" % len(offs), *offs)
    head = tables["head"][:50] + struct.pack(">h", newfmt) + tables["head"][52:]
    return {"glyf": bytes(out), "loca": loca, "head": head}, "glyf slots padded, loca format %d -> %d" % (fmt, newfmt)


# =============================================================== hmtx
def metrics(tables, mtx="hmtx", hea="hhea"):
    n = struct.unpack(">H", tables["maxp"][4:6])[0]
    k = struct.unpack(">H", tables[hea][34:36])[0]
    d = tables[mtx]
    if k == 0 or k > n or len(d) < 4 * k + 2 * (n - k):
        return None
    long = [struct.unpack(">Hh", d[4 * i:4 * i + 4]) for i in range(k)]
    rest = struct.unpack(">%dh" % (n - k), d[4 * k:4 * k + 2 * (n - k)])
    return long + [(long[-1][0], sb) for sb in rest]


def hmtx_foreign(rnd, tables):
    m = metrics(tables)
    if not m:
        return None, "hmtx not readable"
    n = len(m)
    kmin = n
    while kmin > 1 and m[kmin - 2][0] == m[n - 1][0]:
        kmin -= 1
    style = rnd.choice(["untrimmed", "max-trimmed", "half-trimmed"])
    k = n if style == "untrimmed" else kmin if style == "max-trimmed" else rnd.randrange(kmin, n + 1)
    data = b"".join(struct.pack(">Hh", a, b) for a, b in m[:k]) + b"".join(struct.pack(">h", b) for _a, b in m[k:])
    junk = rnd.choice([0, 0, 2])
    data += b"\0" * junk
    hhea = tables["hhea"][:34] + struct.pack(">H", k) + tables["hhea"][36:]
    return {"hmtx": data, "hhea": hhea}, "hmtx %s: numberOfHMetrics=%d of %d glyphs, %d trailing bytes" % (style, k, n, junk)


# =============================================================== name
def name_foreign(rnd, data):
    """Same records; string storage rebuilt so that equal strings are stored once, strings that
    occur inside another string point into it (overlap), and storage order is shuffled, with a
    few unused bytes in front."""
    fmt, count, _so = struct.unpack(">HHH", data[:6])
    if fmt != 0 or count == 0:
        return None, "name format %d / empty" % fmt
    recs = []
    for i in range(count):
        pid, eid, lid, nid, ln, off = struct.unpack(">6H", data[6 + 12 * i:18 + 12 * i])
        recs.append([pid, eid, lid, nid, data[_so + off:_so + off + ln]])
    # a minority of the tables is written as format 1: 1-3 language-tag records and name records whose
    # langID (0x8000 + i) refers to them
    langtags = []
    if rnd.random() < 0.35:
        langtags = [t.encode("utf-16-be") for t in rnd.sample(["sr-Latn", "de-1996", "zh-Hant-HK", "en-fonipa"], rnd.randrange(1, 4))]
        donors = [r for r in recs if r[0] == 3] or recs
        for i in range(len(langtags)):
            d = rnd.choice(donors)
            rec = [3, 1, 0x8000 + i, d[3], ("lt%d " % i).encode("utf-16-be") + (d[4] if d[0] == 3 else b"")]
            if not any(r[:4] == rec[:4] for r in recs):
                recs.append(rec)
        recs.sort(key=lambda r: r[:4])
        count = len(recs)
    uniq = sorted({r[4] for r in recs} | set(langtags), key=lambda s: (-len(s), rnd.random()))
    storage = bytearray(b"\xAA" * rnd.choice([0, 1, 3]))
    where = {}
    shared = 0
    for s in uniq:
        at = bytes(storage).find(s) if s else 0
        if at >= 0 and s:
            shared += 1
        else:
            at = len(storage)
            storage += s
        where[s] = at
    gap = rnd.choice([0, 2, 5, 12])           # bytes between the records and the string storage
    extra = (2 + 4 * len(langtags)) if langtags else 0
    out = struct.pack(">HHH", 1 if langtags else 0, count, 6 + 12 * count + extra + gap)
    for pid, eid, lid, nid, s in recs:
        out += struct.pack(">6H", pid, eid, lid, nid, len(s), where[s])
    if langtags:
        out += struct.pack(">H", len(langtags))
        for t in langtags:
            out += struct.pack(">HH", len(t), where[t])
    return out + b"\x55" * gap + bytes(storage), \
        "name format %d: %d records over %d stored strings, %d overlapping, %d-byte gap before storage, %d langTag records" \
        % (1 if langtags else 0, count, len(uniq), shared, gap, len(langtags))


# =============================================================== post
def read_post(data, std):
    """format 2 -> list of PostScript names per glyph id; other formats -> None"""
    if struct.unpack(">L", data[:4])[0] != 0x00020000:
        return None
    n = struct.unpack(">H", data[32:34])[0]
    idx = struct.unpack(">%dH" % n, data[34:34 + 2 * n])
    names, p = [], 34 + 2 * n
    while p < len(data):
        ln = data[p]
        names.append(data[p + 1:p + 1 + ln].decode("latin-1"))
        p += 1 + ln
    out = []
    for i in idx:
        if i < 258:
            out.append(std[i])
        elif i - 258 < len(names):
            out.append(names[i - 258])
        else:
            return None
    return out


def post_foreign(rnd, tables, std):
    """Format 2 post whose custom names are stored in an order unrelated to glyph order, with an
    unused custom name in between and standard Macintosh names referenced by index."""
    n = struct.unpack(">H", tables["maxp"][4:6])[0]
    old = read_post(tables["post"], std)
    if old is None or len(old) != n or len(set(old)) != n:
        old = [".notdef"] + ["fw%03d.%s" % (i, rnd.choice(["a", "alt", "x_y", "001"])) for i in range(1, n)]
    stdset = {s: i for i, s in enumerate(std)}
    custom = [s for s in old if s not in stdset]
    order = list(custom)
    rnd.shuffle(order)
    if order:
        # never last: FreeType only NUL-terminates the names up to the highest referenced index
        order.insert(rnd.randrange(len(order)), "unused.name")
    pos = {s: i for i, s in enumerate(order)}
    idx = [stdset[s] if s in stdset else 258 + pos[s] for s in old]
    if any(len(s) > 255 for s in order) or max(idx) > 0xFFFF or not order:
        return None, "names too long"
    data = struct.pack(">L", 0x00020000) + tables["post"][4:32] + struct.pack(">H", n) + struct.pack(">%dH" % n, *idx)
    for s in order:
        b = s.encode("latin-1")
        data += bytes([len(b)]) + b
    return {"post": data}, "post format 2: %d custom names stored shuffled, 1 unused" % len(custom)
