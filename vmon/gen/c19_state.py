"""Per-case shared state of the C19 check (monitors and drivers both write here)."""
from collections import Counter

from vmon import hooks

S = {"n": 0, "keys": set(), "notes": Counter(), "names": {}, "flags": set()}


def reset():
    S["n"] = 0
    S["keys"] = set()
    S["notes"] = Counter()
    S["names"] = {}        # id(existing) -> {"ref": existing, "issued": {folded: name}}
    S["flags"] = set()


def judged(n=1):
    S["n"] += n


def key(k):
    S["keys"].add(k)


def note(k, n=1):
    S["notes"][k] += n


def bad(mech, what, **witness):
    w = {k: (v if isinstance(v, (int, float, bool, type(None))) else repr(v)[:600]) for k, v in witness.items()}
    hooks.report(mech, what[:400], w)


def short(v, n=160):
    r = repr(v)
    return r if len(r) <= n else r[:n] + "..."
