"""Spec-written GPOS table with pair-adjustment lookups whose record arrays exceed the lazy
array threshold (8) and use *different* ValueFormats within one table (C01: lazy=True reads
such arrays record by record with a computed stride).

build(rnd, num_glyphs) -> (GPOS bytes, description).  Needs num_glyphs >= 14.
Lookups: PairPos format 1 (one PairSet per first glyph, 9..12 PairValueRecords) and
PairPos format 2 (ClassDef format 2 / format 1, 9..10 Class2Records per Class1Record);
two of each with ValueFormat pairs drawn from distinct sizes (no device tables)."""
import struct

VALUE_BITS = [0x0001, 0x0002, 0x0004, 0x0008]


def _value(rnd, fmt):
    out = b""
    for bit in VALUE_BITS:
        if fmt & bit:
            out += struct.pack(">h", rnd.choice([-80, -35, -1, 0, 12, 40, 150, 300]))
    return out


def _coverage(gids):
    gids = sorted(gids)
    return struct.pack(">HH", 1, len(gids)) + struct.pack(">%dH" % len(gids), *gids)


def _classdef(rnd, mapping):
    """mapping gid -> class (>0)."""
    items = sorted(mapping.items())
    if rnd.random() < 0.5:
        lo, hi = items[0][0], items[-1][0]
        arr = [mapping.get(g, 0) for g in range(lo, hi + 1)]
        return struct.pack(">HHH", 1, lo, len(arr)) + struct.pack(">%dH" % len(arr), *arr)
    out = struct.pack(">HH", 2, len(items))
    for g, c in items:
        out += struct.pack(">HHH", g, g, c)
    return out


def pairpos1(rnd, n, vf1, vf2):
    firsts = sorted(rnd.sample(range(1, n), rnd.choice([1, 2, 3])))
    sets = []
    for _f in firsts:
        k = rnd.randrange(9, min(13, n))
        seconds = sorted(rnd.sample(range(1, n), k))
        body = struct.pack(">H", k)
        for s in seconds:
            body += struct.pack(">H", s) + _value(rnd, vf1) + _value(rnd, vf2)
        sets.append(body)
    hdr = 10 + 2 * len(sets)
    cov = _coverage(firsts)
    offs, pos = [], hdr + len(cov)
    for b in sets:
        offs.append(pos)
        pos += len(b)
    return struct.pack(">HHHHH", 1, hdr, vf1, vf2, len(sets)) + struct.pack(">%dH" % len(offs), *offs) + cov + b"".join(sets)


def pairpos2(rnd, n, vf1, vf2):
    c1n = rnd.choice([2, 3])            # classes incl. class 0
    c2n = rnd.choice([9, 10])
    g1 = rnd.sample(range(1, n), c1n + 1)
    cd1 = {g: 1 + i % (c1n - 1) for i, g in enumerate(g1)} if c1n > 1 else {}
    g2 = rnd.sample(range(1, n), c2n - 1)
    cd2 = {g: i + 1 for i, g in enumerate(g2)}
    cov = _coverage(g1)
    cdb1, cdb2 = _classdef(rnd, cd1), _classdef(rnd, cd2)
    recs = b""
    for _i in range(c1n):
        for _j in range(c2n):
            recs += _value(rnd, vf1) + _value(rnd, vf2)
    hdr = 16 + len(recs)
    return (struct.pack(">HHHHHHHH", 2, hdr, vf1, vf2, hdr + len(cov), hdr + len(cov) + len(cdb1), c1n, c2n)
            + recs + cov + cdb1 + cdb2)


def build(rnd, n):
    n = min(n, 400)
    fmts = [(0x0004, 0x0000), (0x000F, 0x0005), (0x0005, 0x0004), (0x0004, 0x000F), (0x000A, 0x0001), (0x0001, 0x0000)]
    rnd.shuffle(fmts)
    subs = [("1 vf=%04x/%04x" % fmts[0], pairpos1(rnd, n, *fmts[0])), ("2 vf=%04x/%04x" % fmts[1], pairpos2(rnd, n, *fmts[1])),
            ("1 vf=%04x/%04x" % fmts[2], pairpos1(rnd, n, *fmts[2])), ("2 vf=%04x/%04x" % fmts[3], pairpos2(rnd, n, *fmts[3]))]
    rnd.shuffle(subs)
    lookups = [struct.pack(">HHHH", 2, 0, 1, 8) + body for _k, body in subs]
    ll = struct.pack(">H", len(lookups))
    pos = 2 + 2 * len(lookups)
    offs = []
    for l in lookups:
        offs.append(pos)
        pos += len(l)
    ll += struct.pack(">%dH" % len(offs), *offs) + b"".join(lookups)
    script = struct.pack(">HH", 4, 0) + struct.pack(">HHH", 0, 0xFFFF, 1) + struct.pack(">H", 0)
    sl = struct.pack(">H", 1) + b"DFLT" + struct.pack(">H", 8) + script
    feat = struct.pack(">HH", 0, len(lookups)) + struct.pack(">%dH" % len(lookups), *range(len(lookups)))
    fl = struct.pack(">H", 1) + b"kern" + struct.pack(">H", 8) + feat
    hdr = struct.pack(">LHHH", 0x00010000, 10, 10 + len(sl), 10 + len(sl) + len(fl))
    desc = ["PairPos" + k for k, _b in subs]
    return hdr + sl + fl + ll, desc
