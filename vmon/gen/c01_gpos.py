"""Spec-written GPOS table with pair-adjustment lookups whose record arrays exceed the lazy
array threshold (8) and use *different* ValueFormats within one table (C01: lazy=True reads
such arrays record by record with a computed stride).

build(rnd, num_glyphs) -> (GPOS bytes, description).  Needs num_glyphs >= 14.
Lookups: PairPos format 1 (one PairSet per first glyph, 9..12 PairValueRecords) and
PairPos format 2 (ClassDef format 2 / format 1, 9..10 Class2Records per Class1Record);
two of each with ValueFormat pairs drawn from distinct sizes (no device tables)."""
import struct

VALUE_BITS = [0x0001, 0x0002, 0x0004, 0x0008]


def _value(rnd, fmt):
    out = b""
    for bit in VALUE_BITS:
        if fmt & bit:
            out += struct.pack(">h", rnd.choice([-80, -35, -1, 0, 12, 40, 150, 300]))
    return out


def _coverage(gids):
    gids = sorted(gids)
    return struct.pack(">HH", 1, len(gids)) + struct.pack(">%dH" % len(gids), *gids)


def _classdef(rnd, mapping):
    """mapping gid -> class (>0)."""
    items = sorted(mapping.items())
    if rnd.random() < 0.5:
        lo, hi = items[0][0], items[-1][0]
        arr = [mapping.get(g, 0) for g in range(lo, hi + 1)]
        return struct.pack(">HHH", 1, lo, len(arr)) + struct.pack(">%dH" % len(arr), *arr)
    out = struct.pack(">HH", 2, len(items))
    for g, c in items:
        out += struct.pack(">HHH", g, g, c)
    return out


def pairpos1(rnd, n, vf1, vf2):
    firsts = sorted(rnd.sample(range(1, n), rnd.choice([1, 2, 3])))
    sets = []
    for _f in firsts:
        k = rnd.randrange(9, min(13, n))
        seconds = sorted(rnd.sample(range(1, n), k))
        body = struct.pack(">H", k)
        for s in seconds:
            body += struct.pack(">H", s) + _value(rnd, vf1) + _value(rnd, vf2)
        sets.append(body)
    hdr = 10 + 2 * len(sets)
    cov = _coverage(firsts)
    offs, pos = [], hdr + len(cov)
    for b in sets:
        offs.append(pos)
        pos += len(b)
    return struct.pack(">HHHHH", 1, hdr, vf1, vf2, len(sets)) + struct.pack(">%dH" % len(offs), *offs) + cov + b"".join(sets)


def pairpos2(rnd, n, vf1, vf2):
    c1n = rnd.choice([2, 3])            # classes incl. class 0
    c2n = rnd.choice([9, 10])
    g1 = rnd.sample(range(1, n), c1n + 1)
    cd1 = {g: 1 + i % (c1n - 1) for i, g in enumerate(g1)} if c1n > 1 else {}
    g2 = rnd.sample(range(1, n), c2n - 1)
    cd2 = {g: i + 1 for i, g in enumerate(g2)}
    cov = _coverage(g1)
    cdb1, cdb2 = _classdef(rnd, cd1), _classdef(rnd, cd2)
    recs = b""
    for _i in range(c1n):
        for _j in range(c2n):
            recs += _value(rnd, vf1) + _value(rnd, vf2)
    hdr = 16 + len(recs)
    return (struct.pack(">HHHHHHHH", 2, hdr, vf1, vf2, hdr + len(cov), hdr + len(cov) + len(cdb1), c1n, c2n)
            + recs + cov + cdb1 + cdb2)


def build(rnd, n):
    n = min(n, 400)
    fmts = [(0x0004, 0x0000), (0x000F, 0x0005), (0x0005, 0x0004), (0x0004, 0x000F), (0x000A, 0x0001), (0x0001, 0x0000)]
    rnd.shuffle(fmts)
    subs = [("1 vf=%04x/%04x" % fmts[0], pairpos1(rnd, n, *fmts[0])), ("2 vf=%04x/%04x" % fmts[1], pairpos2(rnd, n, *fmts[1])),
            ("1 vf=%04x/%04x" % fmts[2], pairpos1(rnd, n, *fmts[2])), ("2 vf=%04x/%04x" % fmts[3], pairpos2(rnd, n, *fmts[3]))]
    rnd.shuffle(subs)
    lookups = [struct.pack(">HHHH", 2, 0, 1, 8) + body for _k, body in subs]
    ll = struct.pack(">H", len(lookups))
    pos = 2 + 2 * len(lookups)
    offs = []
    for l in lookups:
        offs.append(pos)
        pos += len(l)
    ll += struct.pack(">%dH" % len(offs), *offs) + b"".join(lookups)
    script = struct.pack(">HH", 4, 0) + struct.pack(">HHH", 0, 0xFFFF, 1) + struct.pack(">H", 0)
    sl = struct.pack(">H", 1) + b"DFLT" + struct.pack(">H", 8) + script
    feat = struct.pack(">HH", 0, len(lookups)) + struct.pack(">%dH" % len(lookups), *range(len(lookups)))
    fl = struct.pack(">H", 1) + b"kern" + struct.pack(">H", 8) + feat
    hdr = struct.pack(">LHHH", 0x00010000, 10, 10 + len(sl), 10 + len(sl) + len(fl))
    desc = ["PairPos" + k for k, _b in subs]
    return hdr + sl + fl + ll, desc


# =============================================================== foreign-writer GPOS (round 4)
def _coverage2_unordered(rnd, n, want):
    """Coverage format 2 whose coverage indices do NOT follow glyph order: ranges get their
    StartCoverageIndex in a shuffled order, RangeRecords are written sorted by start glyph (as the
    spec requires).  -> (bytes, glyph ids in coverage-index order)"""
    pool = list(range(1, n))
    starts = sorted(rnd.sample(pool[::4], min(len(pool[::4]), want)))
    ranges = []
    for s in starts:
        ranges.append((s, min(n - 1, s + rnd.choice([0, 1, 2]))))
    order = list(range(len(ranges)))
    while len(order) > 1 and order == sorted(order):
        rnd.shuffle(order)
    idx, start_index, glyphs = 0, {}, []
    for k in order:
        s, e = ranges[k]
        start_index[k] = idx
        idx += e - s + 1
        glyphs += list(range(s, e + 1))
    out = struct.pack(">HH", 2, len(ranges))
    for k, (s, e) in enumerate(ranges):
        out += struct.pack(">HHH", s, e, start_index[k])
    return out, glyphs


def device(rnd, fmt, pattern):
    """Device table: delta format 1/2/3 (2/4/8 bits), deltas per `pattern`"""
    bits = {1: 2, 2: 4, 3: 8}[fmt]
    lo, hi = -(1 << (bits - 1)), (1 << (bits - 1)) - 1
    per = 16 // bits
    count = rnd.choice([per + 1, 2 * per + 1, 2 * per + per // 2, 3 * per - 1, per - 1 or 1, 1])
    deltas = [rnd.choice([lo, hi, 1, -1]) for _ in range(count)]
    if pattern in ("zero-tail", "zero-both"):
        tail = count % per or per
        for i in range(count - tail, count):
            deltas[i] = 0                       # the trailing (partial) word is all zero
    if pattern in ("zero-head", "zero-both") and count > per:
        for i in range(per):
            deltas[i] = 0
    start = rnd.choice([6, 9, 12])
    out = struct.pack(">HHH", start, start + count - 1, fmt)
    acc, nb = 0, 0
    for d in deltas:
        acc = (acc << bits) | (d & ((1 << bits) - 1))
        nb += bits
        if nb == 16:
            out += struct.pack(">H", acc)
            acc, nb = 0, 0
    if nb:
        out += struct.pack(">H", acc << (16 - nb))
    return out


def singlepos2_cov2(rnd, n):
    cov, glyphs = _coverage2_unordered(rnd, n, rnd.choice([3, 4, 5]))
    vf = rnd.choice([0x0004, 0x0005, 0x000F])
    vals = b"".join(_value(rnd, vf) for _ in glyphs)
    hdr = 8
    return struct.pack(">HHHH", 2, hdr + len(vals), vf, len(glyphs)) + vals + cov


def pairpos1_cov2(rnd, n):
    cov, firsts = _coverage2_unordered(rnd, n, rnd.choice([2, 3]))
    vf1, vf2 = rnd.choice([(0x0004, 0), (0x0005, 0x0004)])
    sets = []
    for _f in firsts:
        k = rnd.randrange(1, 5)
        seconds = sorted(rnd.sample(range(1, n), k))
        body = struct.pack(">H", k)
        for s in seconds:
            body += struct.pack(">H", s) + _value(rnd, vf1) + _value(rnd, vf2)
        sets.append(body)
    hdr = 10 + 2 * len(sets)
    offs, pos = [], hdr + len(cov)
    for b in sets:
        offs.append(pos)
        pos += len(b)
    return struct.pack(">HHHHH", 1, hdr, vf1, vf2, len(sets)) + struct.pack(">%dH" % len(offs), *offs) + cov + b"".join(sets)


def singlepos1_device(rnd, n, fmt, pattern):
    """SinglePos format 1, ValueFormat XPlacement|YAdvance|XPlaDevice|YAdvDevice, two Device tables"""
    gl = sorted(rnd.sample(range(1, n), min(n - 1, 3)))
    cov = _coverage(gl)
    d1 = device(rnd, fmt, pattern)
    d2 = device(rnd, rnd.choice([1, 2, 3]), rnd.choice(["zero-tail", "zero-head", "plain"]))
    vf = 0x0001 | 0x0008 | 0x0010 | 0x0080
    hdr = 6 + 8
    off_cov = hdr
    off_d1 = hdr + len(cov)
    off_d2 = off_d1 + len(d1)
    val = struct.pack(">hhHH", rnd.choice([-30, 25]), rnd.choice([10, -5]), off_d1, off_d2)
    return struct.pack(">HHH", 1, off_cov, vf) + val + cov + d1 + d2


def build_foreign(rnd, n):
    """GPOS of type 1/2 lookups in encodings fontTools does not emit by itself."""
    n = min(n, 400)
    subs = [("SinglePos2/coverage2-unordered", 1, singlepos2_cov2(rnd, n)),
            ("PairPos1/coverage2-unordered", 2, pairpos1_cov2(rnd, n))]
    for fmt in (1, 2, 3):
        pat = rnd.choice(["zero-tail", "zero-both"])
        subs.append(("SinglePos1/device-format%d-%s" % (fmt, pat), 1, singlepos1_device(rnd, n, fmt, pat)))
    rnd.shuffle(subs)
    lookups = [struct.pack(">HHHH", t, 0, 1, 8) + body for _k, t, body in subs]
    ll = struct.pack(">H", len(lookups))
    pos = 2 + 2 * len(lookups)
    offs = []
    for l in lookups:
        offs.append(pos)
        pos += len(l)
    ll += struct.pack(">%dH" % len(offs), *offs) + b"".join(lookups)
    script = struct.pack(">HH", 4, 0) + struct.pack(">HHH", 0, 0xFFFF, 1) + struct.pack(">H", 0)
    sl = struct.pack(">H", 1) + b"DFLT" + struct.pack(">H", 8) + script
    feat = struct.pack(">HH", 0, len(lookups)) + struct.pack(">%dH" % len(lookups), *range(len(lookups)))
    fl = struct.pack(">H", 1) + b"kern" + struct.pack(">H", 8) + feat
    hdr = struct.pack(">LHHH", 0x00010000, 10, 10 + len(sl), 10 + len(sl) + len(fl))
    return hdr + sl + fl + ll, [k for k, _t, _b in subs]


# ---------------------------------------------------------------- spec-level reader (meaning)
def _read_coverage(d, p):
    fmt, cnt = struct.unpack(">HH", d[p:p + 4])
    out = {}
    if fmt == 1:
        for i, g in enumerate(struct.unpack(">%dH" % cnt, d[p + 4:p + 4 + 2 * cnt])):
            out[g] = i
    elif fmt == 2:
        for k in range(cnt):
            s, e, si = struct.unpack(">HHH", d[p + 4 + 6 * k:p + 10 + 6 * k])
            for g in range(s, e + 1):
                out[g] = si + g - s
    else:
        raise ValueError("coverage format %d" % fmt)
    return out


def _read_device(d, p):
    if p + 6 > len(d):
        raise ValueError("Device table header past the end of the table")
    start, end, fmt = struct.unpack(">HHH", d[p:p + 6])
    if fmt not in (1, 2, 3):
        return ("variation-index", start, end, fmt)
    bits = {1: 2, 2: 4, 3: 8}[fmt]
    count = end - start + 1
    nwords = (count * bits + 15) // 16
    if p + 6 + 2 * nwords > len(d):
        raise ValueError("Device table runs past the end of the table")
    words = struct.unpack(">%dH" % nwords, d[p + 6:p + 6 + 2 * nwords])
    out = []
    for i in range(count):
        w = words[(i * bits) // 16]
        v = (w >> (16 - bits - (i * bits) % 16)) & ((1 << bits) - 1)
        out.append(v - (1 << bits) if v >= 1 << (bits - 1) else v)
    return (start, tuple(out))


def _read_value(d, p, vf, base):
    out = []
    for bit in (1, 2, 4, 8):
        if vf & bit:
            out.append(struct.unpack(">h", d[p:p + 2])[0])
            p += 2
        else:
            out.append(0)
    for bit in (0x10, 0x20, 0x40, 0x80):
        if vf & bit:
            off = struct.unpack(">H", d[p:p + 2])[0]
            p += 2
            out.append(_read_device(d, base + off) if off else None)
        else:
            out.append(None)
    return tuple(out), p


def gpos_meaning(data):
    """{(lookup index, 'single', gid): value} / {(lookup index, 'pair', first, second): (v1, v2)} for
    lookup types 1 and 2 (PairPos format 1); other lookups are not represented."""
    ll = struct.unpack(">H", data[8:10])[0]
    (nl,) = struct.unpack(">H", data[ll:ll + 2])
    out = {}
    for li in range(nl):
        lo = ll + struct.unpack(">H", data[ll + 2 + 2 * li:ll + 4 + 2 * li])[0]
        ltype, _flag, nsub = struct.unpack(">HHH", data[lo:lo + 6])
        for si in range(nsub):
            st = lo + struct.unpack(">H", data[lo + 6 + 2 * si:lo + 8 + 2 * si])[0]
            t = ltype
            if t == 9:
                _f, t, eo = struct.unpack(">HHL", data[st:st + 8])
                st += eo
            fmt = struct.unpack(">H", data[st:st + 2])[0]
            if t == 1:
                cov = _read_coverage(data, st + struct.unpack(">H", data[st + 2:st + 4])[0])
                vf = struct.unpack(">H", data[st + 4:st + 6])[0]
                if fmt == 1:
                    v, _p = _read_value(data, st + 6, vf, st)
                    for g in cov:
                        out.setdefault((li, "single", g), v)
                else:
                    size = 2 * bin(vf & 0xFF).count("1")
                    for g, ci in cov.items():
                        v, _p = _read_value(data, st + 8 + ci * size, vf, st)
                        out.setdefault((li, "single", g), v)
            elif t == 2 and fmt == 1:
                cov = _read_coverage(data, st + struct.unpack(">H", data[st + 2:st + 4])[0])
                vf1, vf2, npairs = struct.unpack(">HHH", data[st + 4:st + 10])
                for g, ci in cov.items():
                    if ci >= npairs:
                        continue
                    ps = st + struct.unpack(">H", data[st + 10 + 2 * ci:st + 12 + 2 * ci])[0]
                    (k,) = struct.unpack(">H", data[ps:ps + 2])
                    p = ps + 2
                    for _ in range(k):
                        (sec,) = struct.unpack(">H", data[p:p + 2])
                        v1, p = _read_value(data, p + 2, vf1, ps)
                        v2, p = _read_value(data, p, vf2, ps)
                        out.setdefault((li, "pair", g, sec), (v1, v2))
    return out
