"""Seeded generated fonts for C17: a small TrueType font whose GSUB/GPOS use every lookup
type, optionally with every lookup wrapped in Extension subtables (feaLib `useExtension`),
with the sorted-array structures that depend on glyph ids populated with several entries
(PairSets with many second glyphs, Coverage / ClassDef spanning scattered glyphs,
LigatureSets with several ligatures, mark/base/ligature/mark2 arrays, cursive records).
Assembled with fontBuilder + feaLib; only the bytes are handed to the oracles.
"""
import io


def _square(pen_cls, x0, y0, x1, y1, notch):
    p = pen_cls(None)
    p.moveTo((x0, y0))
    p.lineTo((x0, y1))
    p.lineTo(((x0 + x1) // 2, y1 - notch))
    p.lineTo((x1, y1))
    p.lineTo((x1, y0))
    p.closePath()
    return p.glyph()


BASES = ["ba", "bb", "bc", "bd", "be", "bf", "bg", "bh", "bi", "bj", "bk", "bl", "bm", "bn"]
ALTS = ["ba.alt", "bb.alt", "bc.alt", "bd.alt1", "bd.alt2", "be.alt"]
LIGS = ["bf_bi", "bf_bf_bi", "bf_bl", "ba_be", "ba_bb_bc"]
MARKS = ["mka", "mkb", "mkc", "mkd"]
EXTRA = ["xa", "xb", "xc", "xd"]


def layout(rnd, ext=True, upem=1000):
    from fontTools.fontBuilder import FontBuilder
    from fontTools.pens.ttGlyphPen import TTGlyphPen

    names = BASES + ALTS + LIGS + MARKS + EXTRA
    rnd.shuffle(names)                      # glyph ids are scattered over the roles
    order = [".notdef"] + names
    fb = FontBuilder(upem, isTTF=True)
    fb.setupGlyphOrder(order)
    fb.setupCharacterMap({0x4E00 + i: g for i, g in enumerate(order) if i})
    glyphs, metrics = {}, {}
    for i, g in enumerate(order):
        if i == 0:
            glyphs[g] = TTGlyphPen(None).glyph()
            metrics[g] = (500, 0)
            continue
        w = 200 + 17 * i
        x0 = rnd.randrange(0, 60)
        glyphs[g] = _square(TTGlyphPen, x0, -rnd.randrange(0, 100), x0 + w, 300 + 11 * i, rnd.randrange(10, 90))
        metrics[g] = (0 if g in MARKS and rnd.random() < 0.5 else w + rnd.randrange(40, 160), x0)
    fb.setupGlyf(glyphs)
    fb.setupHorizontalMetrics(metrics)
    fb.setupHorizontalHeader(ascent=800, descent=-200)
    fb.setupNameTable({"familyName": "VmonC17", "styleName": "Regular"})
    fb.setupOS2()
    fb.setupPost()
    fb.addOpenTypeFeatures(fea(rnd, ext))
    b = io.BytesIO()
    fb.save(b)
    return b.getvalue()


def fea(rnd, ext):
    X = " useExtension" if ext else ""
    v = lambda lo=-90, hi=90: rnd.choice([rnd.randrange(lo, hi), rnd.randrange(lo, hi) | 1])  # noqa: E731
    B = list(BASES)
    out = ["languagesystem DFLT dflt;", "languagesystem latn dflt;"]
    for m, cls in zip(MARKS, ["@TOP", "@TOP", "@BOT", "@TOP"]):
        out.append("markClass %s <anchor %d %d> %s;" % (m, v(0, 200), v(300, 700), cls))
    # ---------------- GSUB
    out.append("lookup SINGLE%s { sub ba by ba.alt; sub bb by bb.alt; sub bc by bc.alt; sub be by be.alt; } SINGLE;" % X)
    out.append("lookup SINGLE2%s { sub [bg bh bj] by [xa xb xc]; } SINGLE2;" % X)
    out.append("lookup MULT%s { sub bk by bk xa; sub bm by xb bm xc; sub bn by bn bn; } MULT;" % X)
    out.append("lookup ALT%s { sub bd from [bd.alt1 bd.alt2]; sub ba from [ba.alt xd]; } ALT;" % X)
    out.append("lookup LIGA%s { sub bf bf bi by bf_bf_bi; sub bf bi by bf_bi; sub bf bl by bf_bl; sub ba bb bc by ba_bb_bc; sub ba be by ba_be; } LIGA;" % X)
    out.append("lookup CTX%s { sub bg' lookup SINGLE2 bh' lookup SINGLE2 bj; } CTX;" % X)
    out.append("lookup CHAIN%s { sub [bk bm bn] [ba bb]' lookup SINGLE [bc bd be]; sub bl bc' lookup SINGLE; } CHAIN;" % X)
    out.append("lookup CHAINGLYPH%s { sub xa be' lookup SINGLE xb; sub xc bb' lookup SINGLE bb' lookup SINGLE xd; } CHAINGLYPH;" % X)
    out.append("lookup RSUB%s { rsub [bh bj] [bg bi]' [bk bl] by [xc xd]; } RSUB;" % X)
    # ---------------- GPOS
    out.append("lookup SPOS1%s { pos [ba bc be bg] <%d 0 %d 0>; } SPOS1;" % (X, v(), v()))
    out.append("lookup SPOS2%s { pos bb <%d %d %d 0>; pos bd %d; pos bf <0 %d 0 0>; pos bn %d; pos xa %d; } SPOS2;" % (X, v(), v(), v(), v(), v(), v(), v()))
    pairs = []
    for first in ("ba", "bb", "bf", "xa", "mka"):
        seconds = rnd.sample(B + EXTRA + ALTS, rnd.choice([3, 6, 10, 12]))
        for s in seconds:
            if rnd.random() < 0.3:
                pairs.append("pos %s <%d 0 %d 0> %s <%d 0 0 0>;" % (first, v(), v(), s, v()))
            else:
                pairs.append("pos %s %s %d;" % (first, s, v() or 7))
    out.append("lookup PAIR1%s { %s } PAIR1;" % (X, " ".join(pairs)))
    c1 = rnd.sample(B, 4)
    c1b = rnd.sample([g for g in B if g not in c1], 3)
    c2 = rnd.sample(B + EXTRA, 5)
    c2b = rnd.sample([g for g in B + EXTRA if g not in c2], 4)
    out.append("lookup PAIR2%s { pos [%s] [%s] %d; pos [%s] [%s] %d; pos [%s] <%d 0 %d 0> [%s] <0 0 %d 0>; pos [%s] [%s] %d; } PAIR2;"
               % (X, " ".join(c1), " ".join(c2), v() or 5, " ".join(c1), " ".join(c2b), v() or 9,
                  " ".join(c1b), v(), v() or 3, " ".join(c2), v() or 11, " ".join(c1b), " ".join(c2b), v() or 13))
    curs = rnd.sample(B, 5)
    out.append("lookup CURS%s { %s } CURS;" % (X, " ".join(
        "pos cursive %s <anchor %d %d> <anchor %d %d>;" % (g, v(0, 60), v(0, 300), v(300, 600), v(0, 300)) for g in curs)))
    mb = rnd.sample(B, 6)
    out.append("lookup MKBASE%s { %s } MKBASE;" % (X, " ".join(
        "pos base %s <anchor %d %d> mark @TOP <anchor %d %d> mark @BOT;" % (g, v(100, 400), v(500, 900), v(100, 400), v(-300, -10)) for g in mb)))
    out.append("lookup MKLIG%s { %s } MKLIG;" % (X, " ".join(
        "pos ligature %s <anchor %d %d> mark @TOP <anchor %d %d> mark @BOT ligComponent <anchor %d %d> mark @TOP <anchor %d %d> mark @BOT;"
        % (g, v(50, 200), v(500, 900), v(50, 200), v(-300, -10), v(300, 600), v(500, 900), v(300, 600), v(-300, -10)) for g in ("bf_bi", "bf_bl", "ba_be"))))
    out.append("lookup MKMK%s { pos mark mka <anchor %d %d> mark @TOP; pos mark mkb <anchor %d %d> mark @TOP; pos mark mkd <anchor %d %d> mark @TOP; } MKMK;"
               % (X, v(0, 200), v(700, 1000), v(0, 200), v(700, 1000), v(0, 200), v(700, 1000)))
    out.append("lookup CPOS%s { pos [bg bh]' lookup SPOS1 [bi bj]' lookup SPOS2 bk; pos xb bn' lookup SPOS2; } CPOS;" % X)
    # ---------------- features
    out.append("feature ss01 { lookup SINGLE; } ss01;")
    out.append("feature ss02 { lookup SINGLE2; } ss02;")
    out.append("feature ccmp { lookup MULT; } ccmp;")
    out.append("feature aalt { lookup ALT; } aalt;")
    out.append("feature liga { lookup LIGA; } liga;")
    out.append("feature calt { lookup CTX; lookup CHAIN; lookup CHAINGLYPH; } calt;")
    out.append("feature rclt { lookup RSUB; } rclt;")
    out.append("feature dist { lookup SPOS1; lookup SPOS2; } dist;")
    out.append("feature kern { lookup PAIR1; lookup PAIR2; lookup CPOS; } kern;")
    out.append("feature curs { lookup CURS; } curs;")
    out.append("feature mark { lookup MKBASE; lookup MKLIG; } mark;")
    out.append("feature mkmk { lookup MKMK; } mkmk;")
    return "\n".join(out) + "\n"


def varcolr():
    """The repository's variable COLRv1 test family (Tests/varLib/data/TestVariableCOLR.designspace:
    'wght' axis, colour glyphs with variable paints and a variable - format 2 - ClipBox) built
    with varLib.  Deterministic (no random input)."""
    import os
    from fontTools import varLib
    from fontTools.designspaceLib import DesignSpaceDocument
    from fontTools.ttLib import TTFont
    from vmon import env

    path = os.path.join(env.TESTS, "varLib", "data", "TestVariableCOLR.designspace")
    ds = DesignSpaceDocument.fromfile(path)
    for source in ds.sources:
        master = TTFont(recalcBBoxes=False, recalcTimestamp=False)
        master.importXML(source.path)
        buf = io.BytesIO()
        master.save(buf, reorderTables=None)
        buf.seek(0)
        source.font = TTFont(buf)
    vf, _, _ = varLib.build(ds)
    buf = io.BytesIO()
    vf.save(buf)
    return buf.getvalue()
