"""Generators of character-map contents for C02 (plain code -> glyph-id dicts).

"Valid" per format (the generator's contract, DESIGN §4 C02):
  0   codes 0..255, glyph ids 0..255
  2   one-byte codes inside one span, two-byte codes whose lead byte lies outside that span
  4   codes 0..0xFFFF (a map that reaches U+FFFF is followed by the format's own closing segment)
  6   codes inside one window of at most 65535 entries below 0x10000
  12  any scalar value 0..0x10FFFF, any glyph id
  13  like 12 (many-to-one)
  14  variation sequences: (base, selector) default or -> glyph id
Glyph ids are < nglyphs; a few entries deliberately map to glyph 0 (".notdef"), which
every format treats as "unmapped" (compared modulo glyph 0).
"""

SHAPES = {
    0: ["empty", "notdef_only", "single", "sparse", "dense", "gid0"],
    2: ["empty", "notdef_only", "single", "singles", "twobyte", "top_row", "mixed", "shared", "highgid", "gid0"],
    4: ["empty", "notdef_only", "single", "sparse", "runs", "const", "random_runs", "mixed", "neg_delta", "wrap", "near_ffff", "bmp_edge",
        "split", "dense", "gid0", "many_segments"],
    6: ["empty", "notdef_only", "single", "window", "holes", "top", "gid0"],
    12: ["empty", "notdef_only", "single", "sparse", "runs", "const", "mixed", "cross_bmp", "bmp_edge", "planes", "gid0", "last_scalar"],
    13: ["empty", "notdef_only", "single", "const_runs", "mixed", "cross_bmp", "bmp_edge", "last_resort", "gid0"],
    14: ["empty", "default_only", "nondefault_only", "mixed", "long_default_runs", "many_selectors"],
}
BIG_SHAPES = {4: ["big_bmp", "highgid"], 12: ["big", "highgid"], 13: ["big"], 6: ["big_window"], 14: ["big"]}


def _gid(rnd, n, lo=1):
    return rnd.randrange(lo, n) if n > lo else 0


def _run(m, rnd, start, length, n, mode, hi):
    g0 = _gid(rnd, n)
    for i in range(length):
        c = start + i
        if c > hi:
            break
        if mode == "run":
            g = g0 + i
            if g >= n:
                g = 1 + (g - n) % max(1, n - 1)
        elif mode == "const":
            g = g0
        else:
            g = _gid(rnd, n)
        m[c] = g


def gen_map(rnd, fmt, shape, n):
    """-> {code: gid}"""
    m = {}
    if shape == "empty":
        return m
    if fmt == 0:
        n = min(n, 256)
        if shape == "notdef_only":
            return {rnd.randrange(256): 0 for _ in range(rnd.randint(1, 4))}
        if shape == "single":
            return {rnd.randrange(256): _gid(rnd, n)}
        if shape == "dense":
            return {c: _gid(rnd, n) for c in range(256)}
        codes = rnd.sample(range(256), rnd.randint(2, 200))
        m = {c: _gid(rnd, n) for c in codes}
        if shape == "gid0":
            for c in rnd.sample(codes, max(1, len(codes) // 4)):
                m[c] = 0
        return m
    if fmt == 2:
        return _gen2(rnd, shape, n)
    if fmt == 6:
        return _gen6(rnd, shape, n)
    if fmt == 14:
        raise ValueError("use gen_uvs")
    hi = 0xFFFF if fmt == 4 else 0x10FFFF
    if shape == "bmp_edge":
        return _bmp_edge(rnd, fmt, n, hi)
    if shape == "notdef_only":
        return {rnd.randrange(hi): 0 for _ in range(rnd.randint(1, 5))}
    if shape == "single":
        return {rnd.choice([0, 0x20, 0xFFFE, hi, rnd.randrange(hi)]): _gid(rnd, n)}
    if shape == "sparse":
        for _ in range(rnd.choice([2, 10, 100, 700])):
            m[rnd.randrange(hi + 1)] = _gid(rnd, n)
        return m
    if shape in ("runs", "const", "random_runs", "const_runs", "mixed", "many_segments", "gid0", "dense", "split", "neg_delta"):
        nruns = {"many_segments": rnd.randint(200, 900), "dense": 1}.get(shape, rnd.randint(1, 14))
        for _ in range(nruns):
            start = rnd.choice([0, 0x20, 0x41, 0xFF00, 0xFFF0, 0x3040, 0x4E00, 0xE000, rnd.randrange(hi)])
            if hi > 0xFFFF and rnd.random() < 0.4:
                start = rnd.choice([0x10000, 0x1F600, 0x20000, 0xE0100, 0xF0000, 0x10FF00, rnd.randrange(0x10000, hi)])
            length = rnd.choice([1, 2, 3, 4, 5, 8, 9, 10, 50, 300]) if shape != "many_segments" else rnd.choice([1, 2, 3, 6])
            if shape == "dense":
                length = rnd.choice([256, 1000, 3000])
            mode = {"runs": "run", "const": "const", "const_runs": "const", "random_runs": "rand"}.get(
                shape, rnd.choice(["run", "const", "rand", "run"]))
            if fmt == 13 and shape != "mixed":
                mode = "const"
            _run(m, rnd, start, length, n, mode, hi)
        if shape == "split":
            # one long contiguous code range made of ordered and unordered glyph-id stretches
            # around the splitRange thresholds (4 / 8)
            m = {}
            c = rnd.choice([0x100, 0x3000, 0xF000])
            for _ in range(rnd.randint(3, 12)):
                ln = rnd.choice([1, 3, 4, 5, 6, 8, 9, 10, 20])
                _run(m, rnd, c, ln, n, rnd.choice(["run", "rand"]), hi)
                c += ln
        if shape == "neg_delta":
            # glyph ids far below the codes: idDelta is negative, i.e. stored modulo 65536
            m = {}
            for _ in range(rnd.randint(1, 6)):
                start = rnd.choice([0x8000, 0xC000, 0xFF00, 0xFFF0, rnd.randrange(0x8000, hi - 20)])
                g0 = rnd.randrange(1, min(n, 50))
                for i in range(rnd.choice([1, 2, 10, 14])):
                    if start + i <= hi and g0 + i < n:
                        m[start + i] = g0 + i
        if shape == "gid0":
            keys = sorted(m)
            for c in rnd.sample(keys, max(1, len(keys) // 5)):
                m[c] = 0
        return m
    if shape == "wrap":
        # consecutive glyph ids at the very top of the glyph range while codes are small, and vice versa
        top = n - 1
        c0 = rnd.choice([0x20, 0x100, 0x1000])
        k = max(1, min(rnd.randint(2, 12), n - 1))
        for i in range(k):
            m[c0 + i] = top - (k - 1) + i
        c1 = hi - k
        for i in range(k):
            m[c1 + i] = 1 + i
        return m
    if shape == "near_ffff":
        for c in range(0xFFF0, 0x10000):
            if rnd.random() < 0.8:
                m[c] = _gid(rnd, n)
        m[rnd.choice([0xFFFE, 0xFFFF])] = _gid(rnd, n)
        return m
    if shape == "cross_bmp":
        k = rnd.randint(2, 40)
        _run(m, rnd, 0x10000 - k, 2 * k, n, "const" if fmt == 13 else rnd.choice(["run", "const"]), hi)
        return m
    if shape == "planes":
        for plane in rnd.sample(range(17), rnd.randint(2, 6)):
            _run(m, rnd, plane * 0x10000 + rnd.choice([0, 0x100, 0xFFF0]), rnd.choice([1, 16, 100]), n, "run", hi)
        return m
    if shape == "last_scalar":
        m[0x10FFFF] = _gid(rnd, n)
        m[0x10FFFE] = _gid(rnd, n)
        m[0] = _gid(rnd, n)
        return m
    if shape == "last_resort":
        # format 13's purpose: whole blocks -> one glyph
        for blk in rnd.sample(range(0, 0x110000, 0x100), rnd.randint(3, 30)):
            g = _gid(rnd, n)
            for c in range(blk, blk + 0x100):
                m[c] = g
        return m
    # ---- big shapes
    if shape == "big_bmp":
        g = 1
        for c in range(0x20, 0xFFFF):
            if rnd.random() < 0.92:
                m[c] = g
                g += 1 if rnd.random() < 0.97 else rnd.randint(2, 50)
                if g >= n:
                    g = 1
        return m
    if shape == "big":
        # > 65535 entries over several planes
        c = 0x20
        g = 1
        while len(m) < 70000:
            ln = rnd.choice([1, 5, 200, 3000])
            mode = "const" if fmt == 13 else rnd.choice(["run", "run", "rand"])
            for i in range(ln):
                if mode == "run":
                    gg = g
                    g = g + 1 if g + 1 < n else 1
                elif mode == "const":
                    gg = g
                else:
                    gg = _gid(rnd, n)
                m[c] = gg
                c += 1
            g = _gid(rnd, n)
            c += rnd.choice([0, 1, 2, 0x100, 0x3000])
            if c > 0x10F000:
                break
        return m
    if shape == "highgid":
        top = n - 1
        for i in range(300):
            m[0x100 + i] = top - i
        m[0x20] = top
        m[0xFFFE] = top
        for i in range(40):
            m[0x5000 + 3 * i] = rnd.randrange(max(1, n - 100), n)
        return m
    raise ValueError((fmt, shape))


def _bmp_edge(rnd, fmt, n, hi):
    """Maps whose top end sits on the last BMP code points (U+FFFE, U+FFFF) and, where the format allows it, the
    first supplementary ones: alone, as the end of a run, after a gap, with consecutive / constant / random glyph ids."""
    m = {}
    kind = rnd.randrange(7)
    g0 = _gid(rnd, n)
    gids = lambda k: [min(n - 1, g0 + i) if n > 1 else 0 for i in range(k)] if rnd.random() < 0.6 else [_gid(rnd, n) for _ in range(k)]
    if kind == 0:
        m[0xFFFF] = g0
    elif kind == 1:
        m[0xFFFE] = g0
    elif kind == 2:                      # run ending exactly at U+FFFF
        k = rnd.choice([2, 3, 4, 5, 9, 40])
        for c, g in zip(range(0x10000 - k, 0x10000), gids(k)):
            m[c] = g
    elif kind == 3:                      # run ending at U+FFFE
        k = rnd.choice([2, 4, 9])
        for c, g in zip(range(0xFFFF - k, 0xFFFF), gids(k)):
            m[c] = g
    elif kind == 4:                      # U+FFFF after a gap of one
        m[0xFFFD], m[0xFFFF] = _gid(rnd, n), _gid(rnd, n)
    elif kind == 5:                      # both, plus something low
        m[0x20], m[0xFFFE], m[0xFFFF] = _gid(rnd, n), _gid(rnd, n), _gid(rnd, n)
    else:                                # run across the plane boundary where possible
        k = rnd.choice([2, 3, 8])
        for c, g in zip(range(0x10000 - k, 0x10000 + k), gids(2 * k)):
            if c <= hi:
                m[c] = g
    if fmt == 13:
        m = {c: g0 for c in m} if rnd.random() < 0.5 else m
    if hi > 0xFFFF and rnd.random() < 0.5:
        m[rnd.choice([0x10000, 0x10001])] = _gid(rnd, n)
    if rnd.random() < 0.4:
        _run(m, rnd, rnd.choice([0x20, 0x4E00]), rnd.choice([1, 5, 30]), n, "run", hi)
    return m


def _gen2(rnd, shape, n):
    m = {}
    span_lo = rnd.choice([0x00, 0x20, 0x41])
    span_hi = rnd.choice([0x7F, 0x80, 0x5A])
    leads = [b for b in range(0x81, 0x100)]
    if shape == "top_row":
        # the last lead byte and the last trail bytes: codes up to 0xFFFF
        for lo in range(rnd.choice([0xF0, 0xFE, 0xFF]), 0x100):
            m[0xFF00 | lo] = _gid(rnd, n)
        for lead in rnd.sample(leads, rnd.randint(0, 3)):
            m[(lead << 8) | 0xFF] = _gid(rnd, n)
        return m
    if shape == "notdef_only":
        return {rnd.randrange(span_lo, span_hi + 1): 0}
    if shape == "single":
        return {rnd.randrange(span_lo, span_hi + 1): _gid(rnd, n)}
    if shape in ("singles", "mixed", "gid0", "shared", "highgid"):
        for c in range(span_lo, span_hi + 1):
            if rnd.random() < 0.8:
                m[c] = _gid(rnd, n)
    if shape in ("twobyte", "mixed", "gid0", "shared", "highgid"):
        proto = None
        for lead in rnd.sample(leads, rnd.randint(1, 12)):
            first = rnd.choice([0x40, 0x00, 0x80, 0xA1])
            cnt = rnd.choice([1, 2, 30, 94, 0x100 - first])
            if shape == "shared" and proto is not None and rnd.random() < 0.7:
                # identical glyph arrays in two lead bytes: the compiler may share the array
                for lo, g in proto:
                    m[(lead << 8) | lo] = g
                continue
            row = []
            g0 = _gid(rnd, n)
            consecutive = rnd.random() < 0.5
            for i in range(cnt):
                lo = first + i
                if lo > 0xFF or rnd.random() < 0.15:
                    continue
                if shape == "highgid":
                    g = max(1, n - 1 - rnd.randrange(min(n - 1, 3000)))
                elif consecutive:
                    g = min(n - 1, g0 + i)
                else:
                    g = _gid(rnd, n)
                row.append((lo, g))
                m[(lead << 8) | lo] = g
            if proto is None:
                proto = row
    if shape == "gid0":
        keys = sorted(m)
        for c in rnd.sample(keys, max(1, len(keys) // 5)):
            m[c] = 0
    return m


def _gen6(rnd, shape, n):
    m = {}
    n = min(n, 65536)
    if shape == "notdef_only":
        return {rnd.randrange(0xFFFF): 0}
    if shape == "single":
        return {rnd.choice([0, 0x41, 0xFFFF, rnd.randrange(0x10000)]): _gid(rnd, n)}
    if shape == "top":
        k = rnd.randint(1, 60)
        return {c: _gid(rnd, n) for c in range(0x10000 - k, 0x10000)}
    first = rnd.choice([0, 0x20, 0xF000, rnd.randrange(0xFF00)])
    # the subtable length is a uint16: at most (65535 - 10) // 2 = 32762 entries
    cnt = rnd.choice([2, 30, 255, 256, 257, 1000]) if shape != "big_window" else rnd.choice([30000, 32762])
    cnt = min(cnt, 0x10000 - first)
    for i in range(cnt):
        if shape in ("holes", "gid0") and rnd.random() < 0.3 and 0 < i < cnt - 1:
            continue
        m[first + i] = _gid(rnd, n)
    if shape == "gid0":
        keys = sorted(m)
        for c in rnd.sample(keys, max(1, len(keys) // 5)):
            m[c] = 0
    return m


SELECTORS = list(range(0xFE00, 0xFE10)) + list(range(0xE0100, 0xE01F0)) + [0x180B, 0x180C, 0x180D]


def gen_uvs(rnd, shape, n, base_codes):
    """-> {selector: {base: None | gid}}; None = default (use the nominal mapping).
    `base_codes`: sorted codes that have a nominal mapping (defaults should refer to them)."""
    out = {}
    if shape == "empty":
        return out
    nsel = {"many_selectors": rnd.randint(20, 120), "big": 40}.get(shape, rnd.randint(1, 5))
    for vs in rnd.sample(SELECTORS, nsel):
        d = {}
        want_def = shape in ("default_only", "mixed", "long_default_runs", "many_selectors", "big")
        want_non = shape in ("nondefault_only", "mixed", "many_selectors", "big")
        if want_def:
            if shape == "long_default_runs":
                # consecutive bases: runs of 1, 255, 256, 257, 600 (additionalCount is one byte)
                start = rnd.choice([0x4E00, 0x20, 0x1F600, 0xFFF0])
                for ln in rnd.sample([1, 2, 255, 256, 257, 600], 3):
                    for i in range(ln):
                        d[start + i] = None
                    start += ln + rnd.choice([1, 2, 100])
            else:
                k = rnd.choice([1, 3, 20, 2000 if shape == "big" else 40])
                pool = base_codes if base_codes else list(range(0x20, 0x3000))
                for c in rnd.sample(pool, min(k, len(pool))):
                    d[c] = None
        if want_non:
            k = rnd.choice([1, 3, 20, 3000 if shape == "big" else 60])
            for _ in range(k):
                c = rnd.choice([rnd.randrange(0x20, 0x3000), rnd.randrange(0x10000, 0x30000), 0x10FFFF, 0, 0xFFFE, 0xFFFF, 0x10000])
                if c not in d:
                    d[c] = rnd.randrange(1, n)
        if d:
            out[vs] = d
    return out
