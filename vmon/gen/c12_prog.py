"""Operator-grammar generator of well-formed Type 2 / CFF2 charstring programs (C12).

Programs are token lists in the library's "program" form (numbers, operator names,
a bytes object after hintmask/cntrmask).  Everything is a pure function of the
`random.Random` handed in.  Two path styles:

* "ops"     - every path operator in every argument-count form (TN5177 §4.1-4.3), counts
              up to the operand-stack limit, zero operands injected with probability p0;
* "general" - one segment per operator (rmoveto/rlineto/rrcurveto + flex family), each
              vector's category (r/h/v/0) drawn so that adjacent segments hit the
              specialiser's peephole rules.

The generator keeps the pen within a few thousand units of the origin so that
HarfBuzz' float32 and FreeType's 16.16 arithmetic stay exact on integer programs.
"""

EDGE = [107, 108, 1131, 1132, 255, 256, 106, 109]
LIMIT = {False: 48, True: 513}


class G:
    def __init__(self, rnd, numeric="int", p0=0.25, cff2=False):
        self.rnd = rnd
        self.numeric = numeric        # int | fixed | real
        self.p0 = p0
        self.cff2 = cff2
        self.limit = LIMIT[bool(cff2)]
        self.x = self.y = 0

    # ---- operands
    def mag(self):
        rnd = self.rnd
        r = rnd.random()
        if r < 0.70:
            m = rnd.randint(1, 107)
        elif r < 0.88:
            m = rnd.randint(108, 700)
        else:
            m = rnd.choice(EDGE)
        if self.numeric == "int" or rnd.random() < 0.55:
            return m
        if self.numeric == "fixed":
            frac = rnd.choice([0.5, 0.25, 0.75, 1 / 65536, 65535 / 65536, rnd.randrange(1, 65536) / 65536])
            return (m % 300) + frac
        return round((m % 300) + rnd.random(), rnd.choice([1, 2, 3]))

    def d(self, axis, zero_ok=True):
        rnd = self.rnd
        if zero_ok and rnd.random() < self.p0:
            if self.numeric != "int" and rnd.random() < 0.1:
                return 0.0
            return 0
        m = self.mag()
        pos = self.x if axis == "x" else self.y if axis == "y" else 0
        if pos > 2500:
            sign = -1 if rnd.random() < 0.85 else 1
        elif pos < -2500:
            sign = 1 if rnd.random() < 0.85 else -1
        else:
            sign = rnd.choice((1, -1))
        v = sign * m
        if axis == "x":
            self.x += v
        elif axis == "y":
            self.y += v
        return v

    def args(self, axes, zero_ok=True):
        return [self.d(a, zero_ok) for a in axes]

    # ---- operator forms ("ops" style)
    def op_args(self, op, size):
        """Argument list of `op`; `size` selects the count (number of segments/pairs)."""
        rnd = self.rnd
        if op == "rlineto":
            return self.args("xy" * size)
        if op in ("hlineto", "vlineto"):
            ax = "xy" if op == "hlineto" else "yx"
            return self.args((ax * size)[:size])
        if op == "rrcurveto":
            return self.args("xyxyxy" * size)
        if op == "hhcurveto":
            lead = rnd.random() < 0.5
            return self.args(("y" if lead else "") + "xxyx" * size)
        if op == "vvcurveto":
            lead = rnd.random() < 0.5
            return self.args(("x" if lead else "") + "yxyy" * size)
        if op in ("hvcurveto", "vhcurveto"):
            horiz = op == "hvcurveto"
            ax = ""
            for _ in range(size):
                ax += "xxyy" if horiz else "yxyx"
                horiz = not horiz
            if rnd.random() < 0.5:
                # after the loop `horiz` is the orientation the *next* curve would start with, i.e.
                # the last curve ended perpendicular to it: the trailing operand is the other axis
                ax += "y" if horiz else "x"
            return self.args(ax)
        if op == "rcurveline":
            return self.args("xyxyxy" * size + "xy")
        if op == "rlinecurve":
            return self.args("xy" * size + "xyxyxy")
        if op == "flex":
            return self.args("xyxyxyxyxyxy") + [rnd.choice([50, 0, 100, 7])]
        if op == "hflex":
            return self.args("xxnxxxx")
        if op == "hflex1":
            return self.args("xnxnxxxnx")
        if op == "flex1":
            return self.args("xyxyxyxyxyn")
        raise KeyError(op)

    def max_size(self, op, room):
        """Largest `size` for which op_args(op, size) has at most `room` operands."""
        per, fixed = {
            "rlineto": (2, 0), "hlineto": (1, 0), "vlineto": (1, 0), "rrcurveto": (6, 0),
            "hhcurveto": (4, 1), "vvcurveto": (4, 1), "hvcurveto": (4, 1), "vhcurveto": (4, 1),
            "rcurveline": (6, 2), "rlinecurve": (2, 6),
        }[op]
        return max(0, (room - fixed) // per)

    def path_ops(self, nops, big=0.08):
        """`nops` path operators in specialised forms -> token list."""
        rnd = self.rnd
        out = []
        choices = ["rlineto", "hlineto", "vlineto", "rrcurveto", "hhcurveto", "vvcurveto", "hvcurveto",
                   "vhcurveto", "rcurveline", "rlinecurve", "flex", "hflex", "hflex1", "flex1"]
        for _ in range(nops):
            op = rnd.choice(choices)
            if op in ("flex", "hflex", "hflex1", "flex1"):
                out += self.op_args(op, 1) + [op]
                continue
            mx = self.max_size(op, self.limit)
            r = rnd.random()
            if r < big:
                size = mx if rnd.random() < 0.6 else max(1, mx - rnd.randint(0, 2))     # at / near the limit
                if self.cff2 and rnd.random() < 0.7:
                    size = max(1, min(size, self.max_size(op, rnd.choice([48, 49, 60, 100]))))
            else:
                size = min(mx, rnd.choice([1, 1, 1, 2, 2, 3, 4, 5]))
            out += self.op_args(op, max(1, size)) + [op]
        return out

    # ---- general form with categories
    def vec(self, cat):
        if cat == "r":
            return [self.d("x", False), self.d("y", False)]
        if cat == "h":
            return [self.d("x", False), 0]
        if cat == "v":
            return [0, self.d("y", False)]
        return [0, 0]

    def general_ops(self, nseg):
        rnd = self.rnd
        out = []
        # category weights: zeros are rare but present
        cats = "rrrhhhvvv0" if self.p0 > 0 else "rhv"
        kind = rnd.choice(["mixed", "lines", "curves", "hv", "mixed"])
        prev_end = None
        for _ in range(nseg):
            r = rnd.random()
            if kind == "lines" or (kind in ("mixed", "hv") and r < 0.45):
                c = rnd.choice(cats if kind != "hv" else "hv0hvhv")
                if kind == "hv" and prev_end in ("h", "v") and rnd.random() < 0.7:
                    c = "v" if prev_end == "h" else "h"        # alternate -> h/vlineto runs
                out += self.vec(c) + ["rlineto"]
                prev_end = c
            elif r < 0.96 or kind == "curves":
                c1 = rnd.choice(cats)
                c2 = rnd.choice(cats)
                if prev_end in ("h", "v") and rnd.random() < 0.6:
                    # continue an hv/vh chain or an hh/vv chain
                    c1 = prev_end if rnd.random() < 0.5 else ("v" if prev_end == "h" else "h")
                a = self.vec(c1)
                mid = [self.d("x"), self.d("y")]
                b = self.vec(c2)
                out += a + mid + b + ["rrcurveto"]
                prev_end = c2
            else:
                op = rnd.choice(["flex", "hflex", "hflex1", "flex1"])
                out += self.op_args(op, 1) + [op]
                prev_end = None
        return out

    def moveto(self, general=False):
        rnd = self.rnd
        r = rnd.random()
        if general or r < 0.5:
            c = rnd.choice("rrrhv0") if general else "r"
            if not general:
                return [self.d("x"), self.d("y"), "rmoveto"]
            return self.vec(c) + ["rmoveto"]
        if r < 0.75:
            return [self.d("x"), "hmoveto"]
        return [self.d("y"), "vmoveto"]

    # ---- hints
    def stems(self, n, axis):
        out = []
        for _ in range(n):
            out.append(self.rnd.randint(-50, 120))
            out.append(self.rnd.choice([20, 21, 30, 45, 80, 110, -20, -21]))
        return out

    reuse_masks = False     # set by callers that want the same mask to recur (shared mask subroutines)

    def mask(self, nh):
        nb = (nh + 7) // 8
        if self.reuse_masks:
            old = [m for m in getattr(self, "_masks", []) if len(m) == nb]
            if old and self.rnd.random() < 0.45:
                return self.rnd.choice(old)
        bits = [1 if self.rnd.random() < 0.6 else 0 for _ in range(nh)] + [0] * (nb * 8 - nh)
        m = bytes(sum(b << (7 - j) for j, b in enumerate(bits[i * 8:i * 8 + 8])) for i in range(nb))
        if self.reuse_masks:
            self.__dict__.setdefault("_masks", []).append(m)
        return m


def gen_program(rnd, cff2=False, style=None, numeric=None, hints=None, width=None, nominal=0, default=0,
                mask_rate=0.25, reuse_masks=False):
    """-> dict(program=tokens, meta=...).  The program is complete: [width] hints path endchar."""
    style = style or rnd.choice(["ops", "ops", "general", "general", "mixed"])
    numeric = numeric or rnd.choice(["int", "int", "int", "fixed", "real"])
    p0 = rnd.choice([0.0, 0.15, 0.3, 0.5])
    g = G(rnd, numeric, p0, cff2)
    g.reuse_masks = reuse_masks
    limit = g.limit
    prog = []
    hints = hints if hints is not None else rnd.choice(
        ["none", "none", "stems", "hm", "hm-implicit", "mask-only", "cntr", "many"])
    have_width = False
    if not cff2:
        have_width = (rnd.random() < 0.5) if width is None else width
    wtok = []
    if have_width:
        w = rnd.choice([rnd.randint(-300, 700), rnd.choice([107, 108, -107, -108, 1131, 1132, -1131, -1132, 0])])
        if numeric != "int" and rnd.random() < 0.2:
            w += 0.5
        wtok = [w]
    room = limit - len(wtok)
    nh = 0
    masks = False
    pre = []
    if hints == "stems":
        a = rnd.randint(1, 4)
        pre += g.stems(a, "y") + ["hstem"]
        nh += a
        if rnd.random() < 0.7:
            b = rnd.randint(1, 4)
            pre += g.stems(b, "x") + ["vstem"]
            nh += b
    elif hints in ("hm", "hm-implicit", "cntr", "many"):
        masks = True
        a = rnd.randint(1, 5)
        if hints == "many":
            a = rnd.choice([(room // 2), (room // 2) - 1, 12]) if not cff2 else rnd.choice([23, 24, 30, 48])
            a = max(1, min(a, 48))
        pre += g.stems(a, "y") + ["hstemhm"]
        nh += a
        if hints == "many" and rnd.random() < 0.5 and nh < 60:
            c = rnd.randint(1, 6)
            pre += g.stems(c, "y") + ["hstemhm"]       # stems split over two operators
            nh += c
        b = rnd.randint(1, 5)
        if hints == "hm-implicit" or (hints in ("cntr", "many") and rnd.random() < 0.5):
            pre += g.stems(b, "x")                      # implicit vstemhm before the first mask
        else:
            pre += g.stems(b, "x") + ["vstemhm"]
        nh += b
        if hints == "cntr" or rnd.random() < 0.15:
            for _ in range(rnd.randint(1, 2)):
                pre += ["cntrmask", None]
        pre += ["hintmask", None]
    elif hints == "mask-only":
        masks = True
        b = rnd.randint(1, 3)
        pre += g.stems(b, "x") + ["hintmask", None]     # only implicit vertical stems
        nh += b
    # fill in masks now that the hint count is known
    pre = [g.mask(nh) if t is None else t for t in pre]
    prog += wtok + pre

    ncont = rnd.choice([1, 1, 2, 2, 3, 4])
    if rnd.random() < 0.03:
        ncont = 0                                        # no outline at all
    for _ in range(ncont):
        general = style == "general" or (style == "mixed" and rnd.random() < 0.5)
        prog += g.moveto(general)
        if general and rnd.random() < 0.12:
            prog += g.moveto(True)                       # successive movetos
        nops = rnd.choice([1, 2, 3, 4, 6, 9])
        if general:
            segs = g.general_ops(rnd.choice([2, 4, 7, 12, 20, 30]))
            if masks and rnd.random() < 0.5:
                # drop a hintmask between two segments
                ops_at = [i + 1 for i, t in enumerate(segs) if isinstance(t, str)]
                if ops_at:
                    k = rnd.choice(ops_at)
                    segs[k:k] = ["hintmask", g.mask(nh)]
            prog += segs
        else:
            for _i in range(nops):
                prog += g.path_ops(1)
                if masks and rnd.random() < mask_rate:
                    prog += ["hintmask", g.mask(nh)]
    if not cff2:
        prog.append("endchar")
    return {"program": prog, "style": style, "numeric": numeric, "hints": hints, "width": have_width, "nhints": nh}


# ---------------------------------------------------------------- CFF2 blends
def blendify(rnd, prog, k, pblend=0.35, limit=513):
    """Replace runs of operands by blended operands: a1..an d11..d1k .. dn1..dnk n blend.
    `k` = number of regions.  Deltas are small integers (or 16.16 halves).  The operand
    stack never exceeds `limit`."""
    out = []
    run = []

    def flush(op_follows):
        nonlocal run
        depth = 0
        i = 0
        n = len(run)
        while i < n:
            if rnd.random() < pblend:
                m = min(n - i, rnd.choice([1, 1, 2, 3, 4, 6, n - i]))
                # peak = depth + m*(k+1) + 1
                while m > 0 and depth + m * (k + 1) + 1 > limit:
                    m -= 1
                if m > 0:
                    grp = run[i:i + m]
                    deltas = []
                    for _v in grp:
                        for _j in range(k):
                            dv = rnd.choice([0, 0, 1, -1, 5, -12, 40, 0.5])
                            deltas.append(dv)
                    out.extend(grp + deltas + [m, "blend"])
                    depth += m
                    i += m
                    continue
            out.append(run[i])
            depth += 1
            i += 1
        run = []

    i = 0
    n = len(prog)
    while i < n:
        t = prog[i]
        if isinstance(t, str):
            flush(True)
            out.append(t)
            if t in ("hintmask", "cntrmask"):
                out.append(prog[i + 1])
                i += 1
        elif isinstance(t, (bytes, bytearray)):
            out.append(t)
        else:
            run.append(t)
        i += 1
    flush(False)
    return out


# ---------------------------------------------------------------- subroutinising
def atoms_of(prog):
    out = []
    i = 0
    while i < len(prog):
        t = prog[i]
        if t in ("hintmask", "cntrmask"):
            out.append([t, prog[i + 1]])
            i += 2
        elif i + 1 < len(prog) and prog[i + 1] == "vsindex" and not isinstance(t, (str, bytes, bytearray)):
            # 'n vsindex' is never torn apart (no subroutiniser separates the operator from its
            # operand; remove_hints' handling of a non-leading vsindex is a listed known finding)
            out.append([t, "vsindex"])
            i += 2
        else:
            out.append([t])
            i += 1
    return out


def flat(atoms):
    return [t for a in atoms for t in a]


class SubrPool:
    """Collects subroutines; call operands are fixed up once the final counts (hence the
    biases) are known."""

    def __init__(self, cff2):
        self.cff2 = cff2
        self.local = []     # atom lists
        self.glob = []

    def add(self, atoms, is_global):
        pool = self.glob if is_global else self.local
        pool.append(atoms)
        return len(pool) - 1

    def call(self, idx, is_global):
        # one atom: the subroutine number is never separated from its call operator
        return [[(("L", "G")[is_global], idx), "callgsubr" if is_global else "callsubr"]]


def _bias(n):
    return 107 if n < 1240 else 1131 if n < 33900 else 32768


def extract(rnd, atoms, pool, depth, max_depth, nranges):
    """Cut up to `nranges` random ranges of `atoms` out into subroutines (recursively)."""
    atoms = list(atoms)
    for _ in range(nranges):
        n = len(atoms)
        if n < 2:
            break
        i = rnd.randrange(0, n)
        j = min(n, i + rnd.choice([1, 2, 3, 5, 8, 13, n]))
        if rnd.random() < 0.25:
            j = n                      # tail (may contain endchar)
        if rnd.random() < 0.2:
            i = 0                      # head (may contain the width)
        if j - i < 1:
            continue
        body = atoms[i:j]
        if depth < max_depth and len(body) > 1 and rnd.random() < 0.7:
            body = extract(rnd, body, pool, depth + 1, max_depth, rnd.choice([1, 1, 2]))
        ends = body and body[-1] == ["endchar"]
        if not pool.cff2 and not ends:
            body = body + [["return"]]
        is_global = rnd.random() < 0.5
        idx = pool.add(body, is_global)
        atoms[i:j] = pool.call(idx, is_global)
    return atoms


def resolve(atoms, nlocal, nglobal):
    """Replace call placeholders by biased subroutine numbers."""
    out = []
    for a in atoms:
        for t in a:
            if isinstance(t, tuple):
                out.append(t[1] - _bias(nlocal if t[0] == "L" else nglobal))
            else:
                out.append(t)
    return out


def subroutinize(rnd, programs, cff2=False, max_depth=3, pad_local=0, pad_global=0, shared=(), mask_subrs=0.0):
    """-> (programs', local_subrs, global_subrs), all as token lists.
    mask_subrs: probability, per program, of factoring its mid-path hintmask/cntrmask operators (those
    after the first moveto) into hint-only subroutines `hintmask <mask> [return]`, shared between all
    programs using the same mask - the usual shape of hint replacement in subroutinised hinted fonts; a
    glyph with two or more mid-path masks then makes two or more calls to hint-only subroutines.
    shared: list of (program indices, skip, n): atoms [skip, skip+n) are identical in all the listed
    programs and are moved into ONE subroutine called by all of them (e.g. a common hint prelude)."""
    pool = SubrPool(cff2)
    outs = []
    pre = {}
    for idxs, skip, n in shared:
        body = atoms_of(programs[idxs[0]])[skip:skip + n]
        if not body:
            continue
        if rnd.random() < 0.5 and len(body) > 2:
            body = extract(rnd, body, pool, 2, max_depth, 1)
        if not cff2:
            body = body + [["return"]]
        is_global = rnd.random() < 0.5
        sidx = pool.add(body, is_global)
        for i in idxs:
            pre[i] = (skip, n, pool.call(sidx, is_global))
    mask_pool = {}
    for pi, p in enumerate(programs):
        a = atoms_of(p)
        if pi in pre:
            skip, n, call = pre[pi]
            a[skip:skip + n] = call
        nmask_calls = 0
        if mask_subrs and rnd.random() < mask_subrs:
            started = False
            for j, atom in enumerate(a):
                if atom[0] in ("rmoveto", "hmoveto", "vmoveto"):
                    started = True
                elif started and len(atom) == 2 and atom[0] in ("hintmask", "cntrmask"):
                    key = (atom[0], bytes(atom[1]))
                    if key not in mask_pool:
                        is_global = rnd.random() < 0.5
                        body = [list(atom)] + ([] if cff2 else [["return"]])
                        mask_pool[key] = (pool.add(body, is_global), is_global)
                    a[j] = pool.call(*mask_pool[key])[0]
                    nmask_calls += 1
        if rnd.random() < (0.4 if nmask_calls >= 2 else 0.8):
            a = extract(rnd, a, pool, 1, max_depth, rnd.choice([1, 2, 3]))
        outs.append(a)
    pad_body = [] if cff2 else [["return"]]
    for _ in range(pad_local):
        pool.local.insert(rnd.randrange(0, len(pool.local) + 1), None)
    for _ in range(pad_global):
        pool.glob.insert(rnd.randrange(0, len(pool.glob) + 1), None)
    # padding shifts indices: rebuild the index maps
    lmap, gmap = {}, {}
    k = 0
    for i, s in enumerate(pool.local):
        if s is not None:
            lmap[k] = i
            k += 1
    k = 0
    for i, s in enumerate(pool.glob):
        if s is not None:
            gmap[k] = i
            k += 1

    def remap(atoms):
        res = []
        for a in atoms:
            res.append([((t[0], (lmap if t[0] == "L" else gmap)[t[1]]) if isinstance(t, tuple) else t) for t in a])
        return res

    nl, ng = len(pool.local), len(pool.glob)
    local = [resolve(remap(s), nl, ng) if s is not None else flat(pad_body) for s in pool.local]
    glob = [resolve(remap(s), nl, ng) if s is not None else flat(pad_body) for s in pool.glob]
    progs = [resolve(remap(a), nl, ng) for a in outs]
    return progs, local, glob


# ---------------------------------------------------------------- own flatten of "commands"
def commands_to_tokens(commands):
    """Independent re-statement of the library's command form (op, args) with blended operands
    as lists [v1..vn, deltas..., n] -> token list + the region count of every blend, in order."""
    toks = []
    ks = []

    def put(arg):
        if isinstance(arg, (list, tuple)):
            n = arg[-1]
            body = arg[:-1]
            for b in body:
                put(b)
            cnt = sum((b[-1] if isinstance(b, (list, tuple)) else 1) for b in body)
            k = cnt // n - 1 if n else 0
            toks.append(n)
            toks.append("blend")
            ks.append(k)
        else:
            toks.append(arg)

    for op, args in commands:
        for a in args:
            put(a)
        if op:
            toks.append(op)
    return toks, ks


def gen_long_general(rnd, cff2, nseg, numeric="int", p0=0.2):
    """One contour of `nseg` general-form segments (operand totals far beyond the stack limit
    once merged) - exercises the specialiser's stack accounting."""
    g = G(rnd, numeric, p0, cff2)
    prog = g.moveto(True)
    kind = rnd.choice(["lines", "hv", "curves", "mixed"])
    out = []
    for _ in range(nseg):
        if kind == "lines":
            out += g.vec("r") + ["rlineto"]
        elif kind == "hv":
            out += g.vec("h" if len(out) // 3 % 2 == 0 else "v") + ["rlineto"]
        elif kind == "curves":
            c = rnd.choice(["rr", "hv", "hh"])
            if c == "rr":
                out += g.vec("r") + [g.d("x"), g.d("y")] + g.vec("r") + ["rrcurveto"]
            elif c == "hh":
                out += g.vec("h") + [g.d("x"), g.d("y")] + g.vec("h") + ["rrcurveto"]
            else:
                a, b = ("h", "v") if (len(out) // 7) % 2 == 0 else ("v", "h")
                out += g.vec(a) + [g.d("x"), g.d("y")] + g.vec(b) + ["rrcurveto"]
        else:
            out += g.general_ops(1)
    prog += out
    if not cff2:
        prog.append("endchar")
    return prog


# ---------------------------------------------------------------- subroutine-bias boundary fonts
def gen_bias_font(rnd, cff2, gsize, lsize, gused=None, lused=None, nglyphs=24):
    """A subroutinised font whose global / local subroutine INDEX holds exactly `gsize` / `lsize`
    entries (TN5177 4.7: bias 107 below 1240 subrs, 1131 below 33900, else 32768), of which exactly
    `gused` / `lused` are reachable from the glyphs (None = all) - so that pruning the unused ones lands
    on a chosen count.  Every subroutine draws one line whose vector identifies its index; some used
    subroutines are reached only through another subroutine (global->global, global->local,
    local->local), so renumbering inside subroutine bodies matters too.  Call operands are computed
    from the specification's bias.  -> (programs, local, glob) as token lists."""
    ret = [] if cff2 else ["return"]

    def vec(i, salt):
        dx = ((i % 97) + 1) * (1 if i % 2 == 0 else -1)
        dy = (((i // 97) + salt) % 89 + 1) * (1 if (i // 2) % 2 == 0 else -1)
        return [dx, dy, "rlineto"]

    gb, lb = _bias(gsize), _bias(lsize)
    gset = sorted(rnd.sample(range(gsize), gused)) if gused is not None else list(range(gsize))
    lset = sorted(rnd.sample(range(lsize), lused)) if lused is not None else list(range(lsize))
    # always exercise the ends of the index range
    glob = [vec(i, 0) for i in range(gsize)]
    local = [vec(i, 7) for i in range(lsize)]

    def nest(callers, targets, pool, op, bias):
        for t in targets:
            if not callers:
                break
            c = rnd.choice(callers)
            pool[c] = pool[c] + [t - bias, op]

    def split(used, frac):
        if len(used) < 4:
            return list(used), []
        k = max(1, int(len(used) * frac))
        nested = set(rnd.sample(used, k))
        return [u for u in used if u not in nested], sorted(nested)

    gdirect, gnested = split(gset, 0.05)
    ldirect, lnested = split(lset, 0.05)
    half = len(lnested) // 2
    nest(gdirect, gnested, glob, "callgsubr", gb)              # global -> global
    nest(ldirect, lnested[:half], local, "callsubr", lb)       # local -> local
    nest(gdirect[:50], lnested[half:], glob, "callsubr", lb)   # global -> local
    glob = [b + ret for b in glob]
    local = [b + ret for b in local]
    calls = [(g - gb, "callgsubr") for g in gdirect] + [(l - lb, "callsubr") for l in ldirect]
    rnd.shuffle(calls)
    per = -(-len(calls) // nglyphs) if calls else 0
    progs = []
    for j in range(nglyphs):
        p = []
        if not cff2 and j % 3 == 0:
            p.append(rnd.choice([-20, 100, 108, -108, 1131]))
        if j % 2 == 0:
            p += [10, 20, 200, 30, "hstem", 40, 50, "vstem"]
        p += [rnd.randint(-50, 50), rnd.randint(-50, 50), "rmoveto"]
        for operand, op in calls[j * per:(j + 1) * per]:
            p += [operand, op]
        if not cff2:
            p.append("endchar")
        progs.append(p)
    return progs, local, glob
