"""Wrap token programs into a small OpenType font (fontBuilder.setupCFF / setupCFF2) so that
HarfBuzz and FreeType can draw them (C12 oracle layer 2)."""
import io


def glyph_names(n):
    return [".notdef"] + ["g%04d" % i for i in range(n)]


def _base(names, upem=1000):
    from fontTools.fontBuilder import FontBuilder

    fb = FontBuilder(upem, isTTF=False)
    fb.setupGlyphOrder(names)
    fb.setupCharacterMap({})
    return fb


def _finish(fb, names, advances):
    fb.setupHorizontalMetrics({n: (advances.get(n, 600), 0) for n in names})
    fb.setupHorizontalHeader(ascent=800, descent=-200)
    fb.setupOS2()
    fb.setupPost(keepGlyphNames=False)


def _add_subrs(cff, private, local, glob):
    from fontTools.cffLib import SubrsIndex
    from fontTools.misc.psCharStrings import T2CharString

    for p in glob or ():
        cff.GlobalSubrs.append(T2CharString(program=list(p), private=private, globalSubrs=cff.GlobalSubrs))
    if local:
        subrs = SubrsIndex()
        for p in local:
            subrs.append(T2CharString(program=list(p), private=private, globalSubrs=cff.GlobalSubrs))
        private.Subrs = subrs


def build_cff(programs, local=None, glob=None, private=None, advances=None, notdef=None, names=None):
    """programs: list of token lists -> (sfnt bytes, glyph names).  Glyph i+1 is programs[i].
    names: optional glyph names (without .notdef) - a name-keyed CFF font uses them in its charset."""
    from fontTools.misc.psCharStrings import T2CharString

    names = [".notdef"] + list(names) if names else glyph_names(len(programs))
    fb = _base(names)
    fb.setupNameTable({"familyName": "C12", "styleName": "Regular"})
    cs = {".notdef": T2CharString(program=list(notdef or ["endchar"]))}
    for n, p in zip(names[1:], programs):
        cs[n] = T2CharString(program=list(p))
    fb.setupCFF("C12-Regular", {}, cs, dict(private or {}))
    cff = fb.font["CFF "].cff
    _add_subrs(cff, cff.topDictIndex[0].Private, local, glob)
    _finish(fb, names, advances or {})
    b = io.BytesIO()
    fb.save(b)
    return b.getvalue(), names


AXES = ["wght", "wdth"]


def build_cff2(programs, local=None, glob=None, regions=None, vardata=None, advances=None, private=None):
    """regions: list of {tag: (start, peak, end)} (normalised); vardata: list of lists of region
    indices, one per vsindex (default: one VarData with all regions).  Axes run -1..0..1 so that
    design coordinates equal normalised ones."""
    from fontTools.misc.psCharStrings import T2CharString
    from fontTools.cffLib import VarStoreData
    from fontTools.varLib.builder import buildVarRegionList, buildVarData, buildVarStore

    names = glyph_names(len(programs))
    fb = _base(names)
    fb.setupNameTable({"familyName": "C12", "styleName": "Regular"})
    cs = {".notdef": T2CharString(program=[])}
    for n, p in zip(names[1:], programs):
        cs[n] = T2CharString(program=list(p))
    if regions:
        fb.setupFvar([(t, -1.0, 0.0, 1.0, t) for t in AXES], [])
    fb.setupCFF2(cs, [dict(private or {})])
    cff = fb.font["CFF2"].cff
    top = cff.topDictIndex[0]
    priv = top.FDArray[0].Private
    if regions:
        rl = buildVarRegionList(regions, AXES)
        vds = [buildVarData(list(ix), None, optimize=False) for ix in (vardata or [list(range(len(regions)))])]
        store = buildVarStore(rl, vds)
        vstore = VarStoreData(otVarStore=store)
        top.VarStore = vstore
        priv.vstore = vstore
    _add_subrs(cff, priv, local, glob)
    _finish(fb, names, advances or {})
    b = io.BytesIO()
    fb.save(b)
    return b.getvalue(), names


def tent(coord, start, peak, end):
    """OpenType variation region scalar for one axis (own statement of the spec rule)."""
    if start > peak or peak > end:
        return 1.0
    if start < 0 and end > 0 and peak != 0:
        return 1.0
    if peak == 0:
        return 1.0
    if coord < start or coord > end:
        return 0.0
    if coord == peak:
        return 1.0
    if coord < peak:
        return (coord - start) / (peak - start)
    return (end - coord) / (end - peak)


def region_scalar(region, loc):
    """region: {tag: (start, peak, end)}, loc: {tag: normalised coord}."""
    s = 1.0
    for tag, (a, b, c) in region.items():
        s *= tent(loc.get(tag, 0.0), a, b, c)
    return s
