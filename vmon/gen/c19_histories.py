"""Edit histories (C19, 'histories' quantifier).

drv_dshist   a designspace document of every format version (4.0, 4.1, 5.0, 5.1) is LOADED from text,
             then edited - one format-5-only field at a time, or a few together - and written and read
             again.  The write/read monitors of the check judge the round trip against the expected value
             (every field that was set survives, the writer upgrades the format when the data needs it).
drv_ufodown  a UFO 3 is read, its groups and kerning are edited (kerning groups present under both the
             public.kern name and the legacy name with differing members, dictionaries handed over in
             several key orders), written as formatVersion 1 / 2 with the reader's rename maps and read back;
             the kerning value of every glyph pair, resolved with an independent resolver, must equal the
             value resolved from the edited data.
"""
import os
import plistlib as stdpl

from vmon import hooks
from vmon.gen import c19_gen as G
from vmon.gen import c19_state as st
from vmon.oracle import c19_model as md


# ---------------------------------------------------------------------------
# designspace
# ---------------------------------------------------------------------------
V5_EDITS = ["instance-userLocation", "instance-userLocation-mixed", "instance-locationLabel", "locationLabels", "discrete-axis",
            "axis-labels", "axisOrdering", "variable-font", "source-localisedFamilyName", "axis-mappings", "new-instance-userLocation"]
V4_EDITS = ["instance-designLocation", "rule", "lib", "source-flags", "axis-map"]


def _user_value(rnd, ax):
    if hasattr(ax, "values"):
        return rnd.choice(list(ax.values))
    lo, hi = ax.minimum, ax.maximum
    return rnd.choice([lo, hi, ax.default, G.ds_number(rnd, int(min(lo, hi)), int(max(lo, hi)))])


def apply_edit(doc, edit, rnd):
    """-> True if the edit could be applied to this document"""
    from fontTools import designspaceLib as DS
    cont = [a for a in doc.axes if not hasattr(a, "values")]
    if edit in ("instance-userLocation", "instance-userLocation-mixed", "new-instance-userLocation"):
        if edit == "new-instance-userLocation" or not doc.instances:
            doc.addInstance(DS.InstanceDescriptor(name="added instance %d" % len(doc.instances), familyName="Fam", styleName="Added",
                                                  filename="instances/added%d.ufo" % len(doc.instances)))
        inst = rnd.choice(doc.instances)
        if inst.locationLabel is not None:
            return False
        axes = list(doc.axes)
        if edit == "instance-userLocation-mixed" and len(axes) > 1:
            user_axes = rnd.sample(axes, rnd.randrange(1, len(axes)))
        else:
            user_axes = axes if rnd.random() < 0.6 else rnd.sample(axes, rnd.randrange(1, len(axes) + 1))
        names = {a.name for a in user_axes}
        inst.userLocation = {a.name: _user_value(rnd, a) for a in user_axes}
        inst.designLocation = {k: v for k, v in dict(inst.designLocation or {}).items() if k not in names}
        if rnd.random() < 0.3:
            inst.designLocation = {}        # the remaining axes sit at their defaults
        return True
    if edit in ("instance-locationLabel", "locationLabels"):
        name = "Label %d" % len(doc.locationLabels)
        doc.addLocationLabel(DS.LocationLabelDescriptor(name=name, userLocation={a.name: _user_value(rnd, a) for a in doc.axes},
                                                        elidable=rnd.random() < 0.3, labelNames={"fr": "Étiquette"} if rnd.random() < 0.4 else {}))
        if edit == "instance-locationLabel":
            if not doc.instances:
                doc.addInstance(DS.InstanceDescriptor(name="labelled", familyName="Fam", styleName="L", filename="instances/l.ufo"))
            inst = rnd.choice(doc.instances)
            inst.locationLabel = name
            inst.designLocation, inst.userLocation = {}, {}
        return True
    if edit == "discrete-axis":
        if any(a.name == "Italic" for a in doc.axes):
            return False
        doc.addAxis(DS.DiscreteAxisDescriptor(tag="ital", name="Italic", values=[0, 1], default=0, map=rnd.choice([[], [(0, 0), (1, 10)]])))
        return True
    if edit == "axis-labels":
        if not cont:
            return False
        a = rnd.choice(cont)
        a.axisLabels = [DS.AxisLabelDescriptor(name="Regular", userValue=a.default, elidable=True),
                        DS.AxisLabelDescriptor(name="Max", userValue=a.maximum, userMinimum=a.default, userMaximum=a.maximum)
                        ][:rnd.choice([1, 2])]
        return True
    if edit == "axisOrdering":
        a = rnd.choice(doc.axes)
        a.axisOrdering = rnd.choice([0, 1, 5])
        return True
    if edit == "variable-font":
        subs = []
        for a in doc.axes:
            r = rnd.random()
            if r < 0.5 or hasattr(a, "values"):
                subs.append(DS.RangeAxisSubsetDescriptor(name=a.name) if not hasattr(a, "values") or r < 0.3 else
                            DS.ValueAxisSubsetDescriptor(name=a.name, userValue=rnd.choice(list(a.values))))
            elif r < 0.8:
                subs.append(DS.RangeAxisSubsetDescriptor(name=a.name, userMinimum=a.minimum, userDefault=a.default, userMaximum=a.maximum))
            else:
                subs.append(DS.ValueAxisSubsetDescriptor(name=a.name, userValue=a.default))
        if not subs:
            return False
        doc.addVariableFont(DS.VariableFontDescriptor(name="VF %d" % len(doc.variableFonts), filename=rnd.choice([None, "vf.ttf"]), axisSubsets=subs))
        return True
    if edit == "source-localisedFamilyName":
        if not doc.sources:
            return False
        rnd.choice(doc.sources).localisedFamilyName = {"fr": "Famille", "ja": "ファミリー"}
        return True
    if edit == "axis-mappings":
        if not cont:
            return False
        a = rnd.choice(cont)
        for k in range(rnd.choice([1, 2, 3])):
            doc.addAxisMapping(DS.AxisMappingDescriptor(inputLocation={a.name: _user_value(rnd, a)}, outputLocation={a.name: G.ds_number(rnd, 0, 1000)},
                                                        groupDescription=rnd.choice([None, "g1", "g2"])))
        return True
    # ---- edits every format can carry
    if edit == "instance-designLocation":
        if not doc.instances:
            return False
        inst = rnd.choice(doc.instances)
        if inst.locationLabel is not None or inst.userLocation:
            return False
        inst.designLocation = {a.name: G.ds_number(rnd, 0, 1000) for a in cont} or inst.designLocation
        return True
    if edit == "rule":
        if not cont:
            return False
        a = rnd.choice(cont)
        doc.addRule(DS.RuleDescriptor(name="added rule %d" % len(doc.rules), conditionSets=[[{"name": a.name, "minimum": 1, "maximum": 2}]],
                                      subs=[("a", "a.alt")]))
        return True
    if edit == "lib":
        doc.lib = dict(doc.lib or {}, **G.lib_dict(rnd, small=True))
        return True
    if edit == "source-flags":
        if not doc.sources:
            return False
        s = rnd.choice(doc.sources)
        s.copyLib, s.muteKerning = rnd.random() < 0.5, rnd.random() < 0.5
        s.mutedGlyphNames = ["a", "b"][:rnd.choice([0, 1, 2])]
        return True
    if edit == "axis-map":
        if not cont:
            return False
        a = rnd.choice(cont)
        a.map = [(a.minimum, 0), (a.default, 300), (a.maximum, 1000)] if a.minimum < a.default < a.maximum else []
        return True
    return False


def drv_dshist(case, rnd, ctx, scratch):
    from fontTools.designspaceLib import DesignSpaceDocument
    from vmon.gen.c19_drivers import build_doc, push_doc
    done = 0
    for i in range(case["n"]):
        base = case.get("base") or rnd.choice(["4.0", "4.1", "5.0", "5.1"])
        v4 = base.startswith("4")
        feats = set(rnd.sample(["rules", "glyphs", "aniso", "flags", "localised", "lib"], rnd.choice([0, 1, 2]))) if v4 else \
            set(rnd.sample(["rules", "flags", "localised", "lib", "labels", "partial"], rnd.choice([0, 0, 1, 2])))
        spec = G.ds_spec(rnd, base, feats)
        doc0 = build_doc(spec)
        doc0.formatVersion = base
        with ctx.lib("designspace.tostring(base)"):
            data = doc0.tostring()
        with ctx.lib("designspace.fromstring(base)"):
            doc = DesignSpaceDocument.fromstring(data)
        # the history: one edit (most often), or a few
        pool = V5_EDITS * 3 + V4_EDITS
        if i < len(V5_EDITS):
            edits = [V5_EDITS[i]]           # every format-5-only field alone, on every base format
        else:
            edits = rnd.sample(pool, rnd.choice([1, 1, 2, 3]))
        applied = [e for e in edits if apply_edit(doc, e, rnd)]
        if not applied:
            ctx.skip("dshist: edit not applicable")
            continue
        nrep = len(hooks._reports)
        push_doc(doc, rnd, ctx, scratch, i, with_paths=rnd.random() < 0.5)
        if len(hooks._reports) == nrep:
            for e in applied:
                st.key("dshist/%s/%s" % (base, e))
            done += 1
    ctx.sample = {"case": case["id"], "histories": done, "last": {"base": base, "edits": applied}, "evaluations": st.S["n"]}


# ---------------------------------------------------------------------------
# UFO kerning / groups down-conversion histories
# ---------------------------------------------------------------------------
def resolve_kerning(kerning, groups, glyphs, ufo3):
    """Independent kerning resolver (UFO specification, 'kerning value lookup algorithm'): for every ordered glyph
    pair the value of (glyph, glyph), else (glyph, group), else (group, glyph), else (group, group), else 0.
    kerning: {(first, second): value}.  UFO 3: side-1 groups are public.kern1.*, side-2 groups public.kern2.*;
    UFO 1/2: a group is a side-1 (side-2) group when it is used as first (second) member of a kerning pair.
    -> ({(L, R): value}, ambiguous) ; ambiguous is True if some glyph sits in two groups of one side."""
    firsts = {f for f, s in kerning}
    seconds = {s for f, s in kerning}
    g1, g2 = {}, {}
    amb = False
    for name, members in groups.items():
        is1 = name.startswith("public.kern1.") if ufo3 else (name in firsts)
        is2 = name.startswith("public.kern2.") if ufo3 else (name in seconds)
        for m in members:
            if is1:
                if m in g1 and g1[m] != name:
                    amb = True
                g1[m] = name
            if is2:
                if m in g2 and g2[m] != name:
                    amb = True
                g2[m] = name
    out = {}
    for L in glyphs:
        for R in glyphs:
            for key in ((L, R), (L, g2.get(R)), (g1.get(L), R), (g1.get(L), g2.get(R))):
                if None not in key and key in kerning:
                    out[(L, R)] = kerning[key]
                    break
    return out, amb


def _reorder(d, how, rnd):
    keys = list(d)
    if how == "sorted":
        keys.sort()
    elif how == "reverse":
        keys.sort(reverse=True)
    elif how == "shuffled":
        rnd.shuffle(keys)
    elif how == "public-first":
        keys.sort(key=lambda k: (not str(k if isinstance(k, str) else k[0]).startswith("public."), str(k)))
    elif how == "public-last":
        keys.sort(key=lambda k: (str(k if isinstance(k, str) else k[0]).startswith("public."), str(k)))
    return {k: d[k] for k in keys}


def drv_ufodown(case, rnd, ctx, scratch):
    import copy
    from fontTools.ufoLib import UFOWriter, UFOReader
    from vmon.gen.c19_ufodrv import Bag
    done = 0
    for i in range(case["n"]):
        kerning, groups, glyphs = G.kerning_v2(rnd, collide=False)
        # legacy groups without prefix whose names sort after "public." (and some before), used on one side only
        used1 = {m for g, ms in groups.items() if g.startswith(("@MMK_L_", "public.kern1.")) or g in kerning for m in ms}
        used2 = {m for g, ms in groups.items() if g.startswith(("@MMK_R_", "public.kern2.")) or any(g in d for d in kerning.values()) for m in ms}
        for k, n in enumerate(rnd.sample(["round", "stem", "serif", "u_left", "zz", "Alpha", "b_right"], rnd.choice([1, 2, 3]))):
            side = rnd.choice([1, 2])
            free = [g for g in glyphs if g not in (used1 if side == 1 else used2)]
            members = rnd.sample(free, min(len(free), rnd.choice([1, 2, 3])))
            if not members or n in groups:
                continue
            groups[n] = members
            (used1 if side == 1 else used2).update(members)
            other = rnd.choice(glyphs)
            if side == 1:
                kerning.setdefault(n, {})[other] = rnd.choice([-40, 25, 10.5])
            else:
                kerning.setdefault(other, {})[n] = rnd.choice([-30, 15, -7.5])
        version = rnd.choice([2, 2, 1])
        path = os.path.join(scratch, "down%d.ufo" % i)
        flat = {(l, r): v for l, d in kerning.items() for r, v in d.items()}
        with ctx.lib("UFOWriter(legacy)"):
            w = UFOWriter(path, formatVersion=version)
            w.writeGroups(copy.deepcopy(groups))
            w.writeKerning(flat)
            gs = w.getGlyphSet()
            gs.writeGlyph("a", Bag(), None)
            gs.writeContents()
            w.close()
        st.S["flags"].discard("conv-problem")
        with ctx.lib("UFOReader(legacy)"):
            r = UFOReader(path)
            k3, g3 = r.readKerning(), r.readGroups()
            maps = r.getKerningGroupConversionRenameMaps()
            r.close()
        if "conv-problem" in st.S["flags"]:
            continue
        # ---- edit the (UFO 3 shaped) data
        k3, g3 = dict(k3), {k: list(v) for k, v in g3.items()}
        back = {}
        for side in ("side1", "side2"):
            for old, new in maps[side].items():
                back.setdefault(old, []).append(new)
        editable = [new for side in ("side1", "side2") for old, new in maps[side].items() if len(back[old]) == 1 and new in g3]
        edited = []
        for name in rnd.sample(editable, min(len(editable), rnd.choice([1, 2, 3]))):
            side1 = name.startswith("public.kern1.")
            taken = {m for g, ms in g3.items() if g != name and g.startswith("public.kern1." if side1 else "public.kern2.") for m in ms}
            free = [g for g in glyphs if g not in taken and g not in g3[name]]
            ms = list(g3[name])
            if ms and rnd.random() < 0.5:
                ms.remove(rnd.choice(ms))
            if free:
                ms.append(rnd.choice(free))
            if ms != g3[name]:
                g3[name] = ms
                edited.append(name)
        for _ in range(rnd.choice([0, 1, 3])):
            if k3 and rnd.random() < 0.4:
                del k3[rnd.choice(sorted(k3, key=str))]
            f = rnd.choice(glyphs + [g for g in g3 if g.startswith("public.kern1.")])
            s_ = rnd.choice(glyphs + [g for g in g3 if g.startswith("public.kern2.")])
            k3[(f, s_)] = rnd.choice([-55, 5, 12.25, 0])
        want, amb = resolve_kerning(k3, g3, glyphs, ufo3=True)
        if amb:
            ctx.skip("ufodown: ambiguous group membership")
            continue
        order = rnd.choice(["sorted", "reverse", "shuffled", "public-first", "public-last", "as-read"])
        g_out, k_out = _reorder(g3, order, rnd), _reorder(k3, rnd.choice(["sorted", "shuffled", "as-read"]), rnd)
        path2 = os.path.join(scratch, "down%d-out.ufo" % i)
        with ctx.lib("UFOWriter(down-conversion)"):
            w2 = UFOWriter(path2, formatVersion=version)
            w2.setKerningGroupConversionRenameMaps(maps)
            w2.writeGroups(copy.deepcopy(g_out))
            w2.writeKerning(dict(k_out))
            gs = w2.getGlyphSet()
            gs.writeGlyph("a", Bag(), None)
            gs.writeContents()
            w2.close()
        # ---- the files, read with the standard library, resolved with the legacy semantics
        gfile = stdpl.load(open(os.path.join(path2, "groups.plist"), "rb")) if os.path.exists(os.path.join(path2, "groups.plist")) else {}
        kfile = stdpl.load(open(os.path.join(path2, "kerning.plist"), "rb")) if os.path.exists(os.path.join(path2, "kerning.plist")) else {}
        kflat = {(f, s_): v for f, d in kfile.items() for s_, v in d.items()}
        got, amb2 = resolve_kerning(kflat, gfile, glyphs, ufo3=False)
        witness = dict(order=order, edited=edited, version=version, groups_given=list(g_out.items())[:30], maps=maps,
                       groups_written=gfile)
        st.judged()
        bad = False
        if amb2:
            bad = True
            st.bad({"kind": "conversion", "func": "UFOWriter.writeGroups", "problem": "glyph in two groups of one side after down-conversion"},
                   "down-converted UFO %d groups are ambiguous" % version, **witness)
        diff = sorted(p for p in set(want) | set(got) if want.get(p, 0) != got.get(p, 0))
        if diff and not bad:
            bad = True
            p = diff[0]
            st.bad({"kind": "conversion", "func": "UFOWriter.writeGroups/writeKerning", "problem": "resolved kerning differs after down-conversion"},
                   "UFO %d written from edited data (groups handed over %s): kerning of %r is %r in the files, %r in the data (%d pairs differ)"
                   % (version, order, p, got.get(p, 0), want.get(p, 0), len(diff)), **witness)
        # groups that are not kerning groups keep their members; renamed ones carry the edited members
        remap = {new: old for side in ("side1", "side2") for old, new in maps[side].items()}
        st.judged()
        for name, members in g3.items():
            target = remap.get(name, name)
            if name not in remap and name in remap.values():
                continue        # a legacy group that a renamed kerning group overwrites (documented)
            if gfile.get(target) != members and not bad:
                bad = True
                st.bad({"kind": "conversion", "func": "UFOWriter.writeGroups", "problem": "group members differ after down-conversion"},
                       "group %r -> %r: wrote %r, file has %r" % (name, target, members, gfile.get(target)), **witness)
        # ---- and read back through the library (up-conversion again), resolved with the UFO 3 semantics
        with ctx.lib("UFOReader(down-converted)"):
            r2 = UFOReader(path2)
            k4, g4 = r2.readKerning(), r2.readGroups()
            r2.close()
        st.judged()
        got3, amb3 = resolve_kerning(dict(k4), g4, glyphs, ufo3=True)
        diff = sorted(p for p in set(want) | set(got3) if want.get(p, 0) != got3.get(p, 0))
        if (diff or amb3) and not bad:
            bad = True
            st.bad({"kind": "conversion", "func": "UFOReader.readKerning", "problem": "resolved kerning differs after down-conversion and re-reading"},
                   "UFO %d re-read: %d glyph pairs resolve differently" % (version, len(diff)), **witness)
        if not bad:
            done += 1
            st.key("ufodown/v%d/%s/%s" % (version, order, "edited" if edited else "unedited"))
    ctx.sample = {"case": case["id"], "histories": done, "evaluations": st.S["n"]}
