"""Drivers of the C19 check: build inputs from the specs of c19_gen and push them
through the real library entry points (the monitors of checks/c19.py judge)."""
import io
import math
import os
import plistlib as stdpl

from vmon import hooks
from vmon.gen import c19_gen as G
from vmon.gen import c19_state as st
from vmon.oracle import c19_expect as ex
from vmon.oracle import c19_model as md
from vmon.gen.c19_ufodrv import *  # noqa: F401,F403  (drv_ufo, drv_ufokern2, drv_layers, drv_infoinvalid, drv_corpus_ufo)
from vmon.gen.c19_ufodrv import Bag, glyph_object
from vmon.gen.c19_sessions import drv_sessions  # noqa: F401
from vmon.gen.c19_histories import drv_dshist, drv_ufodown  # noqa: F401


# ---------------------------------------------------------------------------
# designspace
# ---------------------------------------------------------------------------
def build_doc(spec):
    from fontTools import designspaceLib as DS
    doc = DS.DesignSpaceDocument()
    doc.formatVersion = spec["formatVersion"]
    doc.elidedFallbackName = spec["elidedFallbackName"]
    for a in spec["axes"]:
        labels = [DS.AxisLabelDescriptor(name=l["name"], userValue=l["userValue"], userMinimum=l["userMinimum"],
                                         userMaximum=l["userMaximum"], elidable=l["elidable"], olderSibling=l["olderSibling"],
                                         linkedUserValue=l["linkedUserValue"], labelNames=dict(l["labelNames"]))
                  for l in a["axisLabels"]]
        common = dict(tag=a["tag"], name=a["name"], labelNames=dict(a["labelNames"]), hidden=a["hidden"],
                      map=[tuple(p) for p in a["map"]], axisOrdering=a["axisOrdering"], axisLabels=labels, default=a["default"])
        if a["kind"] == "discrete":
            doc.addAxis(DS.DiscreteAxisDescriptor(values=list(a["values"]), **common))
        else:
            doc.addAxis(DS.AxisDescriptor(minimum=a["minimum"], maximum=a["maximum"], **common))
    for m in spec["axisMappings"]:
        doc.addAxisMapping(DS.AxisMappingDescriptor(inputLocation=dict(m["inputLocation"]), outputLocation=dict(m["outputLocation"]),
                                                    description=m["description"], groupDescription=m["groupDescription"]))
    for l in spec["locationLabels"]:
        doc.addLocationLabel(DS.LocationLabelDescriptor(name=l["name"], userLocation=dict(l["userLocation"]), elidable=l["elidable"],
                                                        olderSibling=l["olderSibling"], labelNames=dict(l["labelNames"])))
    for r in spec["rules"]:
        doc.addRule(DS.RuleDescriptor(name=r["name"], conditionSets=[[dict(c) for c in cs] for cs in r["conditionSets"]],
                                      subs=[tuple(s) for s in r["subs"]]))
    doc.rulesProcessingLast = spec["rulesProcessingLast"]
    for s in spec["sources"]:
        kw = {k: s[k] for k in ("filename", "path", "name", "layerName", "familyName", "styleName", "copyLib", "copyInfo",
                                "copyGroups", "copyFeatures", "muteKerning", "muteInfo")}
        doc.addSource(DS.SourceDescriptor(designLocation=dict(s["designLocation"]), localisedFamilyName=dict(s["localisedFamilyName"]),
                                          mutedGlyphNames=list(s["mutedGlyphNames"]), **kw))
    for v in spec["variableFonts"]:
        subs = []
        for x in v["axisSubsets"]:
            if x["kind"] == "value":
                subs.append(DS.ValueAxisSubsetDescriptor(name=x["name"], userValue=x["userValue"]))
            else:
                kw = {}
                if x["userMinimum"] is not None:
                    kw["userMinimum"] = x["userMinimum"]
                if x["userMaximum"] is not None:
                    kw["userMaximum"] = x["userMaximum"]
                if x["userDefault"] is not None:
                    kw["userDefault"] = x["userDefault"]
                subs.append(DS.RangeAxisSubsetDescriptor(name=x["name"], **kw))
        doc.addVariableFont(DS.VariableFontDescriptor(name=v["name"], filename=v["filename"], axisSubsets=subs, lib=dict(v["lib"])))
    for i in spec["instances"]:
        import copy
        kw = {k: i[k] for k in ("filename", "path", "name", "locationLabel", "familyName", "styleName", "postScriptFontName",
                                "styleMapFamilyName", "styleMapStyleName", "kerning", "info")}
        doc.addInstance(DS.InstanceDescriptor(
            designLocation=dict(i["designLocation"]), userLocation=dict(i["userLocation"]),
            localisedFamilyName=dict(i["localisedFamilyName"]), localisedStyleName=dict(i["localisedStyleName"]),
            localisedStyleMapFamilyName=dict(i["localisedStyleMapFamilyName"]),
            localisedStyleMapStyleName=dict(i["localisedStyleMapStyleName"]),
            glyphs=copy.deepcopy(i["glyphs"]), lib=copy.deepcopy(i["lib"]), **kw))
    doc.lib = dict(spec["lib"])
    return doc


def exercise_maps(doc, rnd, k=3):
    for a in doc.axes:
        if not a.map:
            continue
        ins = sorted({p[0] for p in a.map})
        vals = list(ins)
        for x, y in zip(ins, ins[1:]):
            vals.append(round(rnd.uniform(x, y), 3))
        vals += [ins[0] - 7, ins[-1] + 13.5]
        for v in vals[: 4 * k + 4]:
            try:
                d = a.map_forward(v)
                a.map_backward(d)
            except Exception:
                pass


def push_doc(doc, rnd, ctx, scratch, idx, with_paths=True):
    from fontTools.designspaceLib import DesignSpaceDocument
    with ctx.lib("designspace.tostring"):
        doc.tostring()
    d = os.path.join(scratch, "ds%d" % idx, rnd.choice(["", "sub dir"]))
    os.makedirs(d, exist_ok=True)
    if with_paths:
        for n, desc in enumerate(doc.sources + doc.instances):
            if rnd.random() < 0.4:
                desc.path = os.path.join(scratch, "ds%d" % idx, rnd.choice(["masters", "sub dir/ü", "."]), "F%d.ufo" % n)
    path = os.path.join(d, rnd.choice(["doc.designspace", "Ünï doc.designspace"]))
    with ctx.lib("designspace.write"):
        doc.write(path)
    with ctx.lib("designspace.fromfile"):
        doc2 = DesignSpaceDocument.fromfile(path)
    exercise_maps(doc2, rnd)
    # a second generation must be a fixed point
    with ctx.lib("designspace.tostring(2nd)"):
        s1 = doc2.tostring()
    doc3 = DesignSpaceDocument.fromstring(s1)
    with ctx.lib("designspace.tostring(3rd)"):
        s2 = doc3.tostring()
    st.judged()
    if s1 != s2:
        st.bad({"kind": "roundtrip", "fmt": "designspace", "what": "second write differs from the first"},
               "designspace: write(read(write(d))) is not byte-identical to write(d)", first=s1[:600], second=s2[:600])


def drv_ds(case, rnd, ctx, scratch):
    fam = case["fam"]
    for i in range(case["n"]):
        fmt = {"5": rnd.choice([None, "5.0", "5.0", "5.1"]), "4": rnd.choice(["4.1", "4.0", "4.1"]), "4>5": "4.1"}[fam]
        spec = G.ds_spec(rnd, fmt, set(case["features"]))
        doc = build_doc(spec)
        push_doc(doc, rnd, ctx, scratch, i)
    ctx.sample = {"case": case["id"], "last_document": {"format": fmt, "axes": [(a["name"], a["kind"], len(a["map"])) for a in spec["axes"]],
                                                        "sources": len(spec["sources"]), "instances": len(spec["instances"]),
                                                        "rules": len(spec["rules"]), "variableFonts": len(spec["variableFonts"])},
                  "classes_seen": sorted(st.S["keys"])[:8], "evaluations": st.S["n"]}


def drv_corpus_ds(case, rnd, ctx, scratch):
    from fontTools.designspaceLib import DesignSpaceDocument, DesignSpaceDocumentError
    from vmon import corpus
    for i, rel in enumerate(case["files"]):
        path = corpus.abspath(rel)
        try:
            with hooks.quiet():
                doc = DesignSpaceDocument.fromfile(path)
        except (DesignSpaceDocumentError, Exception) as e:
            ctx.skip("corpus designspace not readable: %s" % type(e).__name__)
            continue
        nrep = len(hooks._reports)
        # read -> write (string and file in another directory) -> read: monitors judge each write
        with ctx.lib("designspace.tostring", file=rel):
            data = doc.tostring()
        out = os.path.join(scratch, "c%d" % i)
        os.makedirs(out, exist_ok=True)
        with ctx.lib("designspace.write", file=rel):
            doc.write(os.path.join(out, os.path.basename(rel)))
        with ctx.lib("designspace.fromfile", file=rel):
            doc2 = DesignSpaceDocument.fromfile(os.path.join(out, os.path.basename(rel)))
        if len(hooks._reports) == nrep:
            st.key("corpus-ds/" + os.path.basename(rel)[:28])
        exercise_maps(doc2, rnd, k=1)
        del data


# ---------------------------------------------------------------------------
# GLIF
# ---------------------------------------------------------------------------
def drv_glif(case, rnd, ctx, scratch):
    from fontTools.ufoLib import glifLib
    fmt = case["fmt"]
    for i in range(case["n"]):
        g = G.glyph_spec(rnd, fmt, set(case["features"]))
        obj = glyph_object(g)
        draw = ex.draw_outline(g["outline"]) if g["outline"] is not None else None
        validate = rnd.random() < 0.85
        with ctx.lib("glif.writeGlyphToString", fmt=fmt):
            glifLib.writeGlyphToString(g["name"], obj, draw, formatVersion=rnd.choice([fmt, (fmt, 0)]), validate=validate)
    if fmt == 2:
        _identifier_bounds(glifLib, rnd)
    ctx.sample = {"case": case["id"], "last_glyph": {"name": g["name"], "outline_elements": len(g["outline"] or []),
                                                     "attrs": [k for k in ex.GLYPH_ATTRS if g[k]]},
                  "classes_seen": sorted(st.S["keys"])[:8], "evaluations": st.S["n"]}


def _identifier_bounds(glifLib, rnd):
    """UFO 3: an identifier is 1..100 characters in 0x20..0x7E.  Every site that carries one (contour, point,
    component, anchor, guideline) must accept lengths 1, 99 and 100 and reject 101 and characters outside the
    range - when writing and when reading a GLIF written by another tool."""
    from fontTools.pens.recordingPen import RecordingPointPen
    alphabet = "abcdefghijklmnopqrstuvwxyzABCDEFGHIJKLMNOPQRSTUVWXYZ0123456789-_.~ "
    cases = [(1, True), (99, True), (100, True), (101, False), (rnd.randrange(2, 99), True), (150, False)]
    for n, valid in cases:
        ident = "".join(rnd.choice(alphabet) for _ in range(n)).replace("  ", " x")
        if rnd.random() < 0.15 and n > 1:
            ident, valid = ident[:-1] + rnd.choice(["\x7f", "\xe9", "\u2028"]), False
        for site in ("contour", "point", "component", "anchor", "guideline"):
            obj = Bag()
            outline = []
            if site == "contour":
                outline = [("contour", {"identifier": ident, "points": [{"x": 0, "y": 0, "type": "line", "smooth": False, "name": None, "identifier": None}]})]
            elif site == "point":
                outline = [("contour", {"identifier": None, "points": [{"x": 0, "y": 0, "type": "line", "smooth": False, "name": None, "identifier": ident}]})]
            elif site == "component":
                outline = [("component", {"base": "b", "transformation": (1, 0, 0, 1, 0, 0), "identifier": ident})]
            elif site == "anchor":
                obj.anchors = [{"x": 1, "y": 2, "name": "top", "identifier": ident}]
            else:
                obj.guidelines = [{"x": 1, "y": 2, "angle": 45, "identifier": ident}]
            st.judged()
            try:
                data = glifLib.writeGlyphToString("a", obj, ex.draw_outline(outline) if outline else None, formatVersion=2, validate=True)
                wrote = True
            except glifLib.GlifLibError:
                wrote, data = False, None
            except Exception as e:       # noqa: BLE001
                st.bad({"kind": "validator", "func": "identifierValidator", "op": "write", "problem": "raised " + type(e).__name__},
                       "writing a glyph with a %d-character %s identifier raised %r" % (n, site, e), identifier=ident)
                continue
            if wrote != valid:
                st.bad({"kind": "validator", "func": "identifierValidator", "op": "write",
                        "problem": "valid identifier rejected" if valid else "invalid identifier accepted"},
                       "GLIF writer %s a %s identifier of %d characters" % ("rejected" if valid else "accepted", site, len(ident)),
                       identifier=ident, site=site)
                continue
            # the reading side, on a GLIF spelled by hand (as another tool would write it)
            if any(ord(c) > 0x7e or ord(c) < 0x20 for c in ident):
                continue
            att = ' identifier="%s"' % ident
            xml = ('<?xml version="1.0" encoding="UTF-8"?>\n<glyph name="a" format="2">%s%s<outline>%s</outline></glyph>' % (
                '<anchor x="1" y="2" name="top"%s/>' % att if site == "anchor" else "",
                '<guideline x="1" y="2" angle="45"%s/>' % att if site == "guideline" else "",
                '<component base="b"%s/>' % att if site == "component" else
                '<contour%s><point x="0" y="0" type="line"%s/></contour>' % (att if site == "contour" else "", att if site == "point" else "")
                if site in ("contour", "point") else ""))
            st.judged()
            try:
                glifLib.readGlyphFromString(xml, Bag(), RecordingPointPen(), validate=True)
                read = True
            except glifLib.GlifLibError:
                read = False
            except Exception as e:       # noqa: BLE001
                st.bad({"kind": "validator", "func": "identifierValidator", "op": "read", "problem": "raised " + type(e).__name__},
                       "reading a glyph with a %d-character %s identifier raised %r" % (n, site, e), identifier=ident)
                continue
            if read != valid:
                st.bad({"kind": "validator", "func": "identifierValidator", "op": "read",
                        "problem": "valid identifier rejected" if valid else "invalid identifier accepted"},
                       "GLIF reader %s a %s identifier of %d characters" % ("rejected" if valid else "accepted", site, len(ident)),
                       identifier=ident, site=site)
            elif valid:
                st.key("identifier/%s/len%s" % (site, n if n in (1, 99, 100) else "mid"))


def drv_corpus_glif(case, rnd, ctx, scratch):
    from fontTools.ufoLib import glifLib
    from fontTools.ufoLib.errors import GlifLibError
    from vmon import corpus
    for rel in case["files"]:
        with open(corpus.abspath(rel), "rb") as f:
            data = f.read()
        obj, pen = Bag(), ex.RecPen()
        try:
            with hooks.quiet():
                glifLib.readGlyphFromString(data, obj, pen)
        except (GlifLibError, Exception) as e:
            ctx.skip("corpus glif rejected by the reader: %s" % type(e).__name__)
            continue
        import re
        m = re.search(rb'<glyph[^>]*\bformat="(\d+)"', data)
        fmt = int(m.group(1)) if m else 2
        name = getattr(obj, "name", None) or "x"
        first = ex.read_norm(ex.snap_glyph(obj, pen.out), fmt)
        with ctx.lib("glif.writeGlyphToString", file=rel):
            out = glifLib.writeGlyphToString(name, obj, ex.draw_outline(pen.out), formatVersion=fmt)
        obj2, pen2 = Bag(), ex.RecPen()
        with ctx.lib("glif.readGlyphFromString", file=rel):
            glifLib.readGlyphFromString(out, obj2, pen2)
        second = ex.read_norm(ex.snap_glyph(obj2, pen2.out), fmt)
        st.judged()
        d = md.deep_diff(first, second, md.NUM_EXACT)
        if d:
            st.bad({"kind": "roundtrip", "fmt": "glif%d" % fmt, "what": "corpus read -> write -> read differs", "field": ex.glyph_field(d[0]), "why": d[1]},
                   "corpus %s: %s differs after write/read (%s): %s vs %s" % (rel, d[0], d[1], st.short(d[2]), st.short(d[3])), file=rel)
        else:
            st.key("corpus-glif/%d/%s" % (fmt, os.path.basename(os.path.dirname(os.path.dirname(rel)))[:20]))


# ---------------------------------------------------------------------------
# plist
# ---------------------------------------------------------------------------
def drv_plist(case, rnd, ctx, scratch):
    from fontTools.misc import plistlib as PL
    n_ok = 0
    for i in range(case["n"]):
        r = rnd.random()
        if r < 0.15:
            v = G.plist_deep(rnd, rnd.choice([5, 10, 20, 40]))
        elif r < 0.3:
            v = G.plist_leaf(rnd)
        else:
            v = G.plist_tree(rnd, 0, rnd.choice([2, 3, 5]), container=rnd.choice(["dict", "dict", "list"]))
        pretty = rnd.random() < 0.7
        with ctx.lib("plist.dumps"):
            data = PL.dumps(v, pretty_print=pretty, sort_keys=rnd.random() < 0.8)
        with ctx.lib("plist.totree"):
            PL.totree(v, indent_level=rnd.choice([0, 1, 2, 4, 9]), pretty_print=pretty)
        # the other direction: what the standard library writes must be read identically
        try:
            sdata = None if "\\r" in repr(v) else stdpl.dumps(v, sort_keys=rnd.random() < 0.5)
        except (OverflowError, ValueError, TypeError):
            sdata = None
        if sdata is not None:
            with ctx.lib("plist.loads(stdlib output)"):
                back = PL.loads(sdata)
            st.judged()
            d = md.deep_diff(v, back, md.NUM_EXACT)
            if d:
                st.bad({"kind": "roundtrip", "fmt": "plist", "func": "loads", "what": "loads(stdlib dumps(x)) != x", "why": d[1]},
                       "plist: value written by the standard library read back differently at %s (%s): %s vs %s"
                       % (d[0], d[1], st.short(d[2]), st.short(d[3])), value=v)
            else:
                n_ok += 1
        # file API
        if i % 5 == 0:
            buf = io.BytesIO()
            with ctx.lib("plist.dump"):
                PL.dump(v, buf)
            with ctx.lib("plist.load"):
                back = PL.load(io.BytesIO(buf.getvalue()))
            st.judged()
            d = md.deep_diff(v, back, md.NUM_EXACT)
            if d:
                st.bad({"kind": "roundtrip", "fmt": "plist", "func": "dump", "what": "load(dump(x)) != x", "why": d[1]},
                       "plist dump/load: %s (%s)" % (d[0], d[1]), value=v)
        del data
    # documented rejections: integers outside -2^63 .. 2^64-1
    for bad in (2 ** 64, -2 ** 63 - 1):
        try:
            PL.dumps({"k": bad})
            st.judged()
            st.bad({"kind": "roundtrip", "fmt": "plist", "func": "dumps", "what": "out-of-range integer accepted"},
                   "plist: dumps accepted the integer %d" % bad)
        except OverflowError:
            st.judged()
            st.key("plist/overflow-rejected")
    ctx.sample = {"case": case["id"], "trees": case["n"], "stdlib_cross_checks_ok": n_ok, "classes_seen": sorted(st.S["keys"])[:12]}


def drv_corpus_plist(case, rnd, ctx, scratch):
    from fontTools.misc import plistlib as PL
    from vmon import corpus
    for rel in case["files"]:
        with open(corpus.abspath(rel), "rb") as f:
            data = f.read()
        try:
            with hooks.quiet():
                first = PL.loads(data)
        except Exception as e:
            ctx.skip("corpus plist not readable: %s" % type(e).__name__)
            continue
        with ctx.lib("plist.dumps", file=rel):
            out = PL.dumps(first)
        with ctx.lib("plist.loads", file=rel):
            second = PL.loads(out)
        st.judged()
        d = md.deep_diff(first, second, md.NUM_EXACT)
        if d:
            st.bad({"kind": "roundtrip", "fmt": "plist", "func": "dumps", "what": "corpus read -> write -> read differs", "why": d[1]},
                   "corpus %s: %s (%s)" % (rel, d[0], d[1]), file=rel)
        else:
            st.key("corpus-plist/" + os.path.basename(rel)[:24])
        try:
            std = stdpl.loads(data)
        except Exception:
            continue
        st.judged()
        d = md.deep_diff(std, first, md.NUM_EXACT)
        if d:
            st.bad({"kind": "roundtrip", "fmt": "plist", "func": "loads", "what": "corpus file read differently from stdlib plistlib", "why": d[1]},
                   "corpus %s: fontTools and the standard library read %s differently (%s): %s vs %s"
                   % (rel, d[0], d[1], st.short(d[2]), st.short(d[3])), file=rel)


# ---------------------------------------------------------------------------
# axis maps
# ---------------------------------------------------------------------------
def drv_maps(case, rnd, ctx, scratch):
    from fontTools.designspaceLib import AxisDescriptor, DiscreteAxisDescriptor, DesignSpaceDocument
    for i in range(case["n"]):
        lo = rnd.choice([0, 1, 100, -100, 50.5])
        hi = lo + rnd.choice([1, 10, 800, 900, 1000.5])
        kind = rnd.random()
        integral = rnd.random() < 0.5
        mp = G.ds_map(rnd, lo, (lo + hi) / 2, hi, integral=integral)
        if kind < 0.15:      # decreasing
            outs = sorted((o for _, o in mp), reverse=True)
            mp = [(a, o) for (a, _), o in zip(mp, outs)]
        elif kind < 0.3:     # flat segment (many-to-one)
            j = rnd.randrange(len(mp) - 1)
            mp = mp[:j + 1] + [(x, mp[j][1]) for x, _ in mp[j + 1:j + 2]] + mp[j + 2:]
        elif kind < 0.4:     # duplicate knot, unsorted order
            mp = mp + [mp[0]]
            rnd.shuffle(mp)
        elif kind < 0.5:     # does not cover the axis extremes
            mp = mp[1:] if len(mp) > 2 else mp
        ax = AxisDescriptor(name="w", tag="wght", minimum=lo, default=lo, maximum=hi, map=mp)
        ins = sorted({a for a, _ in mp})
        outs = sorted({o for _, o in mp})
        vals = list(ins) + [round(rnd.uniform(ins[0], ins[-1]), rnd.choice([0, 1, 3])) for _ in range(6)]
        vals += [(x + y) / 2 for x, y in zip(ins, ins[1:])] + [ins[0] - 10, ins[-1] + 10, ins[0] - 0.125, lo, hi]
        for v in vals:
            with ctx.lib("axis.map_forward"):
                ax.map_forward(v)
        dvals = list(outs) + [(x + y) / 2 for x, y in zip(outs, outs[1:])] + [outs[0] - 5, outs[-1] + 5]
        for d in dvals:
            with ctx.lib("axis.map_backward"):
                ax.map_backward(d)
                ax.map_backward((d, d + 1))
        if i % 5 == 0:
            keys = rnd.sample(range(0, 12), 4)
            dax = DiscreteAxisDescriptor(name="i", tag="ital", values=keys, default=keys[0],
                                         map=list(zip(keys, rnd.sample(range(-30, 30), 4))) if rnd.random() < 0.8 else [])
            for v in keys + [99]:
                dax.map_forward(v)
                dax.map_backward(dax.map_forward(v))
            doc = DesignSpaceDocument()
            doc.addAxis(ax)
            doc.addAxis(dax)
            loc = doc.map_forward({"w": vals[0], "i": keys[1]})
            back = doc.map_backward(loc)
            st.judged()
            if set(back) != {"w", "i"} or back["i"] != keys[1]:
                st.bad({"kind": "axis-map", "func": "DesignSpaceDocument.map_backward", "what": "location not restored"},
                       "document-level map_backward(map_forward(loc)) lost the discrete coordinate", loc=loc, back=back)
    ctx.sample = {"case": case["id"], "maps": case["n"], "classes_seen": sorted(st.S["keys"])[:12], "evaluations": st.S["n"]}


# ---------------------------------------------------------------------------
# glyph / layer name sequences
# ---------------------------------------------------------------------------
def run_name_sequence(mod, names, prefix, suffix, shadow, ctx, pre_existing=()):
    """Feed a sequence through userNameToFileName the way GlyphSet does (existing = lower-cased
    issued names); the monitor checks the invariant at each call; files are created in `shadow`."""
    existing = set(pre_existing)
    issued = []
    for n in names:
        if n == "" and not prefix:
            continue
        nrep = len(hooks._reports)
        try:
            fn = mod.userNameToFileName(n, existing=existing, prefix=prefix, suffix=suffix)
        except mod.NameTranslationError:
            ctx.skip("NameTranslationError")
            continue
        except Exception:
            continue   # reported by the monitor
        why = shadow.create(fn)
        st.judged()
        if why and len(hooks._reports) == nrep:
            st.bad({"kind": "filename", "module": mod.__name__.replace("fontTools.", ""), "func": "userNameToFileName",
                    "problem": "shadow-create:" + why.split(":")[0]},
                   "creating the case-folded shadow file for %s failed: %s" % (st.short(fn, 80), why), userName=n, result=fn,
                   issued_before=[x for x in issued if md.fold(x) == md.fold(fn)][:3])
        existing.add(fn.lower())
        issued.append(fn)
    return issued


def drv_names(case, rnd, ctx, scratch):
    from fontTools.ufoLib import filenames as ufn
    from fontTools.misc import filenames as mfn
    kind = case["nkind"]
    total = 0
    for s in range(case["nseq"]):
        names = G.name_sequence(rnd, kind, case["length"])
        if rnd.random() < 0.3:
            names = names + G.name_sequence(rnd, "mixed", 10)
        for mod, tag in ((ufn, "u"), (mfn, "m")):
            use = names      # both modules must satisfy the same predicate (the misc.filenames gaps D12/D13 are repaired)
            prefix, suffix = rnd.choice([("", ".glif"), ("", ".glif"), ("glyphs.", ""), ("", ""), ("00000.", ".0000000000")])
            shadow = md.ShadowDir(os.path.join(scratch, "seq%d%s" % (s, tag)))
            pre = set()
            if rnd.random() < 0.3:
                pre = {(prefix + x + suffix).lower() for x in rnd.sample(["a", "a_", "b", "_notdef", "a_000000000000001", "1", "2"], 3)}
                for x in pre:
                    shadow.create(x)
            before = len(hooks._reports)
            issued = run_name_sequence(mod, use, prefix, suffix, shadow, ctx, pre)
            # the clash helpers are public entry points too: drive them directly
            ex_set = {x.lower() for x in issued} | set(pre)
            for base in rnd.sample(issued, min(4, len(issued))):
                core = base[len(prefix):len(base) - len(suffix)] if suffix else base[len(prefix):]
                try:
                    fn1 = mod.handleClash1(core, ex_set, prefix, suffix)
                    ex_set.add(fn1.lower())
                    fn2 = mod.handleClash2(ex_set | {(prefix + str(k) + suffix) for k in range(1, rnd.choice([1, 3, 12]))}, prefix, suffix)
                    ex_set.add(fn2.lower())
                except mod.NameTranslationError:
                    ctx.skip("NameTranslationError")
                except Exception:
                    pass
            total += len(issued)
            st.note("names/files-created", shadow.created)
            st.note("names/creation-skipped(bytes>255 or posix-illegal)", shadow.skipped)
            # whole-sequence invariant, judged independently of the per-call monitor
            st.judged()
            folded = {}
            for fn in issued:
                folded.setdefault(md.fold(fn), []).append(fn)
            dup = [v for v in folded.values() if len(v) > 1]
            if dup and len(hooks._reports) == before:
                st.bad({"kind": "filename", "module": mod.__name__.replace("fontTools.", ""), "func": "sequence", "problem": "duplicate-ignoring-case"},
                       "sequence issued names equal ignoring case: %s" % st.short(dup[0]), names=dup[0])
            if len(hooks._reports) == before:
                used = {"clash" if any(fn[-15:].isdigit() for fn in issued if len(fn) >= 15 + len(suffix) and fn[:len(fn) - len(suffix)][-15:].isdigit()) else "noclash"}
                st.key("names/%s/%s/%s%s" % (tag, kind, "pfx" if prefix else "nopfx", "+" + "+".join(sorted(used))))
    ctx.sample = {"case": case["id"], "names_issued": total, "example_sequence_head": [st.short(n, 40) for n in names[:6]],
                  "classes_seen": sorted(st.S["keys"])[:8]}


# ---------------------------------------------------------------------------
# probes: one structural class each, isolated so that a finding has one stable mechanism
# ---------------------------------------------------------------------------
def drv_probe(case, rnd, ctx, scratch):
    from fontTools import designspaceLib as DS
    from fontTools.ufoLib import glifLib, filenames as ufn
    from fontTools.misc import filenames as mfn
    p = case["probe"]

    def basedoc(fmt=None):
        d = DS.DesignSpaceDocument()
        d.formatVersion = fmt
        d.addAxisDescriptor(name="Weight", tag="wght", minimum=100, default=400, maximum=900)
        d.addSourceDescriptor(name="m0", filename="m0.ufo", location={"Weight": 400})
        return d

    def tostring(d):
        try:
            d.tostring()
        except Exception as e:
            st.bad({"kind": "exception", "op": "designspace.tostring", "type": type(e).__name__}, "tostring raised %r" % e)

    if p == "ds-precision":
        for v in (400.1234567, 0.0000004, 123.4567891, 1 / 3):
            d = basedoc()
            d.axes[0].default = v
            d.axes[0].map = [(100, 100), (v, 420.00000049), (900, 900)]
            d.addInstanceDescriptor(name="i", designLocation={"Weight": v})
            tostring(d)
    elif p == "ds-tostring-text":
        for enc in (str, "unicode"):
            st.judged()
            try:
                r = basedoc().tostring(encoding=enc)
                if not isinstance(r, str):
                    st.bad({"kind": "exception", "op": "designspace.tostring(text)", "what": "not a str"}, "tostring(encoding=%r) returned %s" % (enc, type(r)))
            except Exception as e:
                st.bad({"kind": "exception", "op": "designspace.tostring(text)", "what": "raised"},
                       "DesignSpaceDocument.tostring(encoding=%r) raised %s: %s" % (enc, type(e).__name__, e), type=type(e).__name__)
    elif p == "ds-vf-partial-range":
        for kw in ({"userMinimum": 300}, {"userMaximum": 700}, {"userDefault": 500}, {"userMinimum": 300, "userMaximum": 700}):
            d = basedoc()
            d.addVariableFontDescriptor(name="VF", axisSubsets=[DS.RangeAxisSubsetDescriptor(name="Weight", **kw)])
            tostring(d)
    elif p == "ds-vf-no-subsets":
        d = basedoc()
        d.addVariableFontDescriptor(name="VF")
        tostring(d)
    elif p == "ds-empty-labelname":
        d = basedoc()
        d.axes[0].labelNames = {"fr": ""}
        tostring(d)
        d = basedoc()
        d.addInstanceDescriptor(name="i", designLocation={"Weight": 400}, localisedStyleName={"fr": ""})
        tostring(d)
    elif p == "ds-v4-info-kerning-false":
        for kw in ({"kerning": False}, {"info": False}):
            d = basedoc("4.1")
            d.addInstanceDescriptor(name="i", familyName="F", styleName="S", designLocation={"Weight": 400}, **kw)
            tostring(d)
    elif p == "glif1-identifiers":
        used = set()
        out = [("contour", {"identifier": None, "points": [
            {"x": 0, "y": 0, "type": "line", "smooth": False, "name": None, "identifier": G.ident(rnd, used)},
            {"x": 10, "y": 0, "type": "line", "smooth": False, "name": None, "identifier": None},
            {"x": 10, "y": 10, "type": "line", "smooth": False, "name": None, "identifier": None}]})]
        _probe_glif(glifLib, "a", Bag(), out, 1)
        out = [("contour", {"identifier": "c1", "points": [{"x": 0, "y": 0, "type": "line", "smooth": False, "name": None, "identifier": None}]})]
        _probe_glif(glifLib, "a", Bag(), out, 1)
        out = [("component", {"base": "b", "transformation": (1, 0, 0, 1, 0, 0), "identifier": "k1"})]
        _probe_glif(glifLib, "a", Bag(), out, 1)
    elif p == "glif1-anchors-no-outline":
        o = Bag()
        o.anchors = [{"x": 1, "y": 2, "name": "top"}]
        _probe_glif(glifLib, "a", o, None, 1)
    elif p == "kern-collision":
        from fontTools.ufoLib.converters import convertUFO1OrUFO2KerningToUFO3Kerning
        for side in (1, 2):
            if side == 1:
                groups = {"@MMK_L_foo": ["A"], "foo": ["O"]}
                kerning = {"foo": {"B": 1}, "@MMK_L_foo": {"B": 2}}
            else:
                groups = {"@MMK_R_foo": ["A"], "foo": ["O"]}
                kerning = {"B": {"foo": 1, "@MMK_R_foo": 2}}
            convertUFO1OrUFO2KerningToUFO3Kerning(kerning, groups, ())
    elif p == "names-reserved-long":
        for mod in (ufn,):
            for n in ("con." + "a" * 251, "a" * 251 + ".aux", "nul." + "b" * 300):
                for suffix in ("", ".glif"):
                    mod.userNameToFileName(n, existing=set(), suffix=suffix)
    elif p == "names-fold":
        shadow = md.ShadowDir(os.path.join(scratch, "fold"))
        for seq in (["ς", "σ"], ["ſ", "s"], ["ß", "ss"], ["ﬁ", "fi"], ["ǰ", "ǰ"]):
            run_name_sequence(ufn, seq, "", ".glif", shadow, ctx)
        for s in range(4):
            run_name_sequence(ufn, G.name_sequence(rnd, "fold", 30), "", ".glif", md.ShadowDir(os.path.join(scratch, "fold%d" % s)), ctx)
    elif p == "names-reserved-after-shift":
        # a reserved part as typed gets "_" in front; the second clip then cuts a later part down to a reserved word
        for mod in (ufn, mfn):
            mod.userNameToFileName("con." + "x" * 241 + ".con1", existing=set(), suffix=".glif")
            mod.userNameToFileName("aux." + "y" * 239 + ".nul1", existing=set(), prefix="glyphs.")
            mod.userNameToFileName("prn." + "z" * 246 + ".com12", existing=set())
    elif p == "names-misc-reserved":
        for n in ("com5", "com9", "lpt4", "lpt9", "com7.alt"):
            mfn.userNameToFileName(n, existing=set())
    elif p == "names-misc-illegal":
        for n in ('a"b', "a\0b"):
            mfn.userNameToFileName(n, existing=set())
    elif p == "info-invalid":
        pass
    elif p == "map-knots":
        # every knot of integral maps, both directions, exhaustively for small maps
        import itertools
        for ins in itertools.combinations(range(0, 60, 10), 3):
            for outs in itertools.combinations(range(-20, 100, 15), 3):
                ax = DS.AxisDescriptor(name="w", tag="wght", minimum=ins[0], default=ins[0], maximum=ins[-1], map=list(zip(ins, outs)))
                for v in ins:
                    ax.map_forward(v)
                for dsg in outs:
                    ax.map_backward(dsg)
    ctx.sample = {"case": case["id"], "probe": p, "evaluations": st.S["n"]}


def _probe_glif(glifLib, name, obj, outline, fmt):
    draw = ex.draw_outline(outline) if outline is not None else None
    try:
        glifLib.writeGlyphToString(name, obj, draw, formatVersion=fmt)
    except Exception as e:
        st.note("probe/glif-writer-rejected:%s" % type(e).__name__)
