"""Generators for hmtx/vmtx, name, kern, post and OS/2 contents (C02). Plain values only."""

# ---------------------------------------------------------------- hmtx / vmtx
HMTX_SHAPES = ["all_equal", "tail", "tail1", "no_tail", "single", "two", "zero_tail", "max_tail", "extremes",
               "tail_differs_by_one", "alternating", "floats"]


def gen_metrics(rnd, shape, n):
    """-> [(advance, sideBearing)] for n glyphs; advances 0..65535, side bearings int16."""
    sb = lambda: rnd.choice([0, -5, 7, 100, -32768, 32767, rnd.randint(-2000, 2000)])
    adv = lambda: rnd.choice([0, 1, 500, 1000, 32767, 32768, 65534, 65535, rnd.randint(0, 3000)])
    if shape == "single":
        n = 1
    if shape == "two":
        n = 2
    if shape == "all_equal":
        a = adv()
        out = [(a, sb()) for _ in range(n)]
    elif shape in ("tail", "zero_tail", "max_tail"):
        t = rnd.randint(1, n)
        a = {"zero_tail": 0, "max_tail": 65535}.get(shape, adv())
        out = [(adv(), sb()) for _ in range(n - t)] + [(a, sb()) for _ in range(t)]
    elif shape == "tail1":
        out = [(adv(), sb()) for _ in range(n)]
        if n > 1:
            out[-2] = (out[-1][0], out[-2][1])
    elif shape == "no_tail":
        out = [(rnd.randint(0, 60000), sb()) for _ in range(n)]
        if n > 1 and out[-1][0] == out[-2][0]:
            out[-1] = ((out[-1][0] + 1) % 65536, out[-1][1])
    elif shape == "tail_differs_by_one":
        a = rnd.choice([1, 500, 65534])
        t = rnd.randint(1, max(1, n - 1))
        out = [(adv(), sb()) for _ in range(n - t - 1)] + [(a + 1, sb())] + [(a, sb()) for _ in range(t)]
        out = out[-n:]
    elif shape == "alternating":
        a, b = adv(), adv()
        out = [((a, b)[i % 2], sb()) for i in range(n)]
    elif shape == "floats":
        # compile rounds with otRound = floor(x + 0.5)
        out = [(rnd.choice([0.5, 1.5, 2.5, 499.49, 500.5, 65534.5, 0.49]), rnd.choice([-0.5, -1.5, 0.5, 2.5, -2.49, 7.0]))
               for _ in range(n)]
    else:  # extremes / single / two
        out = [(adv(), sb()) for _ in range(n)]
    return out


# ---------------------------------------------------------------- name
# (platformID, encodingID, languageID, python codec used as *independent* decoder, alphabet)
_BMP = "AZaz09 -_.!éñüßøÅŁžΩπЖяאבجدกข日本語한글‐–—€™"
_ASTRAL = "\U0001F600\U00010000\U0010FFFF\U00020BB7\U0001D11E"
_MACROMAN = "AZaz09 -_.ÄÅÇÉÑÖÜáàâäãåçéèêëíìîïñóòôöõúùûü†°¢£§•¶ß®©™´¨≠ÆØ∞±≤≥¥µ∂∑∏π∫ªºΩæø¿¡¬√ƒ≈∆«»…ÀÃÕŒœ–—“”‘’÷◊ÿŸ⁄€‹›ﬁﬂ‡·‚„‰ÂÊÁËÈÍÎÏÌÓÔÒÚÛÙıˆ˜¯˘˙˚¸˝˛ˇ"
NAME_ENCODINGS = [
    (3, 1, 0x409, "utf-16", _BMP + _ASTRAL),
    (3, 1, 0x411, "utf-16", _BMP + _ASTRAL),
    (3, 10, 0x409, "utf-16", _BMP + _ASTRAL),
    (3, 0, 0x409, "utf-16", "AZaz09 " + ""),
    (0, 3, 0, "utf-16", _BMP + _ASTRAL),
    (0, 4, 0, "utf-16", _BMP + _ASTRAL),
    (0, 0, 0xFFFF, "utf-16", _BMP),
    (1, 0, 0, "mac_roman", _MACROMAN),
    (1, 0, 2, "mac_roman", _MACROMAN),
    (1, 0, 15, "mac_iceland", "AZaz09 ÝýÞþÐð"),
    (1, 0, 17, "mac_turkish", "AZaz09 ĞğİıŞş"),
    (1, 0, 18, "mac_croatian", "AZaz09 ŠšŽžĆćČčĐđ"),
    (1, 0, 24, "mac_latin2", "AZaz09 ĄąĘęŁłŃńŚśŹźŻż"),
    (1, 0, 37, "mac_romanian", "AZaz09 ĂăȘșȚț"),
    (1, 6, 14, "mac_greek", "AZaz09 ΑΒΓαβγΩω"),
    (1, 7, 32, "mac_cyrillic", "AZaz09 АБВабвЯя"),
    (3, 2, 0x411, "shift_jis", "AZaz09 日本語カナかな"),
    (3, 3, 0x804, "gb2312", "AZaz09 中文字体"),
    (3, 4, 0x404, "big5", "AZaz09 中文字體"),
    (3, 5, 0x412, "euc_kr", "AZaz09 한글"),
    (3, 6, 0x412, "johab", "AZaz09 한글"),
    (2, 0, 0, "ascii", "AZaz09 -_."),
    (2, 1, 0, "utf-16", _BMP),
    (2, 2, 0, "latin-1", "AZaz09 éñüßøÅ"),
]
NAME_SHAPES = ["unicode", "surrogates", "mac", "legacy", "mixed", "shared_strings", "same_string_all_triples", "mac_languages",
               "empty_strings", "long", "many"]

# Macintosh Roman-script records (platform 1, encoding 0) are encoded by *language*: language id -> Python codec
_MAC_LANG_CODECS = [(0, "mac_roman"), (1, "mac_roman"), (2, "mac_roman"), (15, "mac_iceland"), (17, "mac_turkish"), (18, "mac_croatian"),
                    (24, "mac_latin2"), (25, "mac_latin2"), (36, "mac_latin2"), (37, "mac_romanian"), (38, "mac_latin2"), (40, "mac_latin2"),
                    (5, "mac_roman"), (99, "mac_roman")]
_mac_tables = {}


def _mac_table(codec):
    """{char: byte} of the high half of a Mac codec (Python's codec tables)."""
    t = _mac_tables.get(codec)
    if t is None:
        t = {}
        for b in range(0x80, 0x100):
            try:
                t[bytes([b]).decode(codec)] = b
            except UnicodeDecodeError:
                pass
        _mac_tables[codec] = t
    return t


def _common_string(rnd, codecs, ln):
    """A string every codec in `codecs` can encode, preferring characters that sit at *different* byte values
    in at least two of them (the same text must then be stored as different bytes per record)."""
    tabs = [_mac_table(c) for c in codecs if c.startswith("mac_")]
    ascii_ = "AZaz09 -."
    if not tabs:
        return "".join(rnd.choice(ascii_ + "éÆ©") for _ in range(ln))
    common = [ch for ch in tabs[0] if all(ch in t for t in tabs)]
    diverging = sorted(ch for ch in common if len({t[ch] for t in tabs}) > 1)
    same = sorted(ch for ch in common if ch not in diverging)
    out = []
    for _ in range(ln):
        r = rnd.random()
        pool = diverging if (r < 0.5 and diverging) else same if (r < 0.75 and same) else ascii_
        out.append(rnd.choice(pool))
    if diverging and ln and not any(ch in diverging for ch in out):
        out[rnd.randrange(ln)] = rnd.choice(diverging)
    return "".join(out)


def gen_names(rnd, shape):
    """-> [(platformID, encodingID, languageID, nameID, unicode string, decoder)] with unique
    (platform, encoding, language, nameID) keys."""
    recs = {}
    if shape in ("same_string_all_triples", "mac_languages"):
        # the same text stored under many (platform, encoding, language) triples -- each record has to be encoded
        # with the codec of its own triple; Mac language ids select different codecs for the same encoding id
        for _ in range(rnd.randint(1, 4)):
            langs = rnd.sample(_MAC_LANG_CODECS, rnd.randint(2, 7))
            others = []
            if shape == "same_string_all_triples":
                others = rnd.sample([e for e in NAME_ENCODINGS if e[3] in ("utf-16", "mac_greek", "mac_cyrillic", "latin-1")], rnd.randint(1, 5))
            s = _common_string(rnd, [c for l, c in langs], rnd.choice([1, 2, 6, 20]))
            nids = rnd.sample([0, 1, 2, 4, 5, 6, 16, 256, 300], rnd.randint(1, 3))
            for nid in nids:
                for l, codec in langs:
                    recs[(1, 0, l, nid)] = (1, 0, l, nid, s, codec)
                for p, e, l, codec, alpha in others:
                    recs[(p, e, l, nid)] = (p, e, l, nid, s, codec)      # the driver strips what the codec cannot encode
        out = list(recs.values())
        rnd.shuffle(out)
        return out
    if shape == "unicode":
        encs = [e for e in NAME_ENCODINGS if e[3] == "utf-16"]
    elif shape == "surrogates":
        encs = [e for e in NAME_ENCODINGS if e[3] == "utf-16" and _ASTRAL[0] in e[4]]
    elif shape == "mac":
        encs = [e for e in NAME_ENCODINGS if e[0] == 1]
    elif shape == "legacy":
        encs = [e for e in NAME_ENCODINGS if e[0] in (2, 3) and e[3] != "utf-16"]
    else:
        encs = NAME_ENCODINGS
    count = {"many": rnd.randint(150, 600), "long": 6}.get(shape, rnd.randint(1, 30))
    shared = ["Shared String", "Regular", "", "é"]
    for _ in range(count):
        p, e, l, codec, alpha = rnd.choice(encs)
        if rnd.random() < 0.3 and codec == "utf-16" and p == 3:
            l = rnd.choice([0x409, 0x407, 0x40C, 0x411, 0x804, 0x0C0A])
        nid = rnd.choice([0, 1, 2, 3, 4, 5, 6, 16, 17, 25, 255, 256, 300, 32767, 65535, rnd.randrange(65536)])
        if shape == "surrogates":
            ln = rnd.choice([1, 2, 3, 17])
            s = "".join(rnd.choice(_ASTRAL + "Aé") for _ in range(ln))
            if not any(ord(c) > 0xFFFF for c in s):
                s += rnd.choice(_ASTRAL)
        elif shape == "shared_strings":
            s = rnd.choice(shared)
            if any(c not in alpha for c in s):
                s = "Regular"
        elif shape == "empty_strings" and rnd.random() < 0.5:
            s = ""
        else:
            ln = rnd.choice([0, 1, 2, 5, 20, 63]) if shape != "long" else rnd.choice([1000, 4000, 8000])
            s = "".join(rnd.choice(alpha) for _ in range(ln))
        recs[(p, e, l, nid)] = (p, e, l, nid, s, codec)
    out = list(recs.values())
    rnd.shuffle(out)
    return out


# ---------------------------------------------------------------- kern
KERN_SHAPES = ["empty", "single", "few", "grid", "extremes", "apple", "coverage_bits", "two_subtables", "many"]


def gen_kern(rnd, shape, n):
    """-> dict(version 0 | 1.0, subtables [dict(coverage, tupleIndex, pairs {(l, r): v})])"""
    def pairs(k):
        d = {}
        for _ in range(k):
            d[(rnd.randrange(n), rnd.randrange(n))] = rnd.choice([0, 1, -1, -50, 120, -32768, 32767, rnd.randint(-500, 500)])
        return d
    ver = 0
    cov = 1
    if shape == "empty":
        subs = [{"coverage": 1, "pairs": {}}]
    elif shape == "single":
        subs = [{"coverage": 1, "pairs": pairs(1)}]
    elif shape == "few":
        subs = [{"coverage": 1, "pairs": pairs(rnd.randint(2, 40))}]
    elif shape == "grid":
        k = min(n, rnd.randint(2, 30))
        ls = rnd.sample(range(n), k)
        rs = rnd.sample(range(n), k)
        subs = [{"coverage": 1, "pairs": {(l, r): rnd.randint(-200, 200) for l in ls for r in rs}}]
    elif shape == "extremes":
        d = {(0, 0): -32768, (n - 1, n - 1): 32767, (0, n - 1): 0, (n - 1, 0): -1}
        subs = [{"coverage": 1, "pairs": d}]
    elif shape == "apple":
        ver = 1.0
        subs = [{"coverage": rnd.choice([0, 0x80, 0x40]), "tupleIndex": rnd.choice([0, 0, 3]), "pairs": pairs(rnd.randint(0, 40))}
                for _ in range(rnd.randint(1, 3))]
    elif shape == "coverage_bits":
        subs = [{"coverage": rnd.choice([0, 1, 2, 3, 5, 9, 0x0B]), "pairs": pairs(rnd.randint(1, 20))}]
    elif shape == "two_subtables":
        subs = [{"coverage": 1, "pairs": pairs(rnd.randint(1, 30))}, {"coverage": rnd.choice([1, 9]), "pairs": pairs(rnd.randint(1, 30))}]
    elif shape == "many":
        subs = [{"coverage": 1, "pairs": pairs(rnd.choice([3000, 10920, 10921, 12000]))}]
    else:
        raise ValueError(shape)
    for s in subs:
        s.setdefault("tupleIndex", None)
    return {"version": ver, "subtables": subs}


# ---------------------------------------------------------------- post
POST_SHAPES = ["custom", "standard", "mixed", "long_names", "format3", "many", "lookalike", "mapping"]
_STD_SAMPLE = ["space", "exclam", "A", "B", "a", "z", "Adieresis", "dcroat", "nonmarkingreturn", ".null", "franc", "apple"]


def gen_post(rnd, shape, n):
    """-> dict(formatType 2.0|3.0, names [n unique glyph names, first is .notdef], header {...})"""
    header = {
        "italicAngle": rnd.choice([0.0, -12.5, 9.75, -0.0000152587890625, 32767.5, -32768.0]),
        "underlinePosition": rnd.choice([0, -75, -32768, 32767]),
        "underlineThickness": rnd.choice([0, 50, 32767]),
        "isFixedPitch": rnd.choice([0, 1, 0xFFFFFFFF]),
        "minMemType42": rnd.choice([0, 12345, 0xFFFFFFFF]),
        "maxMemType42": rnd.choice([0, 99999]),
        "minMemType1": rnd.choice([0, 7]),
        "maxMemType1": rnd.choice([0, 0x80000000]),
    }
    if shape == "many":
        n = max(n, 3000)
    names = [".notdef"]
    seen = {".notdef"}
    std = [s for s in _STD_SAMPLE]
    rnd.shuffle(std)
    i = 0
    while len(names) < n:
        i += 1
        r = rnd.random()
        if shape == "standard" or (shape == "mixed" and r < 0.4):
            nm = std.pop() if std else "uni%04X" % (0xE000 + i)
        elif shape == "long_names":
            # OpenType: glyph names are at most 63 characters (FreeType rejects longer Pascal strings)
            ln = rnd.choice([5, 31, 62, 63])
            nm = ("L%d_" % i + "x" * 63)[:ln]
        elif shape == "lookalike":
            # names that resemble the library's own fallback / de-duplication scheme
            nm = rnd.choice(["glyph%05d" % rnd.randrange(n), "a.%d" % rnd.randrange(3), "a", "A.1", "space.1", "uni0041", "gid%d" % i, "a#1"])
        else:
            nm = rnd.choice(["g%d" % i, "glyph.alt%d" % i, "u%05X" % (0x10000 + i), "_%d" % i, "A_B_%d.liga" % i])
        if nm in seen or not nm:
            nm = "n%d" % i
            if nm in seen:
                continue
        seen.add(nm)
        names.append(nm)
    mapping = {}
    if shape == "mapping":
        # in-memory glyph names that differ from the PostScript names to be stored (post.mapping)
        for i, nm in enumerate(names[1:], 1):
            if rnd.random() < 0.6:
                mapping[nm] = rnd.choice(["ps_%d" % i, "A", "space", "uni%04X" % (0x41 + i), "dup"])
    return {"formatType": 3.0 if shape == "format3" else 2.0, "names": names, "header": header, "mapping": mapping}


# ---------------------------------------------------------------- OS/2
def gen_os2(rnd, version):
    h = lambda: rnd.choice([0, 1, -1, 32767, -32768, rnd.randint(-3000, 3000)])
    H = lambda: rnd.choice([0, 1, 65535, 32768, rnd.randint(0, 3000)])
    L = lambda: rnd.choice([0, 1, 0xFFFFFFFF, 0x80000000, rnd.getrandbits(32)])
    d = {
        "version": version, "xAvgCharWidth": h(), "usWeightClass": rnd.choice([1, 100, 400, 700, 1000, 65535]),
        "usWidthClass": rnd.choice([1, 5, 9, 0, 65535]), "fsType": rnd.choice([0, 2, 4, 8, 0x100, 0x200, 0xFFFF]),
        "ySubscriptXSize": h(), "ySubscriptYSize": h(), "ySubscriptXOffset": h(), "ySubscriptYOffset": h(),
        "ySuperscriptXSize": h(), "ySuperscriptYSize": h(), "ySuperscriptXOffset": h(), "ySuperscriptYOffset": h(),
        "yStrikeoutSize": h(), "yStrikeoutPosition": h(), "sFamilyClass": h(),
        "panose": [rnd.randrange(256) for _ in range(10)],
        "ulUnicodeRange1": L(), "ulUnicodeRange2": L(), "ulUnicodeRange3": L(), "ulUnicodeRange4": L(),
        "achVendID": rnd.choice(["NONE", "ADBE", "ab  ", "1234", "A~B!"]),
        "fsSelection": rnd.choice([0, 0x40, 0x01, 0x20, 0x21, 0x80, 0x100, 0x3FF]) if version >= 4 else rnd.choice([0, 0x40, 0x01, 0x20, 0x21]),
        "usFirstCharIndex": H(), "usLastCharIndex": H(),
        "sTypoAscender": h(), "sTypoDescender": h(), "sTypoLineGap": h(), "usWinAscent": H(), "usWinDescent": H(),
    }
    if version >= 1:
        d["ulCodePageRange1"], d["ulCodePageRange2"] = L(), L()
    if version >= 2:
        d.update({"sxHeight": h(), "sCapHeight": h(), "usDefaultChar": H(), "usBreakChar": H(), "usMaxContext": H()})
    if version >= 5:
        lo = rnd.choice([0, 1, 160, 65534, rnd.randrange(65535)])      # twips
        hi_ = rnd.choice([65535, lo + 1, rnd.randrange(lo, 65536)])
        d["usLowerOpticalPointSize"], d["usUpperOpticalPointSize"] = lo, min(65535, hi_)
    return d
