"""HarfBuzz helpers shared by the C07 (subset) and C18 (merge) checks: shaping with
explicit OpenType script/language tags, "safe" code points whose Unicode properties do
not make HarfBuzz consult glyphs outside the text, glyph comparison by name."""
import unicodedata

import uharfbuzz as hb

from . import geom
from .hbft import HB, RecPen  # noqa: F401

PUA = 0xF0000
TOL = 0.02  # HarfBuzz float32 outlines of the same data; DESIGN §3.4


def iso_script(ot_tag):
    if not ot_tag or ot_tag in ("DFLT", "dflt"):
        return "Zyyy"
    return hb.ot_tag_to_script(ot_tag) or "Zyyy"


def shape(h, cps, features=None, script="DFLT", lang="dflt", direction="ltr"):
    """-> [(gid, cluster, xa, ya, xo, yo)] with OpenType script/language tags."""
    buf = hb.Buffer()
    buf.add_codepoints(list(cps))
    buf.direction = direction
    buf.script = iso_script(script)
    if lang and lang != "dflt":
        buf.set_language_from_ot_tag(lang)
    else:
        buf.language = "dflt"
    buf.cluster_level = hb.BufferClusterLevel.MONOTONE_CHARACTERS
    hb.shape(h.font, buf, features or {})
    return [(i.codepoint, i.cluster, p.x_advance, p.y_advance, p.x_offset, p.y_offset)
            for i, p in zip(buf.glyph_infos, buf.glyph_positions)]


def shape_trace(h, cps, features=None, script="DFLT", lang="dflt", direction="ltr"):
    """Every glyph id that is in the buffer at any point of shaping (HarfBuzz message callback)."""
    buf = hb.Buffer()
    buf.add_codepoints(list(cps))
    buf.direction = direction
    buf.script = iso_script(script)
    if lang and lang != "dflt":
        buf.set_language_from_ot_tag(lang)
    else:
        buf.language = "dflt"
    buf.cluster_level = hb.BufferClusterLevel.MONOTONE_CHARACTERS
    seen = set()

    def cb(_msg):
        for gi in buf.glyph_infos:
            seen.add(gi.codepoint)
        return True

    buf.set_message_func(cb)
    hb.shape(h.font, buf, features or {})
    for gi in buf.glyph_infos:
        seen.add(gi.codepoint)
    return seen


def named(res, order):
    return [((order[g] if g < len(order) else "gid%d" % g), cl, xa, ya, xo, yo) for g, cl, xa, ya, xo, yo in res]


_JAMO = ((0x1100, 0x11FF), (0xA960, 0xA97F), (0xD7B0, 0xD7FF))
_DI = ((0x00AD, 0x00AD), (0x034F, 0x034F), (0x061C, 0x061C), (0x115F, 0x1160), (0x17B4, 0x17B5), (0x180B, 0x180F),
       (0x200B, 0x200F), (0x202A, 0x202E), (0x2060, 0x206F), (0x3164, 0x3164), (0xFE00, 0xFE0F), (0xFEFF, 0xFEFF),
       (0xFFA0, 0xFFA0), (0xFFF0, 0xFFF8), (0x1BCA0, 0x1BCA3), (0x1D173, 0x1D17A), (0xE0000, 0xE0FFF))


def is_private(cp):
    return 0xE000 <= cp <= 0xF8FF or 0xF0000 <= cp <= 0xFFFFD or 0x100000 <= cp <= 0x10FFFD


def safe_cp(cp):
    """Code points for which HarfBuzz' Unicode-driven steps (normalisation, mark
    reordering, default-ignorable hiding, jamo composition, space/hyphen fallback,
    dotted-circle insertion) never look at a glyph outside the text itself."""
    if is_private(cp):
        return True
    if cp < 0x20 or 0x7F <= cp < 0xA0 or cp > 0x10FFFF or 0xD800 <= cp <= 0xDFFF:
        return False
    for lo, hi in _DI + _JAMO:
        if lo <= cp <= hi:
            return False
    ch = chr(cp)
    cat = unicodedata.category(ch)
    if cat[0] in "MC" or cat in ("Zl", "Zp"):
        return False
    if unicodedata.combining(ch):
        return False
    if unicodedata.decomposition(ch) and not unicodedata.decomposition(ch).startswith("<"):
        # canonically decomposable: HarfBuzz may decompose it when that helps a mark; keep texts mark-free anyway
        return True
    return True


def axis_locations(h, rnd, n_random=2, corners=False):
    """User-space locations from HarfBuzz' own reading of fvar."""
    axes = h.face.axis_infos
    if not axes:
        return [None]
    locs = [None]
    for _ in range(n_random):
        locs.append({a.tag: round(rnd.uniform(a.min_value, a.max_value), 2) for a in axes})
    if corners:
        locs.append({a.tag: a.min_value for a in axes})
        locs.append({a.tag: a.max_value for a in axes})
    return locs


def glyph_diff(ha, ga, hb_, gb, vertical=False):
    """Compare one glyph in two HarfBuzz fonts -> None or (field, detail)."""
    if ha.h_advance(ga) != hb_.h_advance(gb):
        return "h_advance", "%s vs %s" % (ha.h_advance(ga), hb_.h_advance(gb))
    if vertical and ha.v_advance(ga) != hb_.v_advance(gb):
        return "v_advance", "%s vs %s" % (ha.v_advance(ga), hb_.v_advance(gb))
    if vertical == "origin":
        oa, ob = ha.font.get_glyph_v_origin(ga), hb_.font.get_glyph_v_origin(gb)
        if oa != ob:
            return "v_origin", "%s vs %s" % (oa, ob)
    oa, ob = ha.outline(ga), hb_.outline(gb)
    if oa != ob:
        ok, _stage, why = geom.outlines_match(oa, ob, TOL)
        if not ok:
            return "outline", why
    return None


def color_layers(h, gid, order):
    """COLR v0 layers resolved to (glyph name, RGBA) so that CPAL re-indexing is invisible."""
    try:
        layers = h.face.get_glyph_color_layers(gid)
    except Exception:
        return None
    pals = h.face.color_palettes if h.face.has_color_palettes else []
    out = []
    for l in layers:
        ci = l.color_index
        if ci == 0xFFFF or not pals:
            col = "fg"
        else:
            cols = pals[0].colors
            c = cols[ci] if ci < len(cols) else None
            col = (c.red, c.green, c.blue, c.alpha) if c is not None else "bad-index-%d" % ci
        out.append((order[l.glyph] if l.glyph < len(order) else "gid%d" % l.glyph, col))
    return out


def math_record(h, gid, order):
    """MATH data attached to one glyph, glyph ids translated to names."""
    f = h.font
    name = lambda g: order[g] if g < len(order) else "gid%d" % g
    rec = {}
    rec["italics"] = f.get_math_glyph_italics_correction(gid)
    rec["topaccent"] = f.get_math_glyph_top_accent_attachment(gid)
    rec["extended"] = h.face.is_glyph_extended_math_shape(gid)
    for d in ("ltr", "ttb"):
        try:
            rec["variants-" + d] = [(name(v.glyph), v.advance) for v in f.get_math_glyph_variants(gid, d)]
            parts, ic = f.get_math_glyph_assembly(gid, d)
            rec["assembly-" + d] = ([(name(p.glyph), p.start_connector_length, p.end_connector_length, p.full_advance, int(p.flags)) for p in parts], ic)
        except Exception as e:  # pragma: no cover
            rec["err-" + d] = repr(e)
    return rec
