"""Same two-stage outline comparison as vmon.oracle.geom (§3.4), with the sampled
Hausdorff distance of stage 2 vectorised with numpy (geom's pure-Python version is
quadratic and dominates on large CFF fonts).  Semantics are those of
geom.geometric_eq: same number of non-degenerate contours; per contour signed area
within 1e-6*|A| + 1.5*tol*perimeter, bounds within 1.5*tol, symmetric Hausdorff distance of
the 16-samples-per-segment polylines within 1.5*tol."""
import numpy as np

from . import geom


def _pt_polyline_dist(P, Q):
    """max over points of P of the distance to polyline Q (arrays n x 2)."""
    if len(Q) == 1:
        return float(np.max(np.hypot(P[:, 0] - Q[0, 0], P[:, 1] - Q[0, 1])))
    A = Q[:-1]
    B = Q[1:]
    D = B - A                                   # (n,2)
    L = (D * D).sum(axis=1)                     # (n,)
    worst = 0.0
    # chunk over P to bound memory
    step = max(1, 200000 // max(1, len(A)))
    for s in range(0, len(P), step):
        p = P[s:s + step]                       # (m,2)
        AP = p[:, None, :] - A[None, :, :]      # (m,n,2)
        with np.errstate(divide="ignore", invalid="ignore"):
            t = (AP * D[None, :, :]).sum(axis=2) / L[None, :]
        t = np.where(L[None, :] == 0, 0.0, t)
        t = np.clip(t, 0.0, 1.0)
        C = A[None, :, :] + t[:, :, None] * D[None, :, :]
        d = np.hypot(p[:, None, 0] - C[:, :, 0], p[:, None, 1] - C[:, :, 1])
        w = float(d.min(axis=1).max())
        if w > worst:
            worst = w
    return worst


def dusted(contours, eps):
    """Drop segments all of whose control points lie within eps of their start point
    (float dust: a 1e-5-long line in one engine that is exactly zero in the other)."""
    out = []
    for c in contours:
        segs = [s for s in c["segs"] if any(abs(p[0] - s[1][0]) > eps or abs(p[1] - s[1][1]) > eps for p in s[2:])]
        out.append({"closed": c["closed"], "segs": segs, "start": c["start"]})
    return out


def hausdorff(c1, c2, per_seg=16):
    P, Q = geom.polyline(c1, per_seg), geom.polyline(c2, per_seg)
    if not P or not Q:
        return 0.0 if (not P and not Q) else float("inf")
    P = np.asarray(P, dtype=float)
    Q = np.asarray(Q, dtype=float)
    return max(_pt_polyline_dist(P, Q), _pt_polyline_dist(Q, P))


def geometric_eq(A, B, tol, ordered=True, per_seg=16):
    A, B = geom.nondegenerate(A), geom.nondegenerate(B)
    if len(A) != len(B):
        return False, "contour count %d vs %d" % (len(A), len(B))
    pairs = list(zip(A, B))
    if not ordered:
        rest = list(B)
        pairs = []
        for a in A:
            ba = geom.bounds_of(geom.polyline(a, 4))
            j = min(range(len(rest)), key=lambda k: sum(abs(x - y) for x, y in zip(ba, geom.bounds_of(geom.polyline(rest[k], 4)))))
            pairs.append((a, rest.pop(j)))
    for i, (a, b) in enumerate(pairs):
        if a["closed"] != b["closed"]:
            return False, "contour %d open/closed differs" % i
        pa = geom.contour_perimeter_bound(a)
        ar_a, ar_b = geom.contour_area(a), geom.contour_area(b)
        if abs(ar_a - ar_b) > 1e-6 * abs(ar_a) + tol * max(pa, 1.0) * 1.5:
            return False, "contour %d signed area %.4f vs %.4f" % (i, ar_a, ar_b)
        ba, bb = geom.bounds_of(geom.polyline(a)), geom.bounds_of(geom.polyline(b))
        if any(abs(x - y) > tol * 1.5 + 1e-9 for x, y in zip(ba, bb)):
            return False, "contour %d bounds %s vs %s" % (i, ba, bb)
        h = hausdorff(a, b, per_seg)
        if h > tol * 1.5 + 1e-9:
            return False, "contour %d hausdorff %.4f" % (i, h)
    return True, ""


def match_canon(A, B, tol, ordered=True, per_seg=16):
    """stage 1: structural match (exact canonical form, then with dust segments of
    length <= tol/2 removed on both sides); stage 2: geometric match."""
    if geom.structural_eq(A, B, tol, ordered=ordered):
        return True, 1, ""
    if geom.structural_eq(dusted(A, tol / 2), dusted(B, tol / 2), tol, ordered=ordered):
        return True, 1, ""
    ok, why = geometric_eq(A, B, tol, ordered=ordered, per_seg=per_seg)
    return ok, 2, why


def outlines_match(recA, recB, tol, ordered=True, per_seg=16):
    """Two-stage comparison. -> (ok, stage, reason)"""
    return match_canon(geom.canon(recA), geom.canon(recB), tol, ordered, per_seg)
