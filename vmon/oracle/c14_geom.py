"""Exact geometric reference model for C14 (pen adapters preserve geometry).

Independent of fontTools.  Everything is computed in `fractions.Fraction`
(floats are converted exactly), so pass-through adapters can be compared with
tolerance 0 and only genuine floating point work of an adapter needs a tolerance.

Vocabulary
----------
record        list of (operator, args) as produced by RecordingPen
point record  list of ('beginPath', {}) / ('addPoint', (pt, segType, smooth, name, ident))
              / ('endPath',) / ('addComponent', (name, T, ident))
contour       dict(closed, start, segs=[('l',p0,p1)|('q',p0,c,p1)|('c',p0,c1,c2,p1)], has_move, raw)
item          ('contour', contour) | ('comp', name, T)     -- a record in canonical form

Pen protocol semantics implemented here (from the AbstractPen docstrings):
* curveTo with n off-curves: n == 0 line, n == 1 quadratic, n == 2 cubic, n > 2
  "super-Bezier" split into n-1 cubics (decomposeSuperBezierSegment docstring);
* qCurveTo with k off-curves: TrueType implied on-curve points in the middle of two
  consecutive off-curves; last argument None = closed contour without on-curve point,
  starting at the implied point between the last and the first off-curve;
* closePath draws the implied closing line back to the moveTo point.
"""
import math
from fractions import Fraction as F

HALF = F(1, 2)


# ------------------------------------------------------------------ numbers
def fr(v):
    if isinstance(v, F):
        return v
    if isinstance(v, bool):
        return F(int(v))
    if isinstance(v, int):
        return F(v)
    return F(float(v))


def P(p):
    return (fr(p[0]), fr(p[1]))


def fl(p):
    return (float(p[0]), float(p[1]))


def norm_T(t):
    return tuple(fr(v) for v in t)


IDENT = (F(1), F(0), F(0), F(1), F(0), F(0))


def norm_rec(rec):
    """Library recording -> record over Fractions (tuples only)."""
    out = []
    for op, args in rec:
        if op == "addComponent":
            out.append((op, (args[0], norm_T(args[1]))))
        elif op in ("closePath", "endPath"):
            out.append((op, ()))
        else:
            out.append((op, tuple(None if a is None else P(a) for a in args)))
    return out


# ------------------------------------------------------------------ affine
def apply_T(t, p):
    xx, xy, yx, yy, dx, dy = t
    x, y = p
    return (xx * x + yx * y + dx, xy * x + yy * y + dy)


def compose(outer, inner):
    """p -> outer(inner(p))"""
    a, b, c, d, e, f = outer
    A, B, C, D, E, G = inner
    return (a * A + c * B, b * A + d * B, a * C + c * D, b * C + d * D, a * E + c * G + e, b * E + d * G + f)


def det(t):
    return t[0] * t[3] - t[1] * t[2]


def inverse_T(t):
    xx, xy, yx, yy, dx, dy = t
    d = det(t)
    ixx, ixy, iyx, iyy = yy / d, -xy / d, -yx / d, xx / d
    return (ixx, ixy, iyx, iyy, -(ixx * dx + iyx * dy), -(ixy * dx + iyy * dy))


def rnd_half_up(v):
    """floor(v + 1/2): the documented otRound."""
    return F((v + HALF).__floor__())


def near_tie(v, eps=F(1, 10 ** 9)):
    """True if v is within eps of k + 1/2 (rounding decided by float dust)."""
    frac = v - v.__floor__()
    return abs(frac - HALF) <= eps and frac != HALF


def maybe_round(v, tol):
    r = rnd_half_up(v)
    return r if abs(r - v) <= tol else v


# ------------------------------------------------------------------ record-level maps
def map_rec(rec, f, comp=None):
    """Apply point map f to every point; comp(name, T) -> (name, T') for components."""
    out = []
    for op, args in rec:
        if op == "addComponent":
            out.append((op, comp(*args) if comp else args))
        else:
            out.append((op, tuple(None if a is None else f(a) for a in args)))
    return out


def flatten(rec, glyphset, T=None, depth=0, reverse_flipped=False):
    """Resolve components through `glyphset` (name -> record over Fractions).
    A component draws its base glyph with every point mapped by its transform;
    nested components compose (inner first).  -> (record without components,
    list of bools 'contour came from a flipped component and must be reversed')"""
    out, flips = [], []
    _flatten(rec, glyphset, T, depth, reverse_flipped, False, out, flips)
    return out, flips


def _flatten(rec, glyphset, T, depth, reverse_flipped, flip, out, flips):
    if depth > 8:
        raise ValueError("component recursion")
    for op, args in rec:
        if op == "addComponent":
            name, t = args
            if name not in glyphset:
                continue
            tt = t if T is None else compose(T, t)
            sub_flip = flip
            if reverse_flipped and det(t) < 0:
                sub_flip = not flip
            _flatten(glyphset[name], glyphset, tt, depth + 1, reverse_flipped, sub_flip, out, flips)
        else:
            if T is None:
                out.append((op, args))
            else:
                out.append((op, tuple(None if a is None else apply_T(T, a) for a in args)))
            if op in ("closePath", "endPath"):
                flips.append(flip)


# ------------------------------------------------------------------ canonical contours
def _mid(a, b):
    return ((a[0] + b[0]) / 2, (a[1] + b[1]) / 2)


def _lerp(a, b, t):
    return (a[0] + (b[0] - a[0]) * t, a[1] + (b[1] - a[1]) * t)


def split_super(points):
    """[c0..c_{n-1}, end] (n > 2) -> [(c1, c2, end)...]; the rule of the
    decomposeSuperBezierSegment docstring/algorithm, in exact arithmetic."""
    n = len(points) - 1
    segs = []
    pt1, pt2 = points[0], None
    for i in range(2, n + 1):
        ndiv = min(i, 3, n - i + 2)
        for j in range(1, ndiv):
            temp = _lerp(points[i - 2], points[i - 1], F(j, ndiv))
            if pt2 is None:
                pt2 = temp
            else:
                segs.append((pt1, pt2, _mid(pt2, temp)))
                pt1, pt2 = temp, None
    segs.append((pt1, points[-2], points[-1]))
    return segs


def zero_len(seg):
    p0 = seg[1]
    return all(p == p0 for p in seg[2:])


def canon(rec):
    """record (no components) -> list of contours."""
    contours = []
    cur = None

    def flush(closed):
        nonlocal cur
        if cur is None:
            return
        if closed and cur["pt"] != cur["start"]:
            cur["segs"].append(("l", cur["pt"], cur["start"]))
        cur["closed"] = closed
        cur["end"] = cur["start"] if closed else cur["pt"]
        del cur["pt"]
        contours.append(cur)
        cur = None

    for op, args in rec:
        if op == "moveTo":
            if cur is not None:
                flush(False)
            p = args[0]
            cur = {"start": p, "pt": p, "segs": [], "has_move": True, "raw": [(op, args)]}
            continue
        if op == "qCurveTo" and args[-1] is None:
            if cur is not None:
                flush(False)
            offs = list(args[:-1])
            s = _mid(offs[-1], offs[0])
            cur = {"start": s, "pt": s, "segs": [], "has_move": False, "raw": [(op, args)]}
            n = len(offs)
            for i in range(n):
                e = _mid(offs[i], offs[(i + 1) % n])
                cur["segs"].append(("q", cur["pt"], offs[i], e))
                cur["pt"] = e
            continue
        if cur is None:
            if op in ("closePath", "endPath"):
                continue
            raise ValueError("segment without moveTo: %r" % (op,))
        cur["raw"].append((op, args))
        if op == "lineTo":
            cur["segs"].append(("l", cur["pt"], args[0]))
            cur["pt"] = args[0]
        elif op == "qCurveTo":
            pts = list(args)
            if len(pts) == 1:
                cur["segs"].append(("l", cur["pt"], pts[0]))
                cur["pt"] = pts[0]
            else:
                for i in range(len(pts) - 1):
                    e = _mid(pts[i], pts[i + 1]) if i < len(pts) - 2 else pts[-1]
                    cur["segs"].append(("q", cur["pt"], pts[i], e))
                    cur["pt"] = e
        elif op == "curveTo":
            pts = list(args)
            if len(pts) == 1:
                cur["segs"].append(("l", cur["pt"], pts[0]))
            elif len(pts) == 2:
                cur["segs"].append(("q", cur["pt"], pts[0], pts[1]))
            elif len(pts) == 3:
                cur["segs"].append(("c", cur["pt"], pts[0], pts[1], pts[2]))
            else:
                p = cur["pt"]
                for c1, c2, e in split_super(pts):
                    cur["segs"].append(("c", p, c1, c2, e))
                    p = e
            cur["pt"] = pts[-1]
        elif op == "closePath":
            flush(True)
        elif op == "endPath":
            flush(False)
        elif op == "addComponent":
            raise ValueError("canon() needs a flattened record")
        else:
            raise ValueError(op)
    if cur is not None:
        flush(False)
    return contours


def items(rec):
    """record with components -> ordered items."""
    out = []
    buf = []
    for op, args in rec:
        if op == "addComponent":
            if buf:
                out.extend(("contour", c) for c in canon(buf))
                buf = []
            out.append(("comp", args[0], args[1]))
        else:
            buf.append((op, args))
    if buf:
        out.extend(("contour", c) for c in canon(buf))
    return out


class Amb(F):
    """An expected coordinate k+1/2 whose rounding is decided by floating point dust in the
    adapter: both neighbours k and k+1 are acceptable."""


def _c_close(x, y, tol):
    if type(x) is Amb or type(y) is Amb:
        return abs(F(x) - F(y)) <= max(tol, HALF)
    if tol == 0:
        return x == y
    return abs(x - y) <= tol


def _pt_close(a, b, tol):
    return _c_close(a[0], b[0], tol) and _c_close(a[1], b[1], tol)


def nz(c, tol=0):
    if tol:
        return [s for s in c["segs"] if not all(_pt_close(p, s[1], tol) for p in s[2:])]
    return [s for s in c["segs"] if not zero_len(s)]


def degenerate(c, tol=0):
    return not nz(c, tol)


def all_points(contours):
    pts = []
    for c in contours:
        pts.append(c["start"])
        for s in c["segs"]:
            pts.extend(s[1:])
    return pts


def magnitude(contours):
    m = F(1)
    for p in all_points(contours):
        m = max(m, abs(p[0]), abs(p[1]))
    return m


# ------------------------------------------------------------------ contour-level transforms
def map_contour(c, f):
    d = dict(c)
    d["start"] = f(c["start"])
    d["end"] = f(c["end"])
    d["segs"] = [(s[0],) + tuple(f(p) for p in s[1:]) for s in c["segs"]]
    return d


def reverse_contour(c):
    """Documented: winding direction reversed; a closed contour keeps its first
    point, an open contour starts at its former end."""
    d = dict(c)
    d["segs"] = [(s[0],) + tuple(reversed(s[1:])) for s in reversed(c["segs"])]
    if not c["closed"]:
        d["start"], d["end"] = c["end"], c["start"]
    return d


def close_contour(c):
    if c["closed"]:
        return c
    d = dict(c)
    d["segs"] = list(c["segs"])
    if c["end"] != c["start"]:
        d["segs"].append(("l", c["end"], c["start"]))
    d["closed"] = True
    d["end"] = c["start"]
    return d


def elevate_contour(c):
    """quadratic -> cubic, exactly (c1 = p0 + 2/3 (q - p0), c2 = p1 + 2/3 (q - p1))."""
    d = dict(c)
    segs = []
    t = F(2, 3)
    for s in c["segs"]:
        if s[0] == "q":
            p0, q, p1 = s[1:]
            segs.append(("c", p0, _lerp(p0, q, t), _lerp(p1, q, t), p1))
        else:
            segs.append(s)
    d["segs"] = segs
    return d


# ------------------------------------------------------------------ comparison
def _seg_eq(s, t, tol):
    return s[0] == t[0] and all(_pt_close(p, q, tol) for p, q in zip(s[1:], t[1:]))


def _segs_eq(sa, sb, closed, tol):
    if len(sa) != len(sb):
        return False
    n = len(sa)
    if n == 0:
        return True
    if not closed:
        return all(_seg_eq(sa[i], sb[i], tol) for i in range(n))
    for r in range(n):
        if _seg_eq(sa[0], sb[r], tol) and all(_seg_eq(sa[i], sb[(i + r) % n], tol) for i in range(1, n)):
            return True
    return False


def contour_match(e, g, tol, level):
    """level 1: geometry (zero-length segments dropped); level 2: every point kept
    (zero-length segments are part of the cyclic segment list).  A contour with no
    segment of non-zero length is a bare point whatever its open/closed flag.
    -> '' or reason"""
    de, dg = degenerate(e, tol), degenerate(g, tol)
    if de or dg:
        if de != dg:
            return "degenerate vs non-degenerate contour"
        if not _pt_close(e["start"], g["start"], tol):
            return "bare point position"
        return ""
    if e["closed"] != g["closed"]:
        return "open/closed differs"
    se, sg = (nz(e, tol), nz(g, tol)) if level == 1 else (e["segs"], g["segs"])
    if len(se) != len(sg):
        return "segment count"
    if not _segs_eq(se, sg, e["closed"], tol):
        return "segments differ"
    return ""


def contours_match(E, G, tol, level=1, drop_points=False, start=False, ordered=True):
    """Ordered comparison (or greedy matching if not ordered).
    -> (ok, reason, index of first offending expected contour or None)"""
    if drop_points:
        idxE = [i for i, c in enumerate(E) if not degenerate(c, tol)]
        E2 = [E[i] for i in idxE]
        G2 = [c for c in G if not degenerate(c, tol)]
    else:
        idxE = list(range(len(E)))
        E2, G2 = E, G
    if not ordered:
        rest = list(G2)
        for k, e in enumerate(E2):
            for j, g in enumerate(rest):
                if not contour_match(e, g, tol, level):
                    del rest[j]
                    break
            else:
                return False, "no matching contour", idxE[k]
        if rest:
            return False, "extra contours", None
        return True, "", None
    for k, (e, g) in enumerate(zip(E2, G2)):
        why = contour_match(e, g, tol, level)
        if not why and start and not degenerate(e) and e.get("has_move") and g.get("has_move"):
            if not _pt_close(e["start"], g["start"], tol):
                why = "start point differs"
        if why:
            return False, why, idxE[k]
    if len(E2) != len(G2):
        k = min(len(E2), len(G2))
        return False, "contour count", (idxE[k] if k < len(E2) else None)
    return True, "", None


# ------------------------------------------------------------------ Green area (exact)
from math import comb

_W = [[F(comb(3, i) * comb(2, j), comb(5, i + j) * 6) for j in range(3)] for i in range(4)]


def _int_x_dy(xs, ys):
    tot = F(0)
    for i in range(4):
        for j in range(3):
            tot += xs[i] * 3 * (ys[j + 1] - ys[j]) * _W[i][j]
    return tot


def seg_area(s):
    """(1/2) * integral of (x dy - y dx) along one segment, exact."""
    if s[0] == "l":
        (x0, y0), (x1, y1) = s[1], s[2]
        return (x0 * y1 - x1 * y0) / 2
    if s[0] == "q":
        p0, q, p1 = s[1:]
        t = F(2, 3)
        s = ("c", p0, _lerp(p0, q, t), _lerp(p1, q, t), p1)
    xs = [p[0] for p in s[1:]]
    ys = [p[1] for p in s[1:]]
    return (_int_x_dy(xs, ys) - _int_x_dy(ys, xs)) / 2


def contour_area(c):
    return sum((seg_area(s) for s in c["segs"]), F(0))


def area_scale(contours):
    tot = F(1)
    for c in contours:
        for s in c["segs"]:
            m = max(max(abs(p[0]), abs(p[1])) for p in s[1:])
            tot += m * m
    return tot


# ------------------------------------------------------------------ bounds
def _eval(s, t):
    pts = [fl(p) for p in s[1:]]
    while len(pts) > 1:
        pts = [(a[0] + (b[0] - a[0]) * t, a[1] + (b[1] - a[1]) * t) for a, b in zip(pts, pts[1:])]
    return pts[0]


def _quad_roots(a, b, c):
    """real roots of a t^2 + b t + c (Fractions in, floats out), stable form."""
    if a == 0:
        if b == 0:
            return []
        return [float(-c / b)]
    disc = b * b - 4 * a * c
    if disc < 0:
        return []
    sq = math.sqrt(float(disc)) if disc < 10 ** 300 else float(math.isqrt(int(disc)))
    bf = float(b)
    q = -(bf + math.copysign(sq, bf)) / 2.0 if bf != 0 else -sq / 2.0
    roots = []
    if q != 0:
        roots.append(q / float(a))
        roots.append(float(c) / q)
    else:
        roots.append(0.0)
    return roots


def seg_extrema_ts(s):
    """parameters in (0,1) where x'(t) = 0 or y'(t) = 0"""
    ts = []
    if s[0] == "l":
        return ts
    for k in (0, 1):
        v = [p[k] for p in s[1:]]
        if s[0] == "q":
            # B'(t)/2 = (c - p0) + t (p0 - 2c + p1)
            a = v[0] - 2 * v[1] + v[2]
            b = v[1] - v[0]
            if a != 0:
                ts.append(float(-b / a))
        else:
            # B'(t)/3 = (p1-p0) + 2t (p0 - 2p1 + p2) + t^2 (-p0 + 3p1 - 3p2 + p3)
            a = -v[0] + 3 * v[1] - 3 * v[2] + v[3]
            b = 2 * (v[0] - 2 * v[1] + v[2])
            c = v[1] - v[0]
            ts.extend(_quad_roots(a, b, c))
    return [t for t in ts if 0.0 < t < 1.0]


def seg_bounds(s):
    pts = [fl(s[1]), fl(s[-1])]
    for t in seg_extrema_ts(s):
        pts.append(_eval(s, t))
    xs = [p[0] for p in pts]
    ys = [p[1] for p in pts]
    return (min(xs), min(ys), max(xs), max(ys))


def union(b1, b2):
    if b1 is None:
        return b2
    if b2 is None:
        return b1
    return (min(b1[0], b2[0]), min(b1[1], b2[1]), max(b1[2], b2[2]), max(b1[3], b2[3]))


def contours_bounds(contours, ignore_single=False, control=False):
    """Exact-extrema bounds (control=False) or min/max over all points (control=True).
    ignore_single: contours consisting of a lone moveTo are ignored."""
    b = None
    for c in contours:
        if ignore_single and c["has_move"] and len(c["raw"]) <= 2 and not c["segs"]:
            continue
        x, y = fl(c["start"])
        b = union(b, (x, y, x, y))
        for s in c["segs"]:
            if control:
                for p in s[1:]:
                    x, y = fl(p)
                    b = union(b, (x, y, x, y))
            else:
                b = union(b, seg_bounds(s))
    return b


def sample_points(contours, per_seg=7):
    out = []
    for c in contours:
        for s in c["segs"]:
            for k in range(1, per_seg + 1):
                out.append(_eval(s, k / (per_seg + 1.0)))
    return out


# ------------------------------------------------------------------ point-pen protocol
def rec_to_points(rec):
    """Segment record -> point record (UFO/PointPen convention), written from the
    protocol: an open contour starts with a 'move' point; in a closed contour the
    moveTo point is the on-curve point that ends the last segment, so a final
    on-curve point equal to the moveTo point is the same point (its segment type
    is the one of the closing segment), otherwise the closing segment is a line."""
    out = []
    cur = None
    for op, args in rec:
        if op == "addComponent":
            out.append(("addComponent", (args[0], args[1], None)))
        elif op == "moveTo":
            cur = [(args[0], "move")]
        elif op == "lineTo":
            cur.append((args[0], "line"))
        elif op == "curveTo":
            cur.extend((p, None) for p in args[:-1])
            cur.append((args[-1], "curve"))
        elif op == "qCurveTo":
            if args[-1] is None:
                cur = [(p, None) for p in args[:-1]]
            else:
                cur.extend((p, None) for p in args[:-1])
                cur.append((args[-1], "qcurve"))
        elif op in ("closePath", "endPath"):
            if cur is None:
                continue
            if op == "closePath" and cur[0][1] == "move":
                if len(cur) > 1 and cur[-1][1] is not None and cur[-1][0] == cur[0][0]:
                    cur[0] = cur.pop()
                else:
                    cur[0] = (cur[0][0], "line")
            out.append(("beginPath", {}))
            for p, t in cur:
                out.append(("addPoint", (p, t, False, None, None)))
            out.append(("endPath",))
            cur = None
    return out


def points_to_rec(prec):
    """Point record -> segment record, written from the PointPen protocol."""
    out = []
    cur = None
    for ent in prec:
        op = ent[0]
        if op == "addComponent":
            out.append(("addComponent", (ent[1][0], ent[1][1])))
        elif op == "beginPath":
            cur = []
        elif op == "addPoint":
            cur.append((ent[1][0], ent[1][1]))
        elif op == "endPath":
            pts, cur = cur, None
            if not pts:
                continue
            if pts[0][1] == "move":
                out.append(("moveTo", (pts[0][0],)))
                closed = False
                rest = pts[1:]
                # trailing off-curves of an open contour have no on-curve: dropped
            else:
                closed = True
                ons = [i for i, (p, t) in enumerate(pts) if t is not None]
                if not ons:
                    out.append(("qCurveTo", tuple(p for p, t in pts) + (None,)))
                    out.append(("closePath", ()))
                    continue
                k = ons[-1]
                # start at the last on-curve point; walk the cycle once
                out.append(("moveTo", (pts[k][0],)))
                rest = pts[k + 1:] + pts[:k + 1]
            offs = []
            for p, t in rest:
                if t is None:
                    offs.append(p)
                    continue
                if t == "line" or t == "move":
                    out.append(("lineTo", (p,)))
                elif t == "curve":
                    out.append(("curveTo", tuple(offs) + (p,)))
                elif t == "qcurve":
                    out.append(("qCurveTo", tuple(offs) + (p,)))
                else:
                    raise ValueError(t)
                offs = []
            out.append(("closePath" if closed else "endPath", ()))
    return out


def norm_prec(value):
    """RecordingPointPen.value -> point record over Fractions."""
    out = []
    for op, args, kwargs in value:
        if op == "beginPath":
            out.append(("beginPath", dict(kwargs)))
        elif op == "endPath":
            out.append(("endPath",))
        elif op == "addPoint":
            pt, st, smooth, name = args
            out.append(("addPoint", (P(pt), st, smooth, name, kwargs.get("identifier"))))
        elif op == "addComponent":
            out.append(("addComponent", (args[0], norm_T(args[1]), kwargs.get("identifier"))))
    return out


# ------------------------------------------------------------------ TrueType glyph data
ON, CUBIC = 0x01, 0x80


def glyf_to_rec(coords, flags, end_pts):
    """TrueType simple-glyph data -> segment record, from the TrueType/OpenType glyf
    rules: consecutive quadratic off-curve points have an implied on-curve point in
    the middle; a contour is closed; (glyf v1) cubic off-curves come in pairs with an
    implied on-curve point between pairs."""
    rec = []
    start = 0
    for end in end_pts:
        pts = [(P(coords[i]), flags[i] & ON, flags[i] & CUBIC) for i in range(start, end + 1)]
        start = end + 1
        if not pts:
            continue
        ons = [i for i, p in enumerate(pts) if p[1]]
        if not ons:
            if pts[0][2]:
                n = len(pts)
                if n % 2 or not all(p[2] for p in pts):
                    raise ValueError("cubic off-curves not in pairs")
                s = _mid(pts[-1][0], pts[0][0])
                rec.append(("moveTo", (s,)))
                for i in range(0, n, 2):
                    nxt = pts[(i + 2) % n][0]
                    rec.append(("curveTo", (pts[i][0], pts[i + 1][0], _mid(pts[i + 1][0], nxt))))
            else:
                if any(p[2] for p in pts):
                    raise ValueError("mixed quadratic and cubic off-curves")
                rec.append(("qCurveTo", tuple(p[0] for p in pts) + (None,)))
            rec.append(("closePath", ()))
            continue
        k = ons[0]
        cyc = pts[k + 1:] + pts[:k + 1]
        rec.append(("moveTo", (pts[k][0],)))
        offs = []
        for p, on, cu in cyc:
            if not on:
                offs.append((p, cu))
                continue
            if not offs:
                rec.append(("lineTo", (p,)))
            elif offs[0][1]:
                o = [q for q, _ in offs]
                if len(o) % 2 or not all(cu for _, cu in offs):
                    raise ValueError("cubic off-curves not in pairs")
                for i in range(0, len(o) - 2, 2):
                    rec.append(("curveTo", (o[i], o[i + 1], _mid(o[i + 1], o[i + 2]))))
                rec.append(("curveTo", (o[-2], o[-1], p)))
            else:
                if any(cu for _, cu in offs):
                    raise ValueError("mixed quadratic and cubic off-curves")
                rec.append(("qCurveTo", tuple(q for q, _ in offs) + (p,)))
            offs = []
        rec.append(("closePath", ()))
    return rec


# ------------------------------------------------------------------ description helpers
def contour_class(c):
    """Structural class of an input contour (for mechanisms and coverage keys)."""
    f = set()
    raw = c["raw"]
    if not c["has_move"]:
        f.add("blob")
        offs = raw[0][1][:-1]
        f.add("n%d" % min(len(offs), 4))
        if len(offs) > 1 and offs[0] == offs[-1]:
            f.add("first=last")
    else:
        f.add("closed" if c["closed"] else "open")
        if len(raw) <= 2 and not c["segs"]:
            f.add("single")
        for op, args in raw[1:]:
            if op == "lineTo":
                f.add("l")
            elif op == "qCurveTo":
                f.add("q%d" % min(len(args) - 1, 3))
            elif op == "curveTo":
                f.add("c%d" % min(len(args) - 1, 3))
        if c["closed"] and len(raw) > 2:
            last = [r for r in raw if r[0] in ("lineTo", "qCurveTo", "curveTo")]
            if last and last[-1][1][-1] == c["start"]:
                f.add("endsAtStart" + ("L" if last[-1][0] == "lineTo" else "C"))
    if degenerate(c) and c["segs"]:
        f.add("coincident")
    elif any(zero_len(s) for s in c["segs"]):
        f.add("dup")
    return "+".join(sorted(f))


def rec_class(contours, has_comp=False, frac=False):
    f = set()
    for c in contours:
        f.update(contour_class(c).split("+"))
    if has_comp:
        f.add("comp")
    if frac:
        f.add("frac")
    return "+".join(sorted(f))
