"""HarfBuzz and FreeType as independent oracles (DESIGN §3.3, §3.5)."""
import io

import uharfbuzz as hb

try:
    import freetype
except Exception:  # pragma: no cover
    freetype = None


class RecPen:
    """Minimal recording pen (not fontTools')."""

    def __init__(self):
        self.value = []

    def moveTo(self, p):
        self.value.append(("moveTo", (tuple(p),)))

    def lineTo(self, p):
        self.value.append(("lineTo", (tuple(p),)))

    def curveTo(self, *pts):
        self.value.append(("curveTo", tuple(tuple(p) for p in pts)))

    def qCurveTo(self, *pts):
        self.value.append(("qCurveTo", tuple(tuple(p) if p is not None else None for p in pts)))

    def closePath(self):
        self.value.append(("closePath", ()))

    def endPath(self):
        self.value.append(("endPath", ()))


class HB:
    def __init__(self, data, variations=None, normalized=None):
        self.blob = hb.Blob(data)
        self.face = hb.Face(self.blob)
        self.font = hb.Font(self.face)
        if variations:
            self.font.set_variations(dict(variations))
        if normalized is not None:
            self.font.set_var_coords_normalized(list(normalized))

    @property
    def upem(self):
        return self.face.upem

    @property
    def glyph_count(self):
        return self.face.glyph_count

    def outline(self, gid):
        pen = RecPen()
        self.font.draw_glyph_with_pen(gid, pen)
        return pen.value

    def h_advance(self, gid):
        return self.font.get_glyph_h_advance(gid)

    def v_advance(self, gid):
        return self.font.get_glyph_v_advance(gid)

    def nominal(self, cp):
        return self.font.get_nominal_glyph(cp)

    def variation_glyph(self, cp, vs):
        return self.font.get_variation_glyph(cp, vs)

    def normalized_coords(self):
        return list(self.font.get_var_coords_normalized())

    def shape(self, cps, features=None, script=None, language=None, direction="ltr"):
        buf = hb.Buffer()
        buf.add_codepoints(list(cps))
        buf.direction = direction
        buf.script = script or "Zyyy"
        buf.language = language or "dflt"
        buf.cluster_level = hb.BufferClusterLevel.MONOTONE_CHARACTERS
        hb.shape(self.font, buf, features or {})
        return [(i.codepoint, i.cluster, p.x_advance, p.y_advance, p.x_offset, p.y_offset)
                for i, p in zip(buf.glyph_infos, buf.glyph_positions)]

    def table_tags(self):
        return list(self.face.table_tags)


def shape_names(data, order, cps, features=None, variations=None, **kw):
    """Shape and translate glyph ids to names using the in-memory glyph order of the
    font that produced `data` (DESIGN §3.5)."""
    h = data if isinstance(data, HB) else HB(data, variations)
    out = []
    for gid, cl, xa, ya, xo, yo in h.shape(cps, features, **kw):
        out.append((order[gid] if gid < len(order) else "gid%d" % gid, xa, ya, xo, yo, cl))
    return out


# ---------------------------------------------------------------- FreeType
class FT:
    def __init__(self, data):
        if freetype is None:
            raise RuntimeError("freetype-py unavailable")
        self._stream = io.BytesIO(data)
        self.face = freetype.Face(self._stream)

    def set_coords(self, design_coords):
        self.face.set_var_design_coords(list(design_coords))

    def outline_points(self, gid):
        """-> (contours: list of list of (x, y, on_curve, cubic)), advance"""
        self.face.load_glyph(gid, freetype.FT_LOAD_NO_SCALE | freetype.FT_LOAD_NO_HINTING | freetype.FT_LOAD_NO_BITMAP)
        o = self.face.glyph.outline
        pts, tags, ends = list(o.points), list(o.tags), list(o.contours)
        contours = []
        start = 0
        for e in ends:
            contours.append([(pts[i][0], pts[i][1], bool(tags[i] & 1), bool(tags[i] & 2)) for i in range(start, e + 1)])
            start = e + 1
        return contours, self.face.glyph.metrics.horiAdvance

    def outline(self, gid):
        """As a pen record comparable through geom.canon."""
        contours, adv = self.outline_points(gid)
        rec = []
        for c in contours:
            if not c:
                continue
            rec.extend(_ft_contour_to_rec(c))
        return rec, adv

    def char_index(self, cp):
        return self.face.get_char_index(cp)

    def glyph_name(self, gid):
        return self.face.get_glyph_name(gid).decode("latin-1")


def _ft_contour_to_rec(c):
    n = len(c)
    cubic = any(p[3] for p in c if not p[2])
    on = [i for i, p in enumerate(c) if p[2]]
    if not on:
        # TrueType contour without on-curve points
        return [("qCurveTo", tuple((p[0], p[1]) for p in c) + (None,)), ("closePath", ())]
    s = on[0]
    pts = c[s:] + c[:s]
    rec = [("moveTo", ((pts[0][0], pts[0][1]),))]
    pending = []
    for p in pts[1:] + [pts[0]]:
        if p[2]:
            if not pending:
                rec.append(("lineTo", ((p[0], p[1]),)))
            elif cubic:
                rec.append(("curveTo", tuple(pending) + ((p[0], p[1]),)))
            else:
                rec.append(("qCurveTo", tuple(pending) + ((p[0], p[1]),)))
            pending = []
        else:
            pending.append((p[0], p[1]))
    rec.append(("closePath", ()))
    return rec
