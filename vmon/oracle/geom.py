"""Canonical outline form and tolerance comparison (DESIGN §3.4).

Independent of fontTools' pens: takes a list of (operator, points) pen records
(`moveTo/lineTo/qCurveTo/curveTo/closePath/endPath`) and turns it into contours of
single-segment Béziers with absolute coordinates.  TrueType-style multi-off-curve
qCurveTo (implied on-curve points), super-Béziers in curveTo, closing lines and
zero-length segments are all normalised away, so two records compare equal iff they
describe the same geometry.
"""
import math


# ---------------------------------------------------------------- canonical form
def _mid(a, b):
    return ((a[0] + b[0]) / 2.0, (a[1] + b[1]) / 2.0)


def _split_quadratic(pts):
    """[off..., on] -> [(off, on)...] with implied on-curve points."""
    out = []
    for i in range(len(pts) - 2):
        out.append((pts[i], _mid(pts[i], pts[i + 1])))
    out.append((pts[-2], pts[-1]))
    return out


def _super_direct(points):
    n = len(points) - 1
    assert n > 1
    bezierSegments = []
    pt1, pt2, pt3 = points[0], None, None
    for i in range(2, n + 1):
        nDivisions = min(i, 3, n - i + 2)
        for j in range(1, nDivisions):
            factor = j / nDivisions
            temp1 = points[i - 1]
            temp2 = points[i - 2]
            temp = (temp2[0] + factor * (temp1[0] - temp2[0]), temp2[1] + factor * (temp1[1] - temp2[1]))
            if pt2 is None:
                pt2 = temp
            else:
                pt3 = (0.5 * (pt2[0] + temp[0]), 0.5 * (pt2[1] + temp[1]))
                bezierSegments.append((pt1, pt2, pt3))
                pt1, pt2, pt3 = temp, None, None
    bezierSegments.append((pt1, points[-2], points[-1]))
    return bezierSegments


def canon(rec, drop_degenerate=True):
    """-> list of contours; contour = {'closed': bool, 'segs': [('l',p0,p1)|('q',p0,c,p1)|('c',p0,c1,c2,p1)], 'start': pt}"""
    contours = []
    cur = None
    start = pt = None

    def flush(closed):
        nonlocal cur, start, pt
        if cur is None:
            return
        if closed and pt != start and pt is not None:
            cur.append(("l", pt, start))
        contours.append({"closed": closed, "segs": cur, "start": start})
        cur = None

    for op, args in rec:
        if op == "moveTo":
            if cur is not None:
                flush(False)
            cur = []
            start = pt = tuple(args[0])
        elif op == "lineTo":
            p = tuple(args[0])
            cur.append(("l", pt, p))
            pt = p
        elif op == "qCurveTo":
            pts = [tuple(a) if a is not None else None for a in args]
            if pts[-1] is None:
                offs = pts[:-1]
                if cur is not None:
                    flush(False)
                cur = []
                if len(offs) == 1:
                    # a single off-curve point and nothing else: degenerate blob
                    start = pt = offs[0]
                    flush(True)
                    continue
                s = _mid(offs[-1], offs[0])
                start = pt = s
                for c, e in _split_quadratic(offs + [s]):
                    cur.append(("q", pt, c, e))
                    pt = e
                flush(True)
                continue
            if len(pts) == 1:
                cur.append(("l", pt, pts[0]))
                pt = pts[0]
            else:
                for c, e in _split_quadratic(pts):
                    cur.append(("q", pt, c, e))
                    pt = e
        elif op == "curveTo":
            pts = [tuple(a) for a in args]
            if len(pts) == 1:
                cur.append(("l", pt, pts[0]))
                pt = pts[0]
            elif len(pts) == 2:
                cur.append(("q", pt, pts[0], pts[1]))
                pt = pts[1]
            elif len(pts) == 3:
                cur.append(("c", pt, pts[0], pts[1], pts[2]))
                pt = pts[2]
            else:
                for c1, c2, e in _super_direct(pts):
                    cur.append(("c", pt, c1, c2, e))
                    pt = e
        elif op == "closePath":
            flush(True)
        elif op == "endPath":
            flush(False)
        elif op == "addComponent":
            raise ValueError("canon() needs decomposed outlines")
    if cur is not None:
        flush(False)
    if drop_degenerate:
        for c in contours:
            c["segs"] = [s for s in c["segs"] if not _zero_len(s)]
    return contours


def _zero_len(seg):
    p0 = seg[1]
    return all(p == p0 for p in seg[2:])


def nondegenerate(contours):
    return [c for c in contours if c["segs"]]


# ---------------------------------------------------------------- stage 1: structural
def _pt_close(a, b, tol):
    return abs(a[0] - b[0]) <= tol and abs(a[1] - b[1]) <= tol


def _seg_eq(s, t, tol):
    return s[0] == t[0] and all(_pt_close(p, q, tol) for p, q in zip(s[1:], t[1:]))


def contour_eq(a, b, tol, rotate=True):
    sa, sb = a["segs"], b["segs"]
    if len(sa) != len(sb):
        return False
    n = len(sa)
    if n == 0:
        return True
    if not a["closed"] or not b["closed"] or not rotate:
        if a["closed"] != b["closed"]:
            return False
        if not rotate or not a["closed"]:
            return all(_seg_eq(sa[i], sb[i], tol) for i in range(n))
    for r in range(n):
        if all(_seg_eq(sa[i], sb[(i + r) % n], tol) for i in range(n)):
            return True
    return False


def structural_eq(A, B, tol, rotate=True, ordered=True):
    A, B = nondegenerate(A), nondegenerate(B)
    if len(A) != len(B):
        return False
    if ordered:
        return all(contour_eq(a, b, tol, rotate) for a, b in zip(A, B))
    used = set()
    for a in A:
        for j, b in enumerate(B):
            if j not in used and contour_eq(a, b, tol, rotate):
                used.add(j)
                break
        else:
            return False
    return True


# ---------------------------------------------------------------- stage 2: geometric
def _eval(seg, t):
    if seg[0] == "l":
        (x0, y0), (x1, y1) = seg[1], seg[2]
        return (x0 + (x1 - x0) * t, y0 + (y1 - y0) * t)
    if seg[0] == "q":
        (x0, y0), (cx, cy), (x1, y1) = seg[1:]
        mt = 1 - t
        return (mt * mt * x0 + 2 * mt * t * cx + t * t * x1, mt * mt * y0 + 2 * mt * t * cy + t * t * y1)
    (x0, y0), (ax, ay), (bx, by), (x1, y1) = seg[1:]
    mt = 1 - t
    return (mt ** 3 * x0 + 3 * mt * mt * t * ax + 3 * mt * t * t * bx + t ** 3 * x1,
            mt ** 3 * y0 + 3 * mt * mt * t * ay + 3 * mt * t * t * by + t ** 3 * y1)


def polyline(contour, per_seg=16):
    pts = []
    for s in contour["segs"]:
        n = 1 if s[0] == "l" else per_seg
        for k in range(n):
            pts.append(_eval(s, k / n))
    if contour["segs"]:
        pts.append(contour["segs"][-1][-1])
    return pts


from math import comb

_W = [[comb(3, i) * comb(2, j) / (comb(5, i + j) * 6.0) for j in range(3)] for i in range(4)]


def _int_x_dy(xs, ys):
    """∫_0^1 x(t) y'(t) dt for a cubic with Bernstein coefficients xs, ys (exact:
    ∫ B_i^3 b_j^2 = C(3,i) C(2,j) / (6 C(5,i+j)), y' = 3 Σ b_j^2 (y_{j+1} − y_j))."""
    tot = 0.0
    for i in range(4):
        for j in range(3):
            tot += xs[i] * 3.0 * (ys[j + 1] - ys[j]) * _W[i][j]
    return tot


def seg_area(seg):
    """Green's theorem contribution (1/2)∮(x dy − y dx) of one Bézier segment."""
    if seg[0] == "l":
        (x0, y0), (x1, y1) = seg[1], seg[2]
        return 0.5 * (x0 * y1 - x1 * y0)
    if seg[0] == "q":
        p0, c, p1 = seg[1:]
        a = (p0[0] + 2 * (c[0] - p0[0]) / 3.0, p0[1] + 2 * (c[1] - p0[1]) / 3.0)
        b = (p1[0] + 2 * (c[0] - p1[0]) / 3.0, p1[1] + 2 * (c[1] - p1[1]) / 3.0)
        seg = ("c", p0, a, b, p1)
    xs = [p[0] for p in seg[1:]]
    ys = [p[1] for p in seg[1:]]
    return 0.5 * (_int_x_dy(xs, ys) - _int_x_dy(ys, xs))


def contour_area(contour):
    return sum(seg_area(s) for s in contour["segs"])


def contour_perimeter_bound(contour):
    tot = 0.0
    for s in contour["segs"]:
        pts = s[1:]
        for a, b in zip(pts, pts[1:]):
            tot += math.hypot(b[0] - a[0], b[1] - a[1])
    return tot


def bounds_of(points):
    xs = [p[0] for p in points]
    ys = [p[1] for p in points]
    return (min(xs), min(ys), max(xs), max(ys))


def _pt_seg_dist(p, a, b):
    ax, ay = a
    bx, by = b
    dx, dy = bx - ax, by - ay
    L = dx * dx + dy * dy
    if L == 0:
        return math.hypot(p[0] - ax, p[1] - ay)
    t = max(0.0, min(1.0, ((p[0] - ax) * dx + (p[1] - ay) * dy) / L))
    return math.hypot(p[0] - (ax + t * dx), p[1] - (ay + t * dy))


def _directed_hausdorff(P, Q):
    worst = 0.0
    for p in P:
        best = min(_pt_seg_dist(p, Q[i], Q[i + 1]) for i in range(len(Q) - 1)) if len(Q) > 1 else math.hypot(p[0] - Q[0][0], p[1] - Q[0][1])
        if best > worst:
            worst = best
    return worst


def hausdorff(c1, c2, per_seg=16):
    P, Q = polyline(c1, per_seg), polyline(c2, per_seg)
    if not P or not Q:
        return 0.0 if (not P and not Q) else float("inf")
    return max(_directed_hausdorff(P, Q), _directed_hausdorff(Q, P))


def geometric_eq(A, B, tol, ordered=True):
    """Same number of non-degenerate contours; per contour: signed area, bounds and
    symmetric Hausdorff distance within tolerance.  Returns (ok, reason)."""
    A, B = nondegenerate(A), nondegenerate(B)
    if len(A) != len(B):
        return False, "contour count %d vs %d" % (len(A), len(B))
    pairs = list(zip(A, B))
    if not ordered:
        # greedy matching by bounds centre
        rest = list(B)
        pairs = []
        for a in A:
            ba = bounds_of(polyline(a, 4))
            j = min(range(len(rest)), key=lambda k: sum(abs(x - y) for x, y in zip(ba, bounds_of(polyline(rest[k], 4)))))
            pairs.append((a, rest.pop(j)))
    for i, (a, b) in enumerate(pairs):
        if a["closed"] != b["closed"]:
            return False, "contour %d open/closed differs" % i
        pa = contour_perimeter_bound(a)
        ar_a, ar_b = contour_area(a), contour_area(b)
        if abs(ar_a - ar_b) > 1e-6 * abs(ar_a) + tol * max(pa, 1.0) * 1.5:
            return False, "contour %d signed area %.4f vs %.4f" % (i, ar_a, ar_b)
        ba, bb = bounds_of(polyline(a)), bounds_of(polyline(b))
        if any(abs(x - y) > tol * 1.5 + 1e-9 for x, y in zip(ba, bb)):
            return False, "contour %d bounds %s vs %s" % (i, ba, bb)
        h = hausdorff(a, b)
        if h > tol * 1.5 + 1e-9:
            return False, "contour %d hausdorff %.4f" % (i, h)
    return True, ""


def outlines_match(recA, recB, tol, ordered=True):
    """Two-stage comparison. -> (ok, stage, reason)"""
    A, B = canon(recA), canon(recB)
    if structural_eq(A, B, tol, ordered=ordered):
        return True, 1, ""
    ok, why = geometric_eq(A, B, tol, ordered=ordered)
    return ok, 2, why


def transform_rec(rec, f):
    return [(op, tuple(f(p) if p is not None else None for p in args)) for op, args in rec]


def max_point_diff(recA, recB):
    """If the two records have identical structure return the max coordinate
    difference, else None."""
    if len(recA) != len(recB):
        return None
    worst = 0.0
    for (o1, a1), (o2, a2) in zip(recA, recB):
        if o1 != o2 or len(a1) != len(a2):
            return None
        for p, q in zip(a1, a2):
            if (p is None) != (q is None):
                return None
            if p is not None:
                worst = max(worst, abs(p[0] - q[0]), abs(p[1] - q[1]))
    return worst
