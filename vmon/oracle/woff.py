"""Spec-written WOFF 1.0 reader/validator (W3C Recommendation 13 Dec 2012).

Independent of fontTools.  Returns an oracle.sfnt.Parsed with the decompressed
tables, the physical order of the table blocks and a list of problems."""
import struct
import zlib

from .sfnt import Parsed, pad4, table_checksum, build_sfnt, SFNT_VERSIONS

HEADER = ">4s4sIHHIHHIIIII"   # 44 bytes


def validate_woff(data):
    p = Parsed("woff")
    data = bytes(data)
    if len(data) < 44:
        p.bad("truncated", "WOFF header truncated")
        return p
    (sig, flavor, length, n, reserved, total_sfnt, major, minor,
     meta_off, meta_len, meta_orig, priv_off, priv_len) = struct.unpack_from(HEADER, data, 0)
    if sig != b"wOFF":
        p.bad("signature", "signature %r" % sig)
        return p
    p.version = flavor
    if flavor not in SFNT_VERSIONS:
        p.bad("sfntVersion", "unknown flavor %r" % flavor)
    if length != len(data):
        p.bad("length", "header length %d, file is %d bytes" % (length, len(data)))
    if reserved != 0:
        p.bad("reserved", "reserved = %d" % reserved)
    dir_end = 44 + 20 * n
    if dir_end > len(data):
        p.bad("truncated", "table directory truncated")
        return p
    entries = []
    for i in range(n):
        tag, off, comp, orig, cs = struct.unpack_from(">4sIIII", data, 44 + 20 * i)
        entries.append({"tag": tag, "offset": off, "compLength": comp, "length": orig, "checksum": cs})
    p.entries = entries
    tags = [e["tag"] for e in entries]
    if any(a >= b for a, b in zip(tags, tags[1:])):
        p.bad("directory-order", "WOFF table directory not in strictly ascending tag order: %s"
              % b" ".join(tags).decode("latin-1"))
    want_total = 12 + 16 * n + sum(pad4(e["length"]) for e in entries)
    if total_sfnt != want_total:
        p.bad("totalSfntSize", "totalSfntSize %d, expected 12+16*%d+padded lengths = %d" % (total_sfnt, n, want_total))
    if total_sfnt % 4:
        p.bad("totalSfntSize", "totalSfntSize %d is not a multiple of 4" % total_sfnt)
    for e in entries:
        t = e["tag"].decode("latin-1")
        o, c, l = e["offset"], e["compLength"], e["length"]
        if o % 4:
            p.bad("alignment", "table %s block at %d (not a multiple of 4)" % (t, o), table=t)
        if c > l:
            p.bad("compLength", "table %s: compLength %d > origLength %d" % (t, c, l), table=t)
        if o < dir_end or o + c > len(data):
            p.bad("bounds", "table %s block [%d,+%d) outside the data area" % (t, o, c), table=t)
            continue
        raw = data[o:o + c]
        if c < l:
            try:
                d = zlib.decompressobj()
                body = d.decompress(raw)
                if not d.eof or d.unused_data:
                    p.bad("zlib", "table %s: compressed block does not end with the stream" % t, table=t)
            except zlib.error as ex:
                p.bad("zlib", "table %s: %s" % (t, ex), table=t)
                continue
        else:
            body = raw
        if len(body) != l:
            p.bad("origLength", "table %s: origLength %d, decoded %d bytes" % (t, l, len(body)), table=t)
        cs = table_checksum(e["tag"], body)
        if cs != e["checksum"]:
            p.bad("origChecksum", "table %s: origChecksum 0x%08X, computed 0x%08X" % (t, e["checksum"], cs), table=t)
        pe = min(pad4(o + c), len(data))
        if any(data[o + c:pe]):
            p.bad("padding", "padding after table %s block is not zero" % t, table=t)
        p.tables[e["tag"]] = body
    phys = sorted(entries, key=lambda e: (e["offset"], e["compLength"]))
    p.order = [e["tag"] for e in phys]
    pos = dir_end
    for e in phys:
        t = e["tag"].decode("latin-1")
        if e["offset"] < pos:
            p.bad("overlap", "table %s block at %d overlaps the previous block (ends %d)" % (t, e["offset"], pos), table=t)
        elif e["offset"] > pos:
            p.bad("packing", "extraneous data: %d bytes before table %s block" % (e["offset"] - pos, t), table=t)
        pos = max(pos, pad4(e["offset"] + e["compLength"]))
    if pos > len(data):
        p.bad("padding", "last table block is not padded to a 4-byte boundary")
        pos = len(data)
    # metadata / private blocks
    if meta_len == 0:
        if meta_off or meta_orig:
            p.bad("metadata", "metaLength 0 but metaOffset %d metaOrigLength %d" % (meta_off, meta_orig))
    else:
        if meta_off != pos:
            p.bad("metadata", "metaOffset %d, expected %d (immediately after the tables)" % (meta_off, pos))
        if meta_off + meta_len > len(data):
            p.bad("metadata", "metadata block outside the file")
        else:
            try:
                md = zlib.decompress(data[meta_off:meta_off + meta_len])
                if len(md) != meta_orig:
                    p.bad("metadata", "metaOrigLength %d, decompressed %d" % (meta_orig, len(md)))
                p.info["metadata"] = md
            except zlib.error as ex:
                p.bad("metadata", "metadata zlib: %s" % ex)
            pos = meta_off + meta_len
    if priv_len == 0:
        if priv_off:
            p.bad("private", "privLength 0 but privOffset %d" % priv_off)
    else:
        want = pad4(pos)
        if any(data[pos:want]):
            p.bad("padding", "padding before the private block is not zero")
        if priv_off != want:
            p.bad("private", "privOffset %d, expected %d" % (priv_off, want))
        if priv_off + priv_len > len(data):
            p.bad("private", "private block outside the file")
        else:
            p.info["private"] = data[priv_off:priv_off + priv_len]
        pos = priv_off + priv_len
    if pos != len(data):
        p.bad("file-length", "file is %d bytes, last block ends at %d" % (len(data), pos))
    # the decoded sfnt (tables in the order of the WOFF blocks) must carry a valid checkSumAdjustment
    if b"head" in p.tables and len(p.tables) == n and len(p.tables[b"head"]) >= 12:
        _, adj = build_sfnt(flavor, [(t, p.tables[t]) for t in p.order])
        got = struct.unpack_from(">I", p.tables[b"head"], 8)[0]
        if got != adj:
            p.bad("checkSumAdjustment", "head.checkSumAdjustment 0x%08X; the sfnt a decoder rebuilds needs 0x%08X" % (got, adj))
    p.info.update({"numTables": n, "majorVersion": major, "minorVersion": minor})
    return p
