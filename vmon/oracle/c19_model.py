"""Independent oracles for C19 (written from the UFO 3 / designspace / plist specs,
not from the library under test).

* `deep_diff`        structural, type-aware comparison of plain value trees
* `PLMap`            exact `Fraction` piecewise-linear map (designspace axis <map>)
* `name_problem`     file-name legality predicate (UFO 3 "conventions" + Windows reserved names)
* `ShadowDir`        really creates case-folded shadow files (open(..., 'x'))
* `ds_xml_facts`     a small stdlib-ElementTree reader of designspace XML
* `kerning_upconversion_problems`  UFO 1/2 -> 3 kerning group conversion invariants (UFO spec)
* fontinfo v1<->v2 tables from the UFO 1/2 specification
"""
import datetime
import math
import os
import xml.etree.ElementTree as SET
from fractions import Fraction

# ---------------------------------------------------------------------------
# deep comparison
# ---------------------------------------------------------------------------

NUM_EXACT = "exact"      # same type class (int vs float vs bool) and same value (-0.0 distinguished)
NUM_VALUE = "value"      # numeric equality (400 == 400.0)


def _numclass(x):
    if isinstance(x, bool):
        return "bool"
    if isinstance(x, int):
        return "int"
    if isinstance(x, float):
        return "float"
    return None


class Approx:
    """Expected number known only up to `tol` (values the writer derives itself)."""

    def __init__(self, v, tol=1e-6):
        self.v, self.tol = float(v), tol

    def __repr__(self):
        return "Approx(%r)" % self.v


def deep_diff(want, got, num=NUM_EXACT, path="", seq_types_equal=True):
    """Return None when equal else (path, why, want, got) for the first difference.

    list and tuple are the same shape (plist/XML have one array type); dict key order
    is irrelevant; bytes/bytearray equal by content; str only equals str."""
    if isinstance(want, Approx):
        if _numclass(got) in ("int", "float") and abs(got - want.v) <= want.tol * max(1.0, abs(want.v)):
            return None
        return (path, "number", want.v, got)
    nw, ng = _numclass(want), _numclass(got)
    if nw or ng:
        if not (nw and ng):
            return (path, "type", want, got)
        if num == NUM_EXACT:
            if nw != ng:
                return (path, "numtype:%s->%s" % (nw, ng), want, got)
        else:
            if (nw == "bool") != (ng == "bool"):
                return (path, "numtype:%s->%s" % (nw, ng), want, got)
        if nw == "float" and ng == "float":
            if math.isnan(want) and math.isnan(got):
                return None
            if want == got and math.copysign(1, want) != math.copysign(1, got) and num == NUM_EXACT:
                return (path, "float-sign-of-zero", want, got)
        if want != got:
            why = "number"
            try:
                d = abs(Fraction(want) - Fraction(got))
                if d <= Fraction(1, 10 ** 6) * max(1, abs(Fraction(want))):
                    why = "number-precision"
            except (ValueError, OverflowError):
                pass
            return (path, why, want, got)
        return None
    if want is None or got is None:
        return None if want is got else (path, "none", want, got)
    if isinstance(want, str) or isinstance(got, str):
        if not (isinstance(want, str) and isinstance(got, str)):
            return (path, "type", want, got)
        return None if want == got else (path, "string", want, got)
    if isinstance(want, (bytes, bytearray)) or isinstance(got, (bytes, bytearray)):
        if not (isinstance(want, (bytes, bytearray)) and isinstance(got, (bytes, bytearray))):
            return (path, "type", want, got)
        return None if bytes(want) == bytes(got) else (path, "bytes", want, got)
    if isinstance(want, datetime.datetime) or isinstance(got, datetime.datetime):
        if not (isinstance(want, datetime.datetime) and isinstance(got, datetime.datetime)):
            return (path, "type", want, got)
        return None if want == got else (path, "date", want, got)
    if isinstance(want, dict) or isinstance(got, dict):
        if not (isinstance(want, dict) and isinstance(got, dict)):
            return (path, "type", want, got)
        kw, kg = set(want), set(got)
        if kw != kg:
            miss = sorted(map(repr, kw - kg))[:3]
            extra = sorted(map(repr, kg - kw))[:3]
            return (path, "keys", "missing %s" % miss, "extra %s" % extra)
        for k in want:
            d = deep_diff(want[k], got[k], num, "%s/%s" % (path, k))
            if d:
                return d
        return None
    if isinstance(want, (list, tuple)) or isinstance(got, (list, tuple)):
        if not (isinstance(want, (list, tuple)) and isinstance(got, (list, tuple))):
            return (path, "type", want, got)
        if len(want) != len(got):
            return (path, "length", len(want), len(got))
        for i, (a, b) in enumerate(zip(want, got)):
            d = deep_diff(a, b, num, "%s[%d]" % (path, i))
            if d:
                return d
        return None
    return None if want == got else (path, "value", want, got)


def field_class(path):
    """Stable class of a diff path: indices and free keys removed."""
    import re
    p = re.sub(r"\[\d+\]", "[]", path)
    return p


# ---------------------------------------------------------------------------
# piecewise-linear map (designspace <map input= output=>), exact
# ---------------------------------------------------------------------------

class PLMap:
    """user->design mapping through knots, slope-1 extrapolation outside (as the
    designspace specification / avar semantics used by varLib)."""

    def __init__(self, pairs):
        d = {}
        for a, b in pairs:
            d[Fraction(a)] = Fraction(b)
        self.knots = sorted(d.items())

    def valid(self):
        return len(self.knots) >= 1

    def strictly_increasing(self):
        outs = [b for _, b in self.knots]
        return all(x < y for x, y in zip(outs, outs[1:]))

    def strictly_decreasing(self):
        outs = [b for _, b in self.knots]
        return len(outs) > 1 and all(x > y for x, y in zip(outs, outs[1:]))

    def weakly_increasing(self):
        outs = [b for _, b in self.knots]
        return all(x <= y for x, y in zip(outs, outs[1:]))

    def integral(self):
        return all(a.denominator == 1 and b.denominator == 1 and abs(a) < 2 ** 26 and abs(b) < 2 ** 26
                   for a, b in self.knots)

    def magnitude(self):
        return max([1] + [max(abs(a), abs(b)) for a, b in self.knots])

    def max_slope(self):
        s = Fraction(1)
        for (a1, b1), (a2, b2) in zip(self.knots, self.knots[1:]):
            if a2 != a1 and b2 != b1:
                r = abs((b2 - b1) / (a2 - a1))
                s = max(s, r, 1 / r)
        return s

    def forward(self, u):
        u = Fraction(u)
        ks = self.knots
        if not ks:
            return u
        if u <= ks[0][0]:
            return u + ks[0][1] - ks[0][0]
        if u >= ks[-1][0]:
            return u + ks[-1][1] - ks[-1][0]
        for (a1, b1), (a2, b2) in zip(ks, ks[1:]):
            if a1 <= u <= a2:
                return b1 + (b2 - b1) * (u - a1) / (a2 - a1)
        raise AssertionError

    def backward_set(self, d):
        """All user values u with forward(u) == d, as a list of closed intervals
        [(lo, hi)] (points have lo == hi).  Exact."""
        d = Fraction(d)
        ks = self.knots
        out = []
        if not ks:
            return [(d, d)]
        # left ray: u <= a0 : f = u + b0 - a0
        u = d - ks[0][1] + ks[0][0]
        if u <= ks[0][0]:
            out.append((u, u))
        u = d - ks[-1][1] + ks[-1][0]
        if u >= ks[-1][0]:
            out.append((u, u))
        for (a1, b1), (a2, b2) in zip(ks, ks[1:]):
            lo, hi = min(b1, b2), max(b1, b2)
            if lo <= d <= hi:
                if b1 == b2:
                    out.append((a1, a2))
                else:
                    u = a1 + (a2 - a1) * (d - b1) / (b2 - b1)
                    out.append((u, u))
        return out

    def tol(self, *vals):
        """Derived float budget: each of forward/backward is <= 6 roundings of
        quantities bounded by M*S (M magnitude, S max slope or inverse slope)."""
        m = max([self.magnitude()] + [abs(Fraction(v)) for v in vals])
        return float(32 * Fraction(1, 2 ** 52) * m * self.max_slope()) + 1e-12


# ---------------------------------------------------------------------------
# file names
# ---------------------------------------------------------------------------

# UFO 3 conventions: illegal characters " * + / : < > ? [ \ ] | NUL, 0x01-0x1F, 0x7F
ILLEGAL = set('"*+/:<>?[\\]|') | {chr(i) for i in range(0, 32)} | {chr(0x7F)}
# Windows reserved device names (Microsoft "Naming Files, Paths, and Namespaces") + CLOCK$ (UFO spec)
RESERVED = {"con", "prn", "aux", "nul", "clock$"} | {"com%d" % i for i in range(1, 10)} | {"lpt%d" % i for i in range(1, 10)}
MAXLEN = 255


def name_problem(fn):
    """None when `fn` is a legal file name by the UFO 3 conventions, else a short class."""
    if not isinstance(fn, str):
        return "not-a-string"
    if fn == "":
        return "empty"
    if len(fn) > MAXLEN:
        return "too-long"
    bad = [c for c in fn if c in ILLEGAL]
    if bad:
        return "illegal-char"
    for part in fn.split("."):
        if part.lower() in RESERVED:
            return "reserved"
    return None


def fold(fn):
    """Simple (one-to-one) Unicode case folding, character by character: the relation that
    case-insensitive file systems implement with an upper-case table (NTFS $UpCase, HFS+).
    Multi-character foldings (sharp s -> ss, ligature fi -> fi) are NOT identified: those names
    are distinct files on such systems."""
    out = []
    for c in fn:
        f = c.casefold()
        out.append(f if len(f) == 1 else c.lower() if len(c.lower()) == 1 else c)
    return "".join(out)


class ShadowDir:
    """Creates, for every issued name, a file whose name is the case-folded name
    in a scratch directory with open(..., 'x'): a case-insensitive collision
    surfaces as FileExistsError, an OS-illegal name as OSError."""

    def __init__(self, root):
        self.root = root
        os.makedirs(root, exist_ok=True)
        self.created = 0
        self.skipped = 0

    def create(self, fn):
        f = fold(fn)
        if len(f.encode("utf-8", "surrogatepass")) > 255 or "/" in f or "\0" in f or f in (".", ".."):
            self.skipped += 1      # cannot be represented on this (byte-limited, POSIX) file system
            return None
        try:
            with open(os.path.join(self.root, f), "x"):
                pass
            self.created += 1
            return None
        except FileExistsError:
            return "exists"
        except (OSError, ValueError, UnicodeEncodeError) as e:
            return "oserror:%s" % type(e).__name__


# ---------------------------------------------------------------------------
# designspace XML facts (stdlib ElementTree, written from Doc/source/designspaceLib/xml.rst)
# ---------------------------------------------------------------------------

XML_LANG = "{http://www.w3.org/XML/1998/namespace}lang"


def _num(s):
    return float(s)


def ds_xml_facts(data):
    """Parse designspace XML bytes into plain facts used to cross-check the writer
    independently of the library's reader.  Also returns attribute usage counts."""
    root = SET.fromstring(data)
    usage = {}
    for el in root.iter():
        for a in el.attrib:
            k = "%s@%s" % (el.tag, a.replace(XML_LANG, "xml:lang"))
            usage[k] = usage.get(k, 0) + 1
        usage["<%s>" % el.tag] = usage.get("<%s>" % el.tag, 0) + 1
    facts = {"format": root.get("format"), "axes": [], "sources": [], "instances": [], "rules": [],
             "vfs": [], "labels": []}
    axes_el = root.find("axes")
    facts["elidedfallbackname"] = axes_el.get("elidedfallbackname") if axes_el is not None else None
    for ax in root.findall("axes/axis"):
        a = {"name": ax.get("name"), "tag": ax.get("tag"), "default": _num(ax.get("default")),
             "hidden": ax.get("hidden") == "1",
             "map": [(_num(m.get("input")), _num(m.get("output"))) for m in ax.findall("map")],
             "labelNames": {l.get(XML_LANG): (l.text or "") for l in ax.findall("labelname")}}
        if ax.get("values") is not None:
            a["values"] = [_num(v) for v in ax.get("values").split(" ")]
        else:
            a["minimum"] = _num(ax.get("minimum"))
            a["maximum"] = _num(ax.get("maximum"))
        labs = ax.find("labels")
        a["ordering"] = int(labs.get("ordering")) if labs is not None and labs.get("ordering") is not None else None
        a["labels"] = []
        if labs is not None:
            for l in labs.findall("label"):
                a["labels"].append({
                    "name": l.get("name"), "uservalue": _num(l.get("uservalue")),
                    "userminimum": None if l.get("userminimum") is None else _num(l.get("userminimum")),
                    "usermaximum": None if l.get("usermaximum") is None else _num(l.get("usermaximum")),
                    "linkeduservalue": None if l.get("linkeduservalue") is None else _num(l.get("linkeduservalue")),
                    "elidable": l.get("elidable") == "true", "oldersibling": l.get("oldersibling") == "true",
                    "labelNames": {n.get(XML_LANG): (n.text or "") for n in l.findall("labelname")}})
        facts["axes"].append(a)
    facts["mappings"] = []
    for ms in root.findall("axes/mappings"):
        for m in ms.findall("mapping"):
            facts["mappings"].append({
                "group": ms.get("description"), "description": m.get("description"),
                "input": {d.get("name"): _num(d.get("xvalue")) for d in m.findall("input/dimension")},
                "output": {d.get("name"): _num(d.get("xvalue")) for d in m.findall("output/dimension")}})
    rules_el = root.find("rules")
    facts["processing"] = rules_el.get("processing") if rules_el is not None else None
    for r in root.findall("rules/rule"):
        facts["rules"].append({
            "name": r.get("name"),
            "conditionsets": [[{"name": c.get("name"),
                                "minimum": None if c.get("minimum") is None else _num(c.get("minimum")),
                                "maximum": None if c.get("maximum") is None else _num(c.get("maximum"))}
                               for c in cs.findall("condition")] for cs in r.findall("conditionset")],
            "subs": [(s.get("name"), s.get("with")) for s in r.findall("sub")]})

    def loc(el):
        l = el.find("location")
        if l is None:
            return None
        out = {}
        for d in l.findall("dimension"):
            if d.get("uservalue") is not None:
                out[d.get("name")] = ("user", _num(d.get("uservalue")))
            elif d.get("yvalue") is not None:
                out[d.get("name")] = ("design", (_num(d.get("xvalue")), _num(d.get("yvalue"))))
            else:
                out[d.get("name")] = ("design", _num(d.get("xvalue")))
        return out

    for s in root.findall("sources/source"):
        facts["sources"].append({
            "filename": s.get("filename"), "name": s.get("name"), "familyname": s.get("familyname"),
            "stylename": s.get("stylename"), "layer": s.get("layer"), "location": loc(s),
            "localisedFamilyName": {f.get(XML_LANG): (f.text or "") for f in s.findall("familyname")},
            "copyLib": any(e.get("copy") == "1" for e in s.findall("lib")),
            "copyGroups": any(e.get("copy") == "1" for e in s.findall("groups")),
            "copyFeatures": any(e.get("copy") == "1" for e in s.findall("features")),
            "copyInfo": any(e.get("copy") == "1" for e in s.findall("info")),
            "muteInfo": any(e.get("mute") == "1" for e in s.findall("info")),
            "muteKerning": any(e.get("mute") == "1" for e in s.findall("kerning")),
            "mutedGlyphNames": [g.get("name") for g in s.findall("glyph") if g.get("mute") == "1"]})
    for i in root.findall("instances/instance"):
        facts["instances"].append({
            "filename": i.get("filename"), "name": i.get("name"), "familyname": i.get("familyname"),
            "stylename": i.get("stylename"), "postscriptfontname": i.get("postscriptfontname"),
            "stylemapfamilyname": i.get("stylemapfamilyname"), "stylemapstylename": i.get("stylemapstylename"),
            "locationLabel": i.get("location"), "location": loc(i),
            "localisedStyleName": {f.get(XML_LANG): (f.text or "") for f in i.findall("stylename")},
            "localisedFamilyName": {f.get(XML_LANG): (f.text or "") for f in i.findall("familyname")},
            "localisedStyleMapStyleName": {f.get(XML_LANG): (f.text or "") for f in i.findall("stylemapstylename")},
            "localisedStyleMapFamilyName": {f.get(XML_LANG): (f.text or "") for f in i.findall("stylemapfamilyname")},
            "glyphs": sorted(g.get("name") for g in i.findall("glyphs/glyph")),
            "has_lib": i.find("lib") is not None})
    for v in root.findall("variable-fonts/variable-font"):
        subs = []
        for s in v.findall("axis-subsets/axis-subset"):
            subs.append({k: (s.get(k) if k == "name" else (None if s.get(k) is None else _num(s.get(k))))
                         for k in ("name", "uservalue", "userminimum", "userdefault", "usermaximum")})
        facts["vfs"].append({"name": v.get("name"), "filename": v.get("filename"), "subsets": subs,
                             "has_lib": v.find("lib") is not None})
    for l in root.findall("labels/label"):
        facts["labels"].append({"name": l.get("name"), "elidable": l.get("elidable") == "true",
                                "oldersibling": l.get("oldersibling") == "true", "location": loc(l),
                                "labelNames": {n.get(XML_LANG): (n.text or "") for n in l.findall("labelname")}})
    facts["has_lib"] = root.find("lib") is not None
    return facts, usage


# ---------------------------------------------------------------------------
# UFO 1/2 -> 3 kerning group conversion (UFO 3 spec, "Converting UFO 1 and 2 kerning")
# ---------------------------------------------------------------------------

def kerning_upconversion_problems(kerning, groups, glyphs, new_kerning, new_groups, maps):
    """Invariants any correct conversion must satisfy.  Returns a list of problem classes."""
    probs = []
    side1, side2 = maps.get("side1", {}), maps.get("side2", {})
    for side, m, prefix in (("side1", side1, "public.kern1."), ("side2", side2, "public.kern2.")):
        vals = list(m.values())
        if len(set(vals)) != len(vals):
            probs.append("rename-collision:" + side)
        for old, new in m.items():
            if not new.startswith(prefix) or len(new) == len(prefix):
                probs.append("bad-prefix:" + side)
            if new in groups and new != old:
                probs.append("new-name-shadows-existing-group:" + side)
            if old not in groups:
                probs.append("renamed-unknown-group:" + side)
            elif list(new_groups.get(new, ())) != list(groups[old]):
                probs.append("renamed-group-contents-differ:" + side)
    for g, members in groups.items():
        if g not in new_groups:
            probs.append("old-group-dropped")
        elif g not in side1.values() and g not in side2.values() and list(new_groups[g]) != list(members):
            probs.append("old-group-changed")
    # every referenced group on each side must be renamed (unless already public.kernN.)
    for first, seconds in kerning.items():
        if first in groups and first not in glyphs and not first.startswith("public.kern1.") and first not in side1:
            probs.append("first-group-not-renamed")
        for second in seconds:
            if second in groups and second not in glyphs and not second.startswith("public.kern2.") and second not in side2:
                probs.append("second-group-not-renamed")
    # pair-for-pair preservation
    npairs = sum(len(v) for v in kerning.values())
    if sum(len(v) for v in new_kerning.values()) != npairs:
        probs.append("pair-count-changed")
    for first, seconds in kerning.items():
        nf = side1.get(first, first)
        for second, value in seconds.items():
            ns = side2.get(second, second)
            got = new_kerning.get(nf, {}).get(ns, KeyError)
            if got is KeyError:
                probs.append("pair-lost")
            elif deep_diff(value, got) is not None:
                probs.append("pair-value-changed")
    return sorted(set(probs))


# ---------------------------------------------------------------------------
# fontinfo conversion tables (UFO 2 specification, "Converting fontinfo.plist in UFO 1 to UFO 2")
# ---------------------------------------------------------------------------

INFO_1_TO_2 = {
    "menuName": "styleMapFamilyName", "designer": "openTypeNameDesigner", "designerURL": "openTypeNameDesignerURL",
    "createdBy": "openTypeNameManufacturer", "vendorURL": "openTypeNameManufacturerURL",
    "license": "openTypeNameLicense", "licenseURL": "openTypeNameLicenseURL", "ttVersion": "openTypeNameVersion",
    "ttUniqueID": "openTypeNameUniqueID", "notice": "openTypeNameDescription",
    "otFamilyName": "openTypeNamePreferredFamilyName", "otStyleName": "openTypeNamePreferredSubfamilyName",
    "otMacName": "openTypeNameCompatibleFullName", "weightName": "postscriptWeightName",
    "weightValue": "openTypeOS2WeightClass", "ttVendor": "openTypeOS2VendorID", "uniqueID": "postscriptUniqueID",
    "fontName": "postscriptFontName", "fondID": "macintoshFONDFamilyID", "fondName": "macintoshFONDName",
    "defaultWidth": "postscriptDefaultWidthX", "slantAngle": "postscriptSlantAngle", "fullName": "postscriptFullName",
    "fontStyle": "styleMapStyleName", "widthName": "openTypeOS2WidthClass", "msCharSet": "postscriptWindowsCharacterSet",
}
INFO_2_TO_1 = {v: k for k, v in INFO_1_TO_2.items()}
INFO_V1_SAME_NAME = {"familyName", "styleName", "note", "versionMajor", "versionMinor", "year", "copyright", "trademark",
                     "unitsPerEm", "ascender", "descender", "capHeight", "xHeight", "italicAngle"}
FONTSTYLE_2_TO_1 = {"regular": 64, "italic": 1, "bold": 32, "bold italic": 33}
WIDTH_2_TO_1 = {1: "Ultra-condensed", 2: "Extra-condensed", 3: "Condensed", 4: "Semi-condensed", 5: "Medium (normal)",
                6: "Semi-expanded", 7: "Expanded", 8: "Extra-expanded", 9: "Ultra-expanded"}
MSCHARSET_2_TO_1 = {1: 0, 2: 1, 3: 2, 4: 77, 5: 128, 6: 129, 7: 130, 8: 134, 9: 136, 10: 161, 11: 162, 12: 163,
                    13: 177, 14: 178, 15: 186, 16: 200, 17: 204, 18: 222, 19: 238, 20: 255}


def info_v2_to_v1_file(info2):
    """What a UFO 1 fontinfo.plist must contain for version-2 style data (only the
    attributes UFO 1 can express)."""
    out = {}
    for k, v in info2.items():
        if k in INFO_2_TO_1:
            nk = INFO_2_TO_1[k]
            if k == "styleMapStyleName":
                v = FONTSTYLE_2_TO_1[v]
            elif k == "openTypeOS2WidthClass":
                v = WIDTH_2_TO_1[v]
            elif k == "postscriptWindowsCharacterSet":
                v = MSCHARSET_2_TO_1[v]
            out[nk] = v
        elif k in INFO_V1_SAME_NAME:
            out[k] = v
    return out
