"""Exact rational reference models for variation arithmetic (DESIGN §3.3, C09).

Independent of fontTools: tents and their products by the OpenType definition,
axis renormalisation from first principles (through user space), ItemVariationStore
parsed from compiled bytes with struct, inferred deltas (IUP) by the gvar rule.
All arithmetic in fractions.Fraction; floats are converted exactly.
"""
import struct
from fractions import Fraction as F


def fr(x):
    return x if isinstance(x, F) else F(x)


# ---------------------------------------------------------------- tents
def tent(v, t):
    """OpenType region scalar on one axis: t = (start, peak, end) or None (always on)."""
    if t is None:
        return F(1)
    lo, pk, hi = (fr(a) for a in t)
    v = fr(v)
    if pk == 0:
        return F(1)
    if lo > pk or pk > hi:
        return F(1)
    if lo < 0 and hi > 0:
        return F(1)
    if v == pk:
        return F(1)
    if v <= lo or v >= hi:
        return F(0)
    if v < pk:
        return (v - lo) / (pk - lo)
    return (hi - v) / (hi - pk)


def plain_tent(v, t):
    """Mathematical tent with no OpenType special cases (used for the solver's input
    tent, whose well-formedness is a precondition)."""
    if t is None:
        return F(1)
    lo, pk, hi = (fr(a) for a in t)
    v = fr(v)
    if v == pk:
        return F(1)
    if v <= lo or v >= hi:
        return F(0)
    if v < pk:
        return (v - lo) / (pk - lo)
    return (hi - v) / (hi - pk)


def region_scalar(loc, support):
    """loc: {axis: value}; support: {axis: (start, peak, end)}"""
    s = F(1)
    for ax, t in support.items():
        s *= tent(loc.get(ax, 0), t)
        if s == 0:
            break
    return s


# ---------------------------------------------------------------- renormalisation
def renormalize(v, limits):
    """Old-normalised coordinate v -> coordinate normalised to the new axis
    (amin, adef, amax, distanceNegative, distancePositive), derived through user
    space: old normalised coordinates are piecewise linear in user units with slope
    distancePositive right of the old default and distanceNegative left of it; the new
    normalisation maps user(adef) to 0, user(amin) to -1 and user(amax) to +1
    linearly on each side (extrapolating beyond)."""
    amin, adef, amax, dneg, dpos = (fr(a) for a in limits)
    v = fr(v)

    def user(x):
        return x * dpos if x >= 0 else x * dneg

    u, ud, umin, umax = user(v), user(adef), user(amin), user(amax)
    if u == ud:
        return F(0)
    if u > ud:
        if umax > ud:
            return (u - ud) / (umax - ud)
        # no room on the positive side: the library extrapolates with the negative side's scale
        return (u - ud) / (ud - umin) if ud > umin else F(0)
    if ud > umin:
        return (u - ud) / (ud - umin)
    return (u - ud) / (umax - ud) if umax > ud else F(0)


def normalize_value(v, triple, extrapolate=False):
    lo, df, hi = (fr(a) for a in triple)
    v = fr(v)
    if not extrapolate:
        v = max(min(v, hi), lo)
    if v == df or lo == hi:
        return F(0)
    if v < df:
        return (v - df) / (df - lo) if df != lo else (v - df) / (hi - df)
    return (v - df) / (hi - df) if hi != df else (v - df) / (df - lo)


def piecewise_linear(v, mapping):
    v = fr(v)
    m = {fr(k): fr(x) for k, x in mapping.items()}
    if not m:
        return v
    if v in m:
        return m[v]
    ks = sorted(m)
    if v < ks[0]:
        return v + m[ks[0]] - ks[0]
    if v > ks[-1]:
        return v + m[ks[-1]] - ks[-1]
    a = max(k for k in ks if k < v)
    b = min(k for k in ks if k > v)
    return m[a] + (m[b] - m[a]) * (v - a) / (b - a)


# ---------------------------------------------------------------- ItemVariationStore from bytes
def parse_varstore(data):
    """-> {'regions': [[(s,p,e) per axis]], 'data': [{'regions': [idx], 'items': [[deltas]]}]}"""
    fmt, regOff, dataCount = struct.unpack(">HLH", data[:8])
    assert fmt == 1
    offs = struct.unpack(">%dL" % dataCount, data[8:8 + 4 * dataCount]) if dataCount else ()
    axisCount, regionCount = struct.unpack(">HH", data[regOff:regOff + 4])
    regionCount &= 0x7FFF
    regions = []
    p = regOff + 4
    for _ in range(regionCount):
        axes = []
        for _a in range(axisCount):
            s, pk, e = struct.unpack(">hhh", data[p:p + 6])
            p += 6
            axes.append((F(s, 16384), F(pk, 16384), F(e, 16384)))
        regions.append(axes)
    out = []
    for o in offs:
        if o == 0:
            out.append(None)
            continue
        itemCount, wordCount, ric = struct.unpack(">HHH", data[o:o + 6])
        longWords = bool(wordCount & 0x8000)
        wordCount &= 0x7FFF
        ridx = list(struct.unpack(">%dH" % ric, data[o + 6:o + 6 + 2 * ric]))
        p = o + 6 + 2 * ric
        big, small = (">l", ">h") if longWords else (">h", ">b")
        bs, ss = struct.calcsize(big), struct.calcsize(small)
        items = []
        for _i in range(itemCount):
            row = []
            for c in range(ric):
                if c < wordCount:
                    row.append(struct.unpack(big, data[p:p + bs])[0])
                    p += bs
                else:
                    row.append(struct.unpack(small, data[p:p + ss])[0])
                    p += ss
            items.append(row)
        out.append({"regions": ridx, "items": items})
    return {"regions": regions, "data": out, "axisCount": axisCount}


NO_VARIATION_INDEX = 0xFFFFFFFF


def eval_varstore(store, varidx, loc):
    """loc: list of normalised coordinates per axis index (missing = 0)."""
    if varidx == NO_VARIATION_INDEX:
        return F(0)
    major, minor = varidx >> 16, varidx & 0xFFFF
    if major >= len(store["data"]) or store["data"][major] is None:
        return F(0)
    vd = store["data"][major]
    if minor >= len(vd["items"]):
        return F(0)
    tot = F(0)
    for ri, d in zip(vd["regions"], vd["items"][minor]):
        if d == 0:
            continue
        s = F(1)
        for ai, t in enumerate(store["regions"][ri]):
            s *= tent(loc[ai] if ai < len(loc) else 0, t)
            if s == 0:
                break
        tot += s * d
    return tot


# ---------------------------------------------------------------- IUP (gvar inferred deltas)
def iup_reference(deltas, coords, ends):
    """deltas: list of (dx, dy) or None, coords: list of (x, y) including the four
    phantom points, ends: contour end indices.  Returns the fully inferred list
    (Fractions), by the OpenType 'gvar' rule."""
    n = len(coords)
    ends = list(ends) + [n - 4, n - 3, n - 2, n - 1]
    out = [None] * n
    start = 0
    for end in ends:
        idx = list(range(start, end + 1))
        refs = [i for i in idx if deltas[i] is not None]
        if not refs:
            for i in idx:
                out[i] = (F(0), F(0))
        else:
            for i in idx:
                if deltas[i] is not None:
                    out[i] = (fr(deltas[i][0]), fr(deltas[i][1]))
                    continue
                # preceding and following referenced points, cyclically within the contour
                m = len(idx)
                k = i - start
                prev = next(idx[(k - s) % m] for s in range(1, m + 1) if deltas[idx[(k - s) % m]] is not None)
                nxt = next(idx[(k + s) % m] for s in range(1, m + 1) if deltas[idx[(k + s) % m]] is not None)
                d = []
                for j in (0, 1):
                    c, c1, c2 = fr(coords[i][j]), fr(coords[prev][j]), fr(coords[nxt][j])
                    d1, d2 = fr(deltas[prev][j]), fr(deltas[nxt][j])
                    if c1 == c2:
                        d.append(d1 if d1 == d2 else F(0))
                        continue
                    if c1 > c2:
                        c1, c2, d1, d2 = c2, c1, d2, d1
                    if c <= c1:
                        d.append(d1)
                    elif c >= c2:
                        d.append(d2)
                    else:
                        d.append(d1 + (d2 - d1) * (c - c1) / (c2 - c1))
                out[i] = tuple(d)
        start = end + 1
    return out
