"""Struct-level readers for OpenType tables, written from the OpenType specification
(ISO/IEC 14496-22 / Microsoft OpenType 1.9) and Apple's TrueType Reference Manual.

Independent of fontTools: nothing here imports the library under test.  Every reader
takes the raw bytes of one table (or subtable) and returns plain Python values.  A
malformed structure raises `Bad` (the caller decides what that means).

Also contains a minimal sfnt directory reader and a minimal sfnt *writer*
(`build_sfnt`, `host_font`) so that a table compiled by the library can be embedded in
a container that was not produced by the library and shown to HarfBuzz / FreeType.
"""
import struct

from .codecs import packed_deltas, packed_points


class Bad(Exception):
    pass


def _u16(d, o):
    if o < 0 or o + 2 > len(d):
        raise Bad("read past end (u16 @%d of %d)" % (o, len(d)))
    return (d[o] << 8) | d[o + 1]


def _s16(d, o):
    v = _u16(d, o)
    return v - 65536 if v >= 32768 else v


def _u32(d, o):
    if o < 0 or o + 4 > len(d):
        raise Bad("read past end (u32 @%d of %d)" % (o, len(d)))
    return struct.unpack_from(">L", d, o)[0]


def _s32(d, o):
    if o < 0 or o + 4 > len(d):
        raise Bad("read past end (s32 @%d of %d)" % (o, len(d)))
    return struct.unpack_from(">l", d, o)[0]


def _u24(d, o):
    if o < 0 or o + 3 > len(d):
        raise Bad("read past end (u24 @%d of %d)" % (o, len(d)))
    return (d[o] << 16) | (d[o + 1] << 8) | d[o + 2]


def _u16s(d, o, n):
    if o < 0 or o + 2 * n > len(d):
        raise Bad("read past end (%d u16 @%d of %d)" % (n, o, len(d)))
    return list(struct.unpack_from(">%dH" % n, d, o))


# ---------------------------------------------------------------- sfnt container
def sfnt_tables(data):
    """-> {tag(str): bytes} of a plain sfnt (not TTC/WOFF)."""
    if len(data) < 12:
        raise Bad("short sfnt")
    num = _u16(data, 4)
    out = {}
    for i in range(num):
        o = 12 + 16 * i
        tag = bytes(data[o:o + 4]).decode("latin-1")
        off, length = _u32(data, o + 8), _u32(data, o + 12)
        if off + length > len(data):
            raise Bad("table %r out of bounds" % tag)
        out[tag] = bytes(data[off:off + length])
    return out


def _checksum(b):
    b = b + b"\0" * (-len(b) % 4)
    return sum(struct.unpack(">%dL" % (len(b) // 4), b)) & 0xFFFFFFFF


def build_sfnt(tables, version=b"\x00\x01\x00\x00"):
    """Assemble an sfnt from {tag: bytes} (spec: table directory sorted by tag, 4-byte
    aligned tables, checksums, head.checkSumAdjustment)."""
    tags = sorted(tables)
    n = len(tags)
    es = 0
    while (1 << (es + 1)) <= n:
        es += 1
    sr = (1 << es) * 16
    header = version + struct.pack(">HHHH", n, sr, es, n * 16 - sr)
    off = 12 + 16 * n
    recs, body = [], []
    tabs = dict(tables)
    if "head" in tabs:
        h = bytearray(tabs["head"])
        h[8:12] = b"\0\0\0\0"
        tabs["head"] = bytes(h)
    head_off = None
    for t in tags:
        b = tabs[t]
        if t == "head":
            head_off = off
        recs.append(t.encode("latin-1") + struct.pack(">LLL", _checksum(b), off, len(b)))
        pad = b + b"\0" * (-len(b) % 4)
        body.append(pad)
        off += len(pad)
    out = bytearray(header + b"".join(recs) + b"".join(body))
    if head_off is not None:
        adj = (0xB1B0AFBA - _checksum(bytes(out))) & 0xFFFFFFFF
        out[head_off + 8:head_off + 12] = struct.pack(">L", adj)
    return bytes(out)


def host_font(num_glyphs, extra, upem=1000, advance=500, loca_long=False):
    """A minimal TrueType font with `num_glyphs` empty glyphs, built directly from the
    spec, into which the compiled tables in `extra` ({tag: bytes}) are embedded."""
    head = struct.pack(">HHLLLHHQQhhhhHHhhh", 1, 0, 0x00010000, 0, 0x5F0F3CF5, 0x0003, upem,
                       0, 0, 0, 0, 0, 0, 0, 8, 2, 1 if loca_long else 0, 0)
    hhea = struct.pack(">HHhhhHhhhhhhhhhhhH", 1, 0, 800, -200, 0, advance, 0, 0, 0, 1, 0, 0, 0, 0, 0, 0, 0, 1)
    maxp = struct.pack(">LHHHHHHHHHHHHHH", 0x00010000, num_glyphs, 0, 0, 0, 0, 2, 0, 0, 0, 0, 0, 0, 0, 0)
    hmtx = struct.pack(">Hh", advance, 0) + b"\0\0" * (num_glyphs - 1)
    loca = (b"\0\0\0\0" if loca_long else b"\0\0") * (num_glyphs + 1)
    post = struct.pack(">LLhhLLLLL", 0x00030000, 0, -100, 50, 0, 0, 0, 0, 0)
    nm = "Host".encode("utf-16-be")
    recs = b"".join(struct.pack(">HHHHHH", 3, 1, 0x409, nid, len(nm), 0) for nid in (1, 2, 4, 6))
    name = struct.pack(">HHH", 0, 4, 6 + 4 * 12) + recs + nm
    cmap = struct.pack(">HH", 0, 1) + struct.pack(">HHL", 3, 1, 12) + \
        struct.pack(">HHHHHHH", 4, 24, 0, 2, 2, 0, 0) + struct.pack(">HHHHH", 0xFFFF, 0, 0xFFFF, 1, 0)
    tabs = {"head": head, "hhea": hhea, "maxp": maxp, "hmtx": hmtx, "loca": loca, "glyf": b"\0",
            "post": post, "name": name, "cmap": cmap}
    tabs.update(extra)
    return build_sfnt(tabs)


def cmap_wrap(subtables):
    """cmap table from [(platformID, encodingID, subtable bytes)] (sorted as the spec asks)."""
    subtables = sorted(subtables, key=lambda s: (s[0], s[1]))
    off = 4 + 8 * len(subtables)
    hdr = struct.pack(">HH", 0, len(subtables))
    body = b""
    for p, e, b in subtables:
        hdr += struct.pack(">HHL", p, e, off + len(body))
        body += b + b"\0" * (-len(b) % 2)
    return hdr + body


def head(data):
    f = struct.unpack_from(">HHLLLHHQQhhhhHHhhh", data, 0)
    keys = ("majorVersion", "minorVersion", "fontRevision", "checkSumAdjustment", "magicNumber", "flags",
            "unitsPerEm", "created", "modified", "xMin", "yMin", "xMax", "yMax", "macStyle", "lowestRecPPEM",
            "fontDirectionHint", "indexToLocFormat", "glyphDataFormat")
    return dict(zip(keys, f))


def hhea(data):
    """hhea and vhea share the layout; last field is numberOfHMetrics / numOfLongVerMetrics."""
    f = struct.unpack_from(">LhhhHhhhhhhhhhhhH", data, 0)
    keys = ("version", "ascent", "descent", "lineGap", "advanceMax", "minFirstSideBearing", "minSecondSideBearing",
            "maxExtent", "caretSlopeRise", "caretSlopeRun", "caretOffset", "r1", "r2", "r3", "r4",
            "metricDataFormat", "numberOfMetrics")
    return dict(zip(keys, f))


def maxp(data):
    return {"version": _u32(data, 0), "numGlyphs": _u16(data, 4)}


# ---------------------------------------------------------------- cmap
def cmap_table(data):
    """-> [(platformID, encodingID, offset, subtable dict)] in directory order."""
    version, n = _u16(data, 0), _u16(data, 2)
    out = []
    for i in range(n):
        p, e, off = _u16(data, 4 + 8 * i), _u16(data, 6 + 8 * i), _u32(data, 8 + 8 * i)
        out.append((p, e, off, cmap_subtable(data, off)))
    return out


def cmap_subtable(data, off=0):
    """-> dict(format, language, length, map {code: gid} incl. gid 0 entries that are
    explicitly stored, info {...}) ; format 14 -> dict(format, default {vs: set(code)},
    nondefault {vs: {code: gid}})."""
    fmt = _u16(data, off)
    if fmt in (0, 2, 4, 6):
        length, lang = _u16(data, off + 2), _u16(data, off + 4)
        body = data[off:off + length]
        if len(body) != length:
            raise Bad("cmap format %d subtable truncated" % fmt)
        m, info = {0: _cmap0, 2: _cmap2, 4: _cmap4, 6: _cmap6}[fmt](body)
    elif fmt in (8, 10, 12, 13):
        if _u16(data, off + 2) != 0:
            raise Bad("cmap format %d reserved field not 0" % fmt)
        length, lang = _u32(data, off + 4), _u32(data, off + 8)
        body = data[off:off + length]
        if len(body) != length:
            raise Bad("cmap format %d subtable truncated" % fmt)
        if fmt == 8:
            raise Bad("cmap format 8 not covered")
        m, info = {10: _cmap10, 12: _cmap12, 13: _cmap13}[fmt](body)
    elif fmt == 14:
        length = _u32(data, off + 2)
        body = data[off:off + length]
        if len(body) != length:
            raise Bad("cmap format 14 subtable truncated")
        d, nd, info = _cmap14(body)
        return {"format": 14, "length": length, "language": None, "default": d, "nondefault": nd, "info": info}
    else:
        raise Bad("unknown cmap format %d" % fmt)
    return {"format": fmt, "language": lang, "length": length, "map": m, "info": info}


def _cmap0(b):
    if len(b) != 262:
        raise Bad("format 0 length %d != 262" % len(b))
    return {c: b[6 + c] for c in range(256)}, {}


def _cmap2(b):
    keys = _u16s(b, 6, 256)
    if any(k % 8 for k in keys):
        raise Bad("subHeaderKey not a multiple of 8")
    nsub = max(keys) // 8 + 1
    subs = []
    for i in range(nsub):
        o = 518 + 8 * i
        first, count, delta, ro = _u16(b, o), _u16(b, o + 2), _s16(b, o + 4), _u16(b, o + 6)
        subs.append((first, count, delta, o + 6 + ro))  # idRangeOffset counts from its own position
    m = {}
    for hi in range(256):
        k = keys[hi] // 8
        first, count, delta, arr = subs[k]
        if k == 0:
            # single-byte character code `hi`
            if first <= hi < first + count:
                g = _u16(b, arr + 2 * (hi - first))
                if g:
                    g = (g + delta) & 0xFFFF
                m[hi] = g
        else:
            for lo in range(first, first + count):
                g = _u16(b, arr + 2 * (lo - first))
                if g:
                    g = (g + delta) & 0xFFFF
                m[(hi << 8) | lo] = g
    nz = [s for s in subs if s[1]]
    return m, {"subheaders": nsub, "shared_arrays": len(nz) - len({s[3] for s in nz}),
               "neg_delta": sum(1 for s in nz if s[2] < 0)}


def _cmap4(b):
    segx2 = _u16(b, 6)
    if segx2 % 2 or segx2 == 0:
        raise Bad("segCountX2 %d" % segx2)
    n = segx2 // 2
    # searchRange arithmetic (spec): 2 * 2**floor(log2(n))
    es = 0
    while (1 << (es + 1)) <= n:
        es += 1
    want = ((1 << es) * 2, es, 2 * n - (1 << es) * 2)
    got = (_u16(b, 8), _u16(b, 10), _u16(b, 12))
    end = _u16s(b, 14, n)
    if _u16(b, 14 + 2 * n) != 0:
        raise Bad("reservedPad != 0")
    so = 16 + 2 * n
    start = _u16s(b, so, n)
    delta = _u16s(b, so + 2 * n, n)
    ro_off = so + 4 * n
    ro = _u16s(b, ro_off, n)
    if end[-1] != 0xFFFF:
        raise Bad("last endCode != 0xFFFF")
    m = {}
    kinds = {"delta": 0, "range": 0, "wrap": 0}
    prev_end = -1
    double_ffff = False
    for i in range(n):
        s, e = start[i], end[i]
        if s > e:
            raise Bad("segment %d start > end" % i)
        last = i == n - 1
        if last and s == e == 0xFFFF and prev_end == 0xFFFF:
            # a map that reaches U+FFFF followed by the mandatory closing segment: a lookup takes the first
            # segment whose endCode >= code, so the closing segment is never consulted
            double_ffff = True
            continue
        if s <= prev_end:
            raise Bad("segment %d overlaps / unsorted" % i)
        prev_end = e
        if ro[i] == 0:
            if not last:
                kinds["delta"] += 1
                if s + delta[i] > 0xFFFF or e + delta[i] > 0xFFFF:
                    kinds["wrap"] += 1
            for c in range(s, e + 1):
                g = (c + delta[i]) & 0xFFFF
                if last and c == 0xFFFF and g == 0:
                    continue
                m[c] = g
        else:
            if not last:
                kinds["range"] += 1
            for c in range(s, e + 1):
                p = ro_off + 2 * i + ro[i] + 2 * (c - s)
                g = _u16(b, p)
                if g:
                    g = (g + delta[i]) & 0xFFFF
                if last and c == 0xFFFF and g == 0:
                    continue
                m[c] = g
    return m, {"segments": n, "kinds": kinds, "search_ok": want == got, "double_ffff": double_ffff}


def _cmap6(b):
    first, count = _u16(b, 6), _u16(b, 8)
    if len(b) < 10 + 2 * count:
        raise Bad("format 6 array truncated")
    g = _u16s(b, 10, count)
    return {first + i: g[i] for i in range(count)}, {"first": first, "count": count}


def _cmap10(b):
    first, count = _u32(b, 12), _u32(b, 16)
    g = _u16s(b, 20, count)
    return {first + i: g[i] for i in range(count)}, {"first": first, "count": count}


def _groups(b):
    n = _u32(b, 12)
    if len(b) != 16 + 12 * n:
        raise Bad("format 12/13 length %d != 16 + 12*%d" % (len(b), n))
    gs = [struct.unpack_from(">LLL", b, 16 + 12 * i) for i in range(n)]
    prev = -1
    for s, e, g in gs:
        if s > e or s <= prev:
            raise Bad("groups unsorted or overlapping")
        prev = e
    return gs


def _cmap12(b):
    m = {}
    gs = _groups(b)
    for s, e, g in gs:
        for c in range(s, e + 1):
            m[c] = g + (c - s)
    return m, {"groups": len(gs)}


def _cmap13(b):
    m = {}
    gs = _groups(b)
    for s, e, g in gs:
        for c in range(s, e + 1):
            m[c] = g
    return m, {"groups": len(gs)}


def _cmap14(b):
    n = _u32(b, 6)
    default, nondefault = {}, {}
    prev = -1
    for i in range(n):
        o = 10 + 11 * i
        vs = _u24(b, o)
        if vs <= prev:
            raise Bad("varSelector records unsorted")
        prev = vs
        doff, noff = _u32(b, o + 3), _u32(b, o + 7)
        if doff:
            cnt = _u32(b, doff)
            s = set()
            last = -1
            for k in range(cnt):
                st = _u24(b, doff + 4 + 4 * k)
                add = b[doff + 4 + 4 * k + 3]
                if st <= last:
                    raise Bad("default UVS ranges unsorted/overlapping")
                last = st + add
                s.update(range(st, st + add + 1))
            default[vs] = s
        if noff:
            cnt = _u32(b, noff)
            d = {}
            last = -1
            for k in range(cnt):
                uv = _u24(b, noff + 4 + 5 * k)
                gid = _u16(b, noff + 4 + 5 * k + 3)
                if uv <= last:
                    raise Bad("non-default UVS mappings unsorted")
                last = uv
                d[uv] = gid
            nondefault[vs] = d
    return default, nondefault, {"records": n}


# ---------------------------------------------------------------- hmtx / vmtx
def hmtx(data, number_of_metrics, num_glyphs):
    """-> [(advance, sideBearing)] for every glyph (spec: trailing glyphs repeat the
    last advance and only store a side bearing)."""
    if number_of_metrics < 1 and num_glyphs:
        raise Bad("numberOfHMetrics < 1")
    if number_of_metrics > num_glyphs:
        raise Bad("numberOfHMetrics > numGlyphs")
    need = 4 * number_of_metrics + 2 * (num_glyphs - number_of_metrics)
    if len(data) < need:
        raise Bad("hmtx too short: %d < %d" % (len(data), need))
    out = []
    for i in range(number_of_metrics):
        out.append((_u16(data, 4 * i), _s16(data, 4 * i + 2)))
    last = out[-1][0] if out else 0
    base = 4 * number_of_metrics
    for i in range(num_glyphs - number_of_metrics):
        out.append((last, _s16(data, base + 2 * i)))
    return out


# ---------------------------------------------------------------- loca / glyf
def loca(data, index_to_loc_format, num_glyphs=None):
    if index_to_loc_format == 0:
        if len(data) % 2:
            raise Bad("short loca odd length")
        offs = [2 * v for v in _u16s(data, 0, len(data) // 2)]
    elif index_to_loc_format == 1:
        if len(data) % 4:
            raise Bad("long loca length not multiple of 4")
        offs = list(struct.unpack(">%dL" % (len(data) // 4), data))
    else:
        raise Bad("indexToLocFormat %r" % index_to_loc_format)
    if num_glyphs is not None and len(offs) != num_glyphs + 1:
        raise Bad("loca has %d entries for %d glyphs" % (len(offs), num_glyphs))
    if any(a > b for a, b in zip(offs, offs[1:])):
        raise Bad("loca offsets decrease")
    return offs


ON_CURVE, X_SHORT, Y_SHORT, REPEAT, X_SAME, Y_SAME, OVERLAP_SIMPLE, CUBIC = 1, 2, 4, 8, 16, 32, 64, 128

ARG_WORDS, ARGS_XY, ROUND_XY, HAVE_SCALE, MORE, HAVE_XY_SCALE, HAVE_2X2, HAVE_INSTR = \
    0x1, 0x2, 0x4, 0x8, 0x20, 0x40, 0x80, 0x100
COMPONENT_KEPT_FLAGS = 0x4 | 0x200 | 0x800 | 0x1000 | 0x10 | 0x400


def glyph(data):
    """One glyph description (the slice loca delimits). -> dict
    simple:  kind='simple', bbox, endPts, instructions(bytes), points [(x, y)], flags [on|overlap|cubic bits],
             raw {flag_bytes, max_repeat, n_repeat, x_short, x_same, x_long, y_short, y_same, y_long, used}
    composite: kind='composite', bbox, components [{flags, gid, args (a, b), xy(bool), transform (xx, xy, yx, yy as F2Dot14 ints) | None}], instructions
    empty:   kind='empty'"""
    if len(data) == 0:
        return {"kind": "empty"}
    if len(data) < 10:
        raise Bad("glyph header truncated")
    nc = _s16(data, 0)
    bbox = (_s16(data, 2), _s16(data, 4), _s16(data, 6), _s16(data, 8))
    if nc >= 0:
        return _simple_glyph(data, nc, bbox)
    return _composite_glyph(data, bbox)


def _simple_glyph(d, nc, bbox):
    o = 10
    ends = _u16s(d, o, nc)
    o += 2 * nc
    if any(a >= b for a, b in zip(ends, ends[1:])):
        raise Bad("endPtsOfContours not increasing")
    il = _u16(d, o)
    o += 2
    instr = bytes(d[o:o + il])
    if len(instr) != il:
        raise Bad("instructions truncated")
    o += il
    npts = ends[-1] + 1 if nc else 0
    flags = []
    raw = {"flag_bytes": 0, "max_repeat": 0, "n_repeat": 0, "x_short": 0, "x_same": 0, "x_long": 0,
           "y_short": 0, "y_same": 0, "y_long": 0}
    while len(flags) < npts:
        if o >= len(d):
            raise Bad("flags truncated")
        f = d[o]
        o += 1
        raw["flag_bytes"] += 1
        rep = 1
        if f & REPEAT:
            if o >= len(d):
                raise Bad("repeat count truncated")
            rep += d[o]
            raw["max_repeat"] = max(raw["max_repeat"], d[o])
            raw["n_repeat"] += 1
            raw["flag_bytes"] += 1
            o += 1
        flags.extend([f] * rep)
    if len(flags) != npts:
        raise Bad("flag repeat overshoots the point count")
    xs, x = [], 0
    for f in flags:
        if f & X_SHORT:
            if o >= len(d):
                raise Bad("x coordinates truncated")
            dx = d[o] if f & X_SAME else -d[o]
            o += 1
            raw["x_short"] += 1
        elif f & X_SAME:
            dx = 0
            raw["x_same"] += 1
        else:
            dx = _s16(d, o)
            o += 2
            raw["x_long"] += 1
        x += dx
        xs.append(x)
    ys, y = [], 0
    for f in flags:
        if f & Y_SHORT:
            if o >= len(d):
                raise Bad("y coordinates truncated")
            dy = d[o] if f & Y_SAME else -d[o]
            o += 1
            raw["y_short"] += 1
        elif f & Y_SAME:
            dy = 0
            raw["y_same"] += 1
        else:
            dy = _s16(d, o)
            o += 2
            raw["y_long"] += 1
        y += dy
        ys.append(y)
    raw["used"] = o
    return {"kind": "simple", "bbox": bbox, "endPts": ends, "instructions": instr,
            "points": list(zip(xs, ys)), "flags": [f & (ON_CURVE | OVERLAP_SIMPLE | CUBIC) for f in flags], "raw": raw}


def _composite_glyph(d, bbox):
    o = 10
    comps = []
    have_instr = False
    while True:
        fl, gid = _u16(d, o), _u16(d, o + 2)
        o += 4
        if fl & ARG_WORDS:
            if fl & ARGS_XY:
                a, b = _s16(d, o), _s16(d, o + 2)
            else:
                a, b = _u16(d, o), _u16(d, o + 2)
            o += 4
        else:
            if o + 2 > len(d):
                raise Bad("component args truncated")
            if fl & ARGS_XY:
                a, b = struct.unpack_from(">bb", d, o)
            else:
                a, b = d[o], d[o + 1]
            o += 2
        tr = None
        if fl & HAVE_SCALE:
            s = _s16(d, o)
            o += 2
            tr = (s, 0, 0, s)
        elif fl & HAVE_XY_SCALE:
            tr = (_s16(d, o), 0, 0, _s16(d, o + 2))
            o += 4
        elif fl & HAVE_2X2:
            tr = (_s16(d, o), _s16(d, o + 2), _s16(d, o + 4), _s16(d, o + 6))
            o += 8
        if bin(fl & (HAVE_SCALE | HAVE_XY_SCALE | HAVE_2X2)).count("1") > 1:
            raise Bad("more than one transform flag")
        comps.append({"flags": fl, "kept_flags": fl & COMPONENT_KEPT_FLAGS, "gid": gid, "args": (a, b),
                      "xy": bool(fl & ARGS_XY), "words": bool(fl & ARG_WORDS), "transform": tr})
        have_instr = have_instr or bool(fl & HAVE_INSTR)
        if not fl & MORE:
            break
    instr = None
    if have_instr:
        il = _u16(d, o)
        o += 2
        instr = bytes(d[o:o + il])
        if len(instr) != il:
            raise Bad("composite instructions truncated")
        o += il
    return {"kind": "composite", "bbox": bbox, "components": comps, "instructions": instr, "used": o}


def glyf(glyf_data, loca_offsets):
    out = []
    for a, b in zip(loca_offsets, loca_offsets[1:]):
        if b > len(glyf_data):
            raise Bad("loca points past the end of glyf (%d > %d)" % (b, len(glyf_data)))
        out.append(glyph(glyf_data[a:b]))
    return out


# ---------------------------------------------------------------- name
def name(data):
    """-> dict(format, records [(platformID, encodingID, languageID, nameID, bytes)], langTags [bytes])"""
    fmt, n, so = _u16(data, 0), _u16(data, 2), _u16(data, 4)
    recs, spans = [], []
    for i in range(n):
        o = 6 + 12 * i
        p, e, l, nid, ln, off = struct.unpack_from(">HHHHHH", data, o)
        s = data[so + off:so + off + ln]
        if len(s) != ln:
            raise Bad("name string %d out of bounds" % i)
        recs.append((p, e, l, nid, bytes(s)))
        spans.append((off, ln))
    tags = []
    if fmt == 1:
        o = 6 + 12 * n
        cnt = _u16(data, o)
        for i in range(cnt):
            ln, off = _u16(data, o + 2 + 4 * i), _u16(data, o + 4 + 4 * i)
            tags.append(bytes(data[so + off:so + off + ln]))
    elif fmt != 0:
        raise Bad("name format %d" % fmt)
    return {"format": fmt, "records": recs, "spans": spans, "langTags": tags, "stringOffset": so}


def utf16be_decode(b):
    """UTF-16BE -> list of code points (RFC 2781); raises Bad on ill-formed input."""
    if len(b) % 2:
        raise Bad("odd UTF-16 length")
    units = struct.unpack(">%dH" % (len(b) // 2), b)
    out, i = [], 0
    while i < len(units):
        u = units[i]
        if 0xD800 <= u < 0xDC00:
            if i + 1 >= len(units) or not 0xDC00 <= units[i + 1] < 0xE000:
                raise Bad("unpaired high surrogate")
            out.append(0x10000 + ((u - 0xD800) << 10) + (units[i + 1] - 0xDC00))
            i += 2
        elif 0xDC00 <= u < 0xE000:
            raise Bad("unpaired low surrogate")
        else:
            out.append(u)
            i += 1
    return out


# ---------------------------------------------------------------- kern
def kern(data):
    """-> dict(version, subtables [dict(format, coverage, tupleIndex, length, pairs [(l, r, v)] | raw)])
    version 0: Microsoft/OpenType header (uint16 version, nTables, subtable: version, length, coverage uint16
    with format in the high byte); version 1.0: Apple header (fixed32 version, uint32 nTables, subtable:
    uint32 length, uint8 coverage, uint8 format, uint16 tupleIndex)."""
    if _u16(data, 0) == 0:
        version, n, o = 0, _u16(data, 2), 4
        apple = False
    elif _u32(data, 0) == 0x00010000:
        version, n, o = 1.0, _u32(data, 4), 8
        apple = True
    else:
        raise Bad("kern version")
    subs = []
    for i in range(n):
        if apple:
            length, cov, fmt, tup = _u32(data, o), data[o + 4], data[o + 5], _u16(data, o + 6)
            h = 8
        else:
            sv, length, fmt, cov = _u16(data, o), _u16(data, o + 2), data[o + 4], data[o + 5]
            tup = None
            h = 6
        st = {"format": fmt, "coverage": cov, "tupleIndex": tup, "length": length}
        if fmt == 0:
            npairs = _u16(data, o + h)
            real = h + 8 + 6 * npairs
            if not apple and n == 1 and real != length:
                # widely implemented exception: a single format-0 subtable whose 16-bit
                # length field overflowed; the pair count is authoritative
                st["length_overflow"] = True
                length = real
            es = 0
            while (1 << (es + 1)) <= npairs:
                es += 1
            st["search"] = (_u16(data, o + h + 2), _u16(data, o + h + 4), _u16(data, o + h + 6))
            st["search_want"] = (((1 << es) * 6) if npairs else 0, es if npairs else 0,
                                 (npairs * 6 - (1 << es) * 6) if npairs else 0)
            pairs = []
            p = o + h + 8
            for k in range(npairs):
                pairs.append((_u16(data, p), _u16(data, p + 2), _s16(data, p + 4)))
                p += 6
            st["pairs"] = pairs
        else:
            st["raw"] = bytes(data[o + h:o + length])
        subs.append(st)
        o += length
    return {"version": version, "subtables": subs}


# ---------------------------------------------------------------- post
MAC_GLYPH_ORDER_258 = None  # filled lazily by mac_glyph_names()

_MAC_NAMES = """.notdef .null nonmarkingreturn space exclam quotedbl numbersign dollar percent ampersand quotesingle
parenleft parenright asterisk plus comma hyphen period slash zero one two three four five six seven eight nine colon
semicolon less equal greater question at A B C D E F G H I J K L M N O P Q R S T U V W X Y Z bracketleft backslash
bracketright asciicircum underscore grave a b c d e f g h i j k l m n o p q r s t u v w x y z braceleft bar braceright
asciitilde Adieresis Aring Ccedilla Eacute Ntilde Odieresis Udieresis aacute agrave acircumflex adieresis atilde aring
ccedilla eacute egrave ecircumflex edieresis iacute igrave icircumflex idieresis ntilde oacute ograve ocircumflex
odieresis otilde uacute ugrave ucircumflex udieresis dagger degree cent sterling section bullet paragraph germandbls
registered copyright trademark acute dieresis notequal AE Oslash infinity plusminus lessequal greaterequal yen mu
partialdiff summation product pi integral ordfeminine ordmasculine Omega ae oslash questiondown exclamdown logicalnot
radical florin approxequal Delta guillemotleft guillemotright ellipsis nonbreakingspace Agrave Atilde Otilde OE oe
endash emdash quotedblleft quotedblright quoteleft quoteright divide lozenge ydieresis Ydieresis fraction currency
guilsinglleft guilsinglright fi fl daggerdbl periodcentered quotesinglbase quotedblbase perthousand Acircumflex
Ecircumflex Aacute Edieresis Egrave Iacute Icircumflex Idieresis Igrave Oacute Ocircumflex apple Ograve Uacute
Ucircumflex Ugrave dotlessi circumflex tilde macron breve dotaccent ring cedilla hungarumlaut ogonek caron Lslash
lslash Scaron scaron Zcaron zcaron brokenbar Eth eth Yacute yacute Thorn thorn minus multiply onesuperior twosuperior
threesuperior onehalf onequarter threequarters franc Gbreve gbreve Idotaccent Scedilla scedilla Cacute cacute Ccaron
ccaron dcroat""".split()


def mac_glyph_names():
    """The 258 standard Macintosh glyph names (Apple TrueType Reference Manual, 'post' table)."""
    assert len(_MAC_NAMES) == 258, len(_MAC_NAMES)
    return _MAC_NAMES


def post(data):
    """-> dict(header fields..., names [str] | None)"""
    f = struct.unpack_from(">LlhhLLLLL", data, 0)
    keys = ("version", "italicAngle", "underlinePosition", "underlineThickness", "isFixedPitch",
            "minMemType42", "maxMemType42", "minMemType1", "maxMemType1")
    out = dict(zip(keys, f))
    out["names"] = None
    if out["version"] == 0x00020000:
        n = _u16(data, 32)
        idx = _u16s(data, 34, n)
        o = 34 + 2 * n
        strings = []
        while o < len(data):
            ln = data[o]
            s = data[o + 1:o + 1 + ln]
            if len(s) != ln:
                raise Bad("post Pascal string truncated")
            strings.append(bytes(s).decode("latin-1"))
            o += 1 + ln
        std = mac_glyph_names()
        names = []
        for i in idx:
            if i < 258:
                names.append(std[i])
            else:
                if i - 258 >= len(strings):
                    raise Bad("post glyphNameIndex %d beyond the %d stored strings" % (i, len(strings)))
                names.append(strings[i - 258])
        out["names"] = names
        out["numStrings"] = len(strings)
        out["numStandard"] = sum(1 for i in idx if i < 258)
    elif out["version"] == 0x00010000:
        out["names"] = list(mac_glyph_names())
    elif out["version"] not in (0x00030000, 0x00025000, 0x00040000):
        raise Bad("post version %08x" % out["version"])
    return out


# ---------------------------------------------------------------- OS/2
_OS2_V0 = [("version", "H"), ("xAvgCharWidth", "h"), ("usWeightClass", "H"), ("usWidthClass", "H"), ("fsType", "H"),
           ("ySubscriptXSize", "h"), ("ySubscriptYSize", "h"), ("ySubscriptXOffset", "h"), ("ySubscriptYOffset", "h"),
           ("ySuperscriptXSize", "h"), ("ySuperscriptYSize", "h"), ("ySuperscriptXOffset", "h"),
           ("ySuperscriptYOffset", "h"), ("yStrikeoutSize", "h"), ("yStrikeoutPosition", "h"), ("sFamilyClass", "h"),
           ("panose", "10s"), ("ulUnicodeRange1", "L"), ("ulUnicodeRange2", "L"), ("ulUnicodeRange3", "L"),
           ("ulUnicodeRange4", "L"), ("achVendID", "4s"), ("fsSelection", "H"), ("usFirstCharIndex", "H"),
           ("usLastCharIndex", "H"), ("sTypoAscender", "h"), ("sTypoDescender", "h"), ("sTypoLineGap", "h"),
           ("usWinAscent", "H"), ("usWinDescent", "H")]
_OS2_V1 = [("ulCodePageRange1", "L"), ("ulCodePageRange2", "L")]
_OS2_V2 = [("sxHeight", "h"), ("sCapHeight", "h"), ("usDefaultChar", "H"), ("usBreakChar", "H"), ("usMaxContext", "H")]
_OS2_V5 = [("usLowerOpticalPointSize", "H"), ("usUpperOpticalPointSize", "H")]


def os2(data):
    v = _u16(data, 0)
    fields = list(_OS2_V0)
    if v >= 1:
        fields += _OS2_V1
    if v >= 2:
        fields += _OS2_V2
    if v >= 5:
        fields += _OS2_V5
    if v > 5:
        raise Bad("OS/2 version %d" % v)
    fmt = ">" + "".join(c for _, c in fields)
    if len(data) < struct.calcsize(fmt):
        raise Bad("OS/2 v%d too short: %d < %d" % (v, len(data), struct.calcsize(fmt)))
    vals = struct.unpack_from(fmt, data, 0)
    out = dict(zip([k for k, _ in fields], vals))
    out["_size"] = struct.calcsize(fmt)
    return out


# ---------------------------------------------------------------- OpenType Layout common
def coverage(data, off=0, strict=True):
    """-> (format, [gid in coverage-index order]).
    strict=False tolerates a format 2 table whose ranges are sorted by glyph id but whose
    startCoverageIndex values follow another order (glyph list that was not sorted by glyph id):
    the glyphs are then returned ordered by their coverage index."""
    fmt = _u16(data, off)
    if fmt == 1:
        n = _u16(data, off + 2)
        g = _u16s(data, off + 4, n)
        if any(a >= b for a, b in zip(g, g[1:])):
            raise Bad("Coverage format 1 glyph array not strictly increasing")
        return 1, g
    if fmt == 2:
        n = _u16(data, off + 2)
        out = []
        idx = {}
        prev = -1
        for i in range(n):
            s, e, sci = _u16(data, off + 4 + 6 * i), _u16(data, off + 6 + 6 * i), _u16(data, off + 8 + 6 * i)
            if s > e or s <= prev:
                raise Bad("Coverage format 2 ranges unsorted/overlapping")
            if strict and sci != len(out):
                raise Bad("Coverage format 2 startCoverageIndex %d != %d" % (sci, len(out)))
            prev = e
            out.extend(range(s, e + 1))
            for k, g in enumerate(range(s, e + 1)):
                idx[g] = sci + k
        if not strict:
            if sorted(idx.values()) != list(range(len(out))):
                raise Bad("Coverage format 2 coverage indices are not a permutation of 0..n-1")
            out = sorted(out, key=idx.__getitem__)
        return 2, out
    raise Bad("Coverage format %d" % fmt)


def classdef(data, off=0):
    """-> (format, {gid: class}) with class-0 entries omitted"""
    fmt = _u16(data, off)
    out = {}
    if fmt == 1:
        start, n = _u16(data, off + 2), _u16(data, off + 4)
        for i, c in enumerate(_u16s(data, off + 6, n)):
            if c:
                out[start + i] = c
        return 1, out
    if fmt == 2:
        n = _u16(data, off + 2)
        prev = -1
        for i in range(n):
            s, e, c = _u16(data, off + 4 + 6 * i), _u16(data, off + 6 + 6 * i), _u16(data, off + 8 + 6 * i)
            if s > e or s <= prev:
                raise Bad("ClassDef format 2 ranges unsorted/overlapping")
            prev = e
            if c:
                for g in range(s, e + 1):
                    out[g] = c
        return 2, out
    raise Bad("ClassDef format %d" % fmt)


def _lookup_list(data):
    """GSUB/GPOS header -> [(lookupType, lookupFlag, [absolute subtable offsets])]"""
    major, minor = _u16(data, 0), _u16(data, 2)
    if major != 1:
        raise Bad("layout table version %d.%d" % (major, minor))
    ll = _u16(data, 8)
    n = _u16(data, ll)
    out = []
    for i in range(n):
        lo = ll + _u16(data, ll + 2 + 2 * i)
        lt, lf, sc = _u16(data, lo), _u16(data, lo + 2), _u16(data, lo + 4)
        subs = [lo + _u16(data, lo + 6 + 2 * k) for k in range(sc)]
        out.append((lt, lf, subs))
    return out


def gsub_lookups(data, strict=True):
    """Decode the GSUB lookups this module understands.
    -> [dict(type, flag, subtables [dict])]; SingleSubst: {kind:'single', format, coverage_format, delta|None, map {gid: gid}};
    ContextSubst format 3 with one input: {kind:'context3', coverages [[gid]], records [(seq, lookup)]};
    anything else: {kind:'other', type, format}."""
    out = []
    for lt, lf, subs in _lookup_list(data):
        sts = []
        for so in subs:
            t = lt
            if t == 7:  # Extension
                if _u16(data, so) != 1:
                    raise Bad("extension format")
                t = _u16(data, so + 2)
                so = so + _u32(data, so + 4)
            fmt = _u16(data, so)
            if t == 1:
                cf, cov = coverage(data, so + _u16(data, so + 2), strict)
                if fmt == 1:
                    delta = _s16(data, so + 4)
                    m = {g: (g + delta) & 0xFFFF for g in cov}
                    sts.append({"kind": "single", "format": 1, "coverage_format": cf, "delta": delta, "map": m})
                elif fmt == 2:
                    n = _u16(data, so + 4)
                    if n != len(cov):
                        raise Bad("SingleSubst format 2 glyphCount %d != coverage size %d" % (n, len(cov)))
                    sub = _u16s(data, so + 6, n)
                    sts.append({"kind": "single", "format": 2, "coverage_format": cf, "delta": None,
                                "map": dict(zip(cov, sub))})
                else:
                    raise Bad("SingleSubst format %d" % fmt)
            elif t == 5 and fmt == 3:
                gc, sc = _u16(data, so + 2), _u16(data, so + 4)
                covs = []
                for k in range(gc):
                    cf, cov = coverage(data, so + _u16(data, so + 6 + 2 * k), strict)
                    covs.append((cf, cov))
                recs = [(_u16(data, so + 6 + 2 * gc + 4 * k), _u16(data, so + 8 + 2 * gc + 4 * k)) for k in range(sc)]
                sts.append({"kind": "context3", "coverages": covs, "records": recs})
            else:
                sts.append({"kind": "other", "type": t, "format": fmt})
        out.append({"type": lt, "flag": lf, "subtables": sts})
    return out


def gdef(data, strict=True):
    """-> dict(version, glyphClassDef (fmt, {gid: class}) | None, markAttachClassDef | None, markGlyphSets [(fmt, [gid])] | None)"""
    major, minor = _u16(data, 0), _u16(data, 2)
    gco, _al, _lc, mac = _u16(data, 4), _u16(data, 6), _u16(data, 8), _u16(data, 10)
    out = {"version": (major, minor), "glyphClassDef": classdef(data, gco) if gco else None,
           "markAttachClassDef": classdef(data, mac) if mac else None, "markGlyphSets": None}
    if (major, minor) >= (1, 2):
        mgs = _u16(data, 12)
        if mgs:
            if _u16(data, mgs) != 1:
                raise Bad("MarkGlyphSets format")
            n = _u16(data, mgs + 2)
            out["markGlyphSets"] = [coverage(data, mgs + _u32(data, mgs + 4 + 4 * i), strict) for i in range(n)]
    return out


# ---------------------------------------------------------------- fvar / avar / gvar
def fvar(data):
    """-> dict(axes [dict(tag, min, default, max as 16.16 ints, flags, nameID)],
    instances [dict(subfamilyNameID, flags, coords [16.16 ints], postScriptNameID | None)])"""
    if _u32(data, 0) != 0x00010000:
        raise Bad("fvar version")
    off, _res, ac, asz, ic, isz = (_u16(data, 4), _u16(data, 6), _u16(data, 8), _u16(data, 10),
                                   _u16(data, 12), _u16(data, 14))
    if asz != 20:
        raise Bad("fvar axisSize %d" % asz)
    axes = []
    for i in range(ac):
        o = off + asz * i
        axes.append({"tag": bytes(data[o:o + 4]).decode("latin-1"), "min": _s32(data, o + 4),
                     "default": _s32(data, o + 8), "max": _s32(data, o + 12),
                     "flags": _u16(data, o + 16), "nameID": _u16(data, o + 18)})
    if ic and isz not in (4 + 4 * ac, 6 + 4 * ac):
        raise Bad("fvar instanceSize %d for %d axes" % (isz, ac))
    inst = []
    base = off + asz * ac
    for i in range(ic):
        o = base + isz * i
        rec = {"subfamilyNameID": _u16(data, o), "flags": _u16(data, o + 2),
               "coords": [_s32(data, o + 4 + 4 * k) for k in range(ac)],
               "postScriptNameID": _u16(data, o + 4 + 4 * ac) if isz == 6 + 4 * ac else None}
        inst.append(rec)
    if base + isz * ic > len(data):
        raise Bad("fvar truncated")
    return {"axes": axes, "instances": inst}


def avar(data):
    """-> dict(version (major, minor), maps [[(from, to) as F2Dot14 ints]])"""
    major, minor = _u16(data, 0), _u16(data, 2)
    ac = _u16(data, 6)
    o = 8
    maps = []
    for i in range(ac):
        n = _u16(data, o)
        o += 2
        maps.append([(_s16(data, o + 4 * k), _s16(data, o + 4 * k + 2)) for k in range(n)])
        o += 4 * n
    return {"version": (major, minor), "maps": maps, "used": o}


def gvar(data, point_counts):
    """`point_counts[gid]` = number of points incl. the 4 phantom points.
    -> dict(axisCount, sharedTuples [[F2Dot14 int]], long_offsets(bool),
            glyphs [ None | dict(shared_points (bool), tuples [dict(peak, start|None, end|None, embedded(bool),
                    private_points(bool), points None(=all)|[int], dx [int], dy [int])]) ])"""
    if _u16(data, 0) != 1:
        raise Bad("gvar major version")
    ac, stc, sto, gc, fl, dat = (_u16(data, 4), _u16(data, 6), _u32(data, 8), _u16(data, 12),
                                 _u16(data, 14), _u32(data, 16))
    shared = [[_s16(data, sto + 2 * (ac * i + k)) for k in range(ac)] for i in range(stc)]
    long = bool(fl & 1)
    if long:
        offs = [_u32(data, 20 + 4 * i) for i in range(gc + 1)]
    else:
        offs = [2 * _u16(data, 20 + 2 * i) for i in range(gc + 1)]
    if any(a > b for a, b in zip(offs, offs[1:])):
        raise Bad("gvar offsets decrease")
    glyphs = []
    for g in range(gc):
        d = data[dat + offs[g]:dat + offs[g + 1]]
        if len(d) != offs[g + 1] - offs[g]:
            raise Bad("gvar glyph data out of bounds")
        if not d:
            glyphs.append(None)
            continue
        glyphs.append(_tuple_store(d, ac, shared, point_counts[g]))
    return {"axisCount": ac, "sharedTuples": shared, "long_offsets": long, "glyphs": glyphs}


def _tuple_store(d, ac, shared, npoints):
    tvc, dofs = _u16(d, 0), _u16(d, 2)
    count = tvc & 0x0FFF
    pos = 4
    dpos = dofs
    shared_pts = None
    has_shared = bool(tvc & 0x8000)
    if has_shared:
        shared_pts, used = packed_points(d, dpos)
        dpos += used
        shared_pts = ("all",) if shared_pts is None else shared_pts
    tuples = []
    for _ in range(count):
        size, ti = _u16(d, pos), _u16(d, pos + 2)
        pos += 4
        t = {"embedded": bool(ti & 0x8000), "private_points": bool(ti & 0x2000), "start": None, "end": None}
        if ti & 0x8000:
            t["peak"] = [_s16(d, pos + 2 * k) for k in range(ac)]
            pos += 2 * ac
        else:
            idx = ti & 0x0FFF
            if idx >= len(shared):
                raise Bad("shared tuple index %d out of range" % idx)
            t["peak"] = list(shared[idx])
        if ti & 0x4000:
            t["start"] = [_s16(d, pos + 2 * k) for k in range(ac)]
            pos += 2 * ac
            t["end"] = [_s16(d, pos + 2 * k) for k in range(ac)]
            pos += 2 * ac
        body = d[dpos:dpos + size]
        if len(body) != size:
            raise Bad("tuple data out of bounds")
        dpos += size
        o = 0
        if ti & 0x2000:
            pts, used = packed_points(body, 0)
            o += used
        else:
            if not has_shared:
                raise Bad("tuple without private points but no shared points")
            pts = None if shared_pts == ("all",) else shared_pts
        n = npoints if pts is None else len(pts)
        dx, used = packed_deltas(body, n, o)
        o += used
        dy, used = packed_deltas(body, n, o)
        o += used
        if o != size:
            raise Bad("tuple data size %d, consumed %d" % (size, o))
        t["points"], t["dx"], t["dy"] = pts, dx, dy
        tuples.append(t)
    if pos > dofs:
        raise Bad("tuple headers overlap the serialized data")
    return {"shared_points": has_shared, "tuples": tuples}


# ---------------------------------------------------------------- COLR v0
def colr_v0(data):
    """-> dict(version, base {gid: [(layer gid, paletteIndex)]}) reading only the version-0 part."""
    v, nb, bo, lo, nl = _u16(data, 0), _u16(data, 2), _u32(data, 4), _u32(data, 8), _u16(data, 12)
    layers = [(_u16(data, lo + 4 * i), _u16(data, lo + 4 * i + 2)) for i in range(nl)]
    base = {}
    prev = -1
    for i in range(nb):
        g, first, n = _u16(data, bo + 6 * i), _u16(data, bo + 6 * i + 2), _u16(data, bo + 6 * i + 4)
        if g <= prev:
            raise Bad("COLR base glyph records unsorted")
        prev = g
        if first + n > nl:
            raise Bad("COLR layer range out of bounds")
        base[g] = layers[first:first + n]
    return {"version": v, "base": base, "numLayers": nl}


# ---------------------------------------------------------------- GPOS pair adjustment
def _value_record(data, o, fmt):
    """ValueRecord -> ((XPlacement, YPlacement, XAdvance, YAdvance), size); device/variation offsets are skipped."""
    vals = [0, 0, 0, 0]
    for bit in range(4):
        if fmt & (1 << bit):
            vals[bit] = _s16(data, o)
            o += 2
    for bit in range(4, 8):
        if fmt & (1 << bit):
            o += 2
    return tuple(vals), o


def gpos_pairpos(data):
    """PairPos subtables of every GPOS lookup of type 2 (directly or through Extension, type 9).
    -> [ None | [subtable] ] per lookup; subtable =
       {format 1, coverage [gid], pairs {gid1: {gid2: (value1, value2)}}} or
       {format 2, coverage [gid], classDef1 {gid: c}, classDef2 {gid: c}, class1Count, class2Count,
        matrix [[(value1, value2)]]}; a value is (XPlacement, YPlacement, XAdvance, YAdvance)."""
    out = []
    for lt, lf, subs in _lookup_list(data):
        sts = []
        for so in subs:
            t = lt
            if t == 9:
                if _u16(data, so) != 1:
                    raise Bad("extension format")
                t = _u16(data, so + 2)
                so = so + _u32(data, so + 4)
            if t != 2:
                sts = None
                break
            fmt = _u16(data, so)
            cf, cov = coverage(data, so + _u16(data, so + 2))
            vf1, vf2 = _u16(data, so + 4), _u16(data, so + 6)
            if fmt == 1:
                n = _u16(data, so + 8)
                if n != len(cov):
                    raise Bad("PairPos format 1 pairSetCount %d != coverage size %d" % (n, len(cov)))
                pairs = {}
                for i, g1 in enumerate(cov):
                    po = so + _u16(data, so + 10 + 2 * i)
                    cnt = _u16(data, po)
                    o = po + 2
                    d = {}
                    prev = -1
                    for _k in range(cnt):
                        g2 = _u16(data, o)
                        if g2 <= prev:
                            raise Bad("PairValueRecords not sorted by second glyph")
                        prev = g2
                        v1, o = _value_record(data, o + 2, vf1)
                        v2, o = _value_record(data, o, vf2)
                        d[g2] = (v1, v2)
                    pairs[g1] = d
                sts.append({"format": 1, "coverage": cov, "pairs": pairs})
            elif fmt == 2:
                cd1 = classdef(data, so + _u16(data, so + 8))[1]
                cd2 = classdef(data, so + _u16(data, so + 10))[1]
                c1n, c2n = _u16(data, so + 12), _u16(data, so + 14)
                o = so + 16
                matrix = []
                for _i in range(c1n):
                    row = []
                    for _j in range(c2n):
                        v1, o = _value_record(data, o, vf1)
                        v2, o = _value_record(data, o, vf2)
                        row.append((v1, v2))
                    matrix.append(row)
                sts.append({"format": 2, "coverage": cov, "classDef1": cd1, "classDef2": cd2, "class1Count": c1n,
                            "class2Count": c2n, "matrix": matrix})
            else:
                raise Bad("PairPos format %d" % fmt)
        out.append(sts)
    return out


_ZERO_PAIR = ((0, 0, 0, 0), (0, 0, 0, 0))


def pairpos_effective(subtables, num_glyphs):
    """What a lookup made of these PairPos subtables does (OpenType: subtables are tried in order; a format 2
    subtable applies as soon as the first glyph is covered, a format 1 subtable only when the pair is listed).
    -> {(gid1, gid2): (value1, value2)} for every pair with a non-zero adjustment."""
    out = {}
    claimed = set()        # first glyphs already handled by a format 2 subtable
    listed = set()         # pairs already decided by a format 1 subtable
    for st in subtables:
        if st["format"] == 1:
            for g1, d in st["pairs"].items():
                if g1 in claimed:
                    continue
                for g2, v in d.items():
                    if (g1, g2) in listed:
                        continue
                    listed.add((g1, g2))
                    if v != _ZERO_PAIR:
                        out[(g1, g2)] = v
        else:
            cd1, cd2, m = st["classDef1"], st["classDef2"], st["matrix"]
            col = [cd2.get(g2, 0) for g2 in range(num_glyphs)]
            for g1 in st["coverage"]:
                if g1 in claimed:
                    continue
                claimed.add(g1)
                c1 = cd1.get(g1, 0)
                if c1 >= len(m):
                    raise Bad("class1 %d of glyph %d beyond class1Count %d" % (c1, g1, len(m)))
                row = m[c1]
                if col and max(col) >= len(row):
                    raise Bad("class2 value beyond class2Count %d" % len(row))
                for g2, c2 in enumerate(col):
                    v = row[c2]
                    if v != _ZERO_PAIR and (g1, g2) not in listed:
                        out[(g1, g2)] = v
    return out


# ---------------------------------------------------------------- DeltaSetIndexMap (HVAR / VVAR / avar 2 / COLR)
def delta_set_index_map(data, off=0):
    """-> dict(format, entryFormat, innerBits, entrySize, entries [(outer, inner)], size)"""
    fmt, ef = data[off], data[off + 1]
    if fmt == 0:
        count, o = _u16(data, off + 2), off + 4
    elif fmt == 1:
        count, o = _u32(data, off + 2), off + 6
    else:
        raise Bad("DeltaSetIndexMap format %d" % fmt)
    if ef & 0xC0:
        raise Bad("DeltaSetIndexMap entryFormat reserved bits set")
    inner_bits = (ef & 0x0F) + 1
    size = ((ef & 0x30) >> 4) + 1
    if o + size * count > len(data):
        raise Bad("DeltaSetIndexMap data truncated")
    out = []
    mask = (1 << inner_bits) - 1
    for i in range(count):
        v = int.from_bytes(data[o + size * i:o + size * (i + 1)], "big")
        out.append((v >> inner_bits, v & mask))
    return {"format": fmt, "entryFormat": ef, "innerBits": inner_bits, "entrySize": size, "entries": out,
            "size": o + size * count - off}


def hvar(data, vertical=False):
    """HVAR / VVAR -> dict(version, storeOffset, maps {name: None | delta_set_index_map(...)})"""
    names = ("advance", "sb1", "sb2") + (("vorg",) if vertical else ())
    out = {"version": _u32(data, 0), "storeOffset": _u32(data, 4), "maps": {}}
    for i, n in enumerate(names):
        o = _u32(data, 8 + 4 * i)
        out["maps"][n] = delta_set_index_map(data, o) if o else None
    return out


def colr_var_index_map(data):
    """COLR version 1: the VarIndexMap (DeltaSetIndexMap) or None."""
    if _u16(data, 0) < 1:
        return None
    o = _u32(data, 26)
    return delta_set_index_map(data, o) if o else None


# ---------------------------------------------------------------- small tables compiled from dicts
def vorg(data):
    major, minor, default, n = struct.unpack_from(">HHhH", data, 0)
    recs = [struct.unpack_from(">Hh", data, 8 + 4 * i) for i in range(n)]
    if any(a[0] >= b[0] for a, b in zip(recs, recs[1:])):
        raise Bad("VORG records not sorted by glyph index (readers binary-search them)")
    if len(data) != 8 + 4 * n:
        raise Bad("VORG length")
    return {"version": (major, minor), "default": default, "records": dict(recs)}


def gasp(data):
    version, n = _u16(data, 0), _u16(data, 2)
    recs = [(_u16(data, 4 + 4 * i), _u16(data, 6 + 4 * i)) for i in range(n)]
    if any(a[0] >= b[0] for a, b in zip(recs, recs[1:])):
        raise Bad("gasp ranges not sorted by rangeMaxPPEM")
    if len(data) != 4 + 4 * n:
        raise Bad("gasp length")
    return {"version": version, "ranges": recs}


def hdmx(data, num_glyphs):
    version, n, size = _u16(data, 0), _s16(data, 2), _s32(data, 4)
    if size < num_glyphs + 2 or size % 4:
        raise Bad("hdmx sizeDeviceRecord %d for %d glyphs" % (size, num_glyphs))
    recs = []
    for i in range(n):
        o = 8 + size * i
        rec = data[o:o + size]
        if len(rec) != size:
            raise Bad("hdmx record truncated")
        recs.append((rec[0], rec[1], list(rec[2:2 + num_glyphs])))
    if any(a[0] >= b[0] for a, b in zip(recs, recs[1:])):
        raise Bad("hdmx records not sorted by pixel size")
    if len(data) != 8 + size * n:
        raise Bad("hdmx length")
    return {"version": version, "records": recs}
