"""Spec-written reader/validator of the sfnt and TTC containers (OpenType 1.9 §"Font file").

Independent of fontTools (imports nothing from it).  Every `validate_*` function
returns a `Parsed` object: `.tables` (tag bytes -> table bytes), `.order` (tags in
physical order), `.problems` (list of `(field, message, detail)`), never raising on
malformed input (a file too damaged to walk yields a single 'truncated' problem).
"""
import struct

SFNT_VERSIONS = (b"\x00\x01\x00\x00", b"OTTO", b"true", b"typ1")
MAGIC = 0xB1B0AFBA

# OpenType spec, "Recommendations for OpenType Fonts" — optimised table ordering
TTF_ORDER = [b"head", b"hhea", b"maxp", b"OS/2", b"hmtx", b"LTSH", b"VDMX", b"hdmx", b"cmap", b"fpgm",
             b"prep", b"cvt ", b"loca", b"glyf", b"kern", b"name", b"post", b"gasp", b"PCLT", b"DSIG"]
CFF_ORDER = [b"head", b"hhea", b"maxp", b"OS/2", b"name", b"cmap", b"post", b"CFF "]


class Parsed:
    def __init__(self, container):
        self.container = container
        self.version = None
        self.tables = {}        # tag -> bytes (decoded, unpadded)
        self.order = []         # tags in physical (data) order
        self.entries = []       # directory entries in directory order (dicts)
        self.problems = []
        self.info = {}
        self.members = []       # TTC: list of Parsed

    def bad(self, field, msg, **detail):
        self.problems.append((field, msg, detail))


def pad4(n):
    return (n + 3) & ~3


def checksum(data):
    """Sum of big-endian uint32 words of the zero-padded data, modulo 2^32."""
    r = len(data) & 3
    if r:
        data = bytes(data) + b"\0" * (4 - r)
    n = len(data) >> 2
    total = 0
    # chunked so that huge tables do not build huge tuples
    for i in range(0, n, 16384):
        k = min(16384, n - i)
        total += sum(struct.unpack_from(">%dI" % k, data, i * 4))
    return total & 0xFFFFFFFF


def table_checksum(tag, data):
    """Directory checksum of a table: `head` is summed with checkSumAdjustment = 0."""
    if tag == b"head" and len(data) >= 12:
        data = bytes(data[:8]) + b"\0\0\0\0" + bytes(data[12:])
    return checksum(data)


def search_fields(n, size=16):
    """searchRange, entrySelector, rangeShift for n directory entries."""
    if n <= 0:
        return None
    e = n.bit_length() - 1          # floor(log2 n)
    sr = (1 << e) * size
    return sr, e, n * size - sr


def recommended_order(tags):
    """Physical table order recommended by the OpenType spec for the given tag set;
    tags the recommendation does not name follow in ascending order, DSIG last."""
    tags = sorted(tags)
    pref = CFF_ORDER if b"CFF " in tags else TTF_ORDER
    head = [t for t in pref if t in tags and t != b"DSIG"]
    rest = [t for t in tags if t not in head and t != b"DSIG"]
    return head + rest + ([b"DSIG"] if b"DSIG" in tags else [])


def read_directory(data, off, p):
    """Parse an offset table + table records at `off`; returns (version, entries) or None."""
    if off + 12 > len(data):
        p.bad("truncated", "offset table at %d beyond end of file (%d)" % (off, len(data)))
        return None
    version, n, sr, es, rs = struct.unpack_from(">4sHHHH", data, off)
    if version not in SFNT_VERSIONS:
        p.bad("sfntVersion", "unknown sfnt version %r" % version)
    want = search_fields(n)
    if want is not None and (sr, es, rs) != want:
        p.bad("searchRange", "numTables=%d: searchRange/entrySelector/rangeShift = %r, expected %r"
              % (n, (sr, es, rs), want), numTables=n, got=[sr, es, rs], want=list(want))
    if off + 12 + 16 * n > len(data):
        p.bad("truncated", "table directory (%d records) runs past the end of the file" % n)
        return None
    entries = []
    for i in range(n):
        tag, cs, o, l = struct.unpack_from(">4sIII", data, off + 12 + 16 * i)
        entries.append({"tag": tag, "checksum": cs, "offset": o, "length": l})
    tags = [e["tag"] for e in entries]
    if any(a >= b for a, b in zip(tags, tags[1:])):
        p.bad("directory-order", "table records are not in strictly ascending tag order: %s"
              % b" ".join(tags).decode("latin-1"), tags=[t.decode("latin-1") for t in tags])
    return version, entries


def _check_tables(data, entries, p, first_allowed):
    """Alignment, bounds, checksum of every record; fills p.tables."""
    for e in entries:
        tag, o, l = e["tag"], e["offset"], e["length"]
        t = tag.decode("latin-1")
        if o % 4:
            p.bad("alignment", "table %s starts at offset %d (not a multiple of 4)" % (t, o), table=t)
        if o < first_allowed:
            p.bad("overlap", "table %s at %d overlaps the header/directory (ends %d)" % (t, o, first_allowed), table=t)
        if o + l > len(data):
            p.bad("bounds", "table %s [%d,+%d) runs past the end of the file (%d)" % (t, o, l, len(data)), table=t)
            continue
        body = data[o:o + l]
        padded_end = min(pad4(o + l), len(data))
        if any(data[o + l:padded_end]):
            p.bad("padding", "padding after table %s is not zero: %s" % (t, data[o + l:padded_end].hex()), table=t)
        if pad4(o + l) > len(data):
            p.bad("padding", "table %s is not padded to a 4-byte boundary at the end of the file" % t, table=t)
        cs = table_checksum(tag, body)
        if cs != e["checksum"]:
            p.bad("checksum", "table %s: directory checksum 0x%08X, computed 0x%08X" % (t, e["checksum"], cs),
                  table=t)
        p.tables[tag] = body


def whole_file_adjustment(data, head_offset):
    """checkSumAdjustment a font file must carry: 0xB1B0AFBA - sum(file with the field zeroed)."""
    z = bytes(data[:head_offset + 8]) + b"\0\0\0\0" + bytes(data[head_offset + 12:])
    return (MAGIC - checksum(z)) & 0xFFFFFFFF


def validate_sfnt(data):
    p = Parsed("sfnt")
    data = bytes(data)
    r = read_directory(data, 0, p)
    if r is None:
        return p
    p.version, entries = r
    p.entries = entries
    dir_end = 12 + 16 * len(entries)
    _check_tables(data, entries, p, dir_end)
    phys = sorted(entries, key=lambda e: (e["offset"], e["length"]))
    p.order = [e["tag"] for e in phys]
    pos = dir_end
    for e in phys:
        t = e["tag"].decode("latin-1")
        if e["offset"] < pos and e["offset"] >= dir_end:
            p.bad("overlap", "table %s at %d overlaps the previous table (ends %d)" % (t, e["offset"], pos), table=t)
        elif e["offset"] > pos:
            if any(data[pos:e["offset"]]):
                p.bad("padding", "non-zero bytes in the gap before table %s" % t, table=t)
            p.bad("packing", "%d unused bytes before table %s" % (e["offset"] - pos, t), table=t)
        pos = max(pos, pad4(e["offset"] + e["length"]))
    if len(data) != pos:
        p.bad("file-length", "file is %d bytes, tables end (padded) at %d" % (len(data), pos))
    for e in entries:
        if e["tag"] == b"head" and e["offset"] + 12 <= len(data) and e["length"] >= 12:
            got = struct.unpack_from(">I", data, e["offset"] + 8)[0]
            want = whole_file_adjustment(data, e["offset"])
            if got != want:
                p.bad("checkSumAdjustment", "head.checkSumAdjustment 0x%08X, whole-file computation gives 0x%08X"
                      % (got, want))
    p.info = {"numTables": len(entries)}
    return p


def validate_ttc(data):
    p = Parsed("ttc")
    data = bytes(data)
    if len(data) < 12:
        p.bad("truncated", "TTC header truncated")
        return p
    tag, version, n = struct.unpack_from(">4sII", data, 0)
    if tag != b"ttcf":
        p.bad("signature", "not a TTC")
        return p
    if version not in (0x00010000, 0x00020000):
        p.bad("ttc-version", "TTC version 0x%08X" % version)
    hdr_end = 12 + 4 * n
    if hdr_end > len(data):
        p.bad("truncated", "TTC offset array truncated")
        return p
    offsets = list(struct.unpack_from(">%dI" % n, data, 12))
    ranges = {}          # (offset, length) -> label ; identical ranges = shared table
    claimed = [(0, hdr_end, "ttc-header")]
    dsig = None
    if version == 0x00020000:
        if hdr_end + 12 > len(data):
            p.bad("truncated", "TTC v2 DSIG fields truncated")
            return p
        dtag, dlen, doff = struct.unpack_from(">4sII", data, hdr_end)
        hdr_end += 12
        claimed[0] = (0, hdr_end, "ttc-header")
        if dtag == b"DSIG":
            if doff + dlen > len(data) or doff % 4:
                p.bad("ttc-dsig", "DSIG block [%d,+%d) misplaced" % (doff, dlen))
            else:
                claimed.append((doff, doff + dlen, "DSIG"))
                dsig = data[doff:doff + dlen]
        elif (dtag, dlen, doff) != (b"\0\0\0\0", 0, 0):
            p.bad("ttc-dsig", "DSIG tag %r with length %d offset %d" % (dtag, dlen, doff))
    shared = 0
    for i, off in enumerate(offsets):
        m = Parsed("sfnt-member")
        p.members.append(m)
        if off % 4:
            p.bad("alignment", "offset table of member %d at %d (not a multiple of 4)" % (i, off), member=i)
        r = read_directory(data, off, m)
        if r is None:
            p.problems.extend(("member:" + f, "member %d: %s" % (i, msg), d) for f, msg, d in m.problems)
            continue
        m.version, m.entries = r
        claimed.append((off, off + 12 + 16 * len(m.entries), "directory-%d" % i))
        _check_tables(data, m.entries, m, 0)
        m.order = [e["tag"] for e in sorted(m.entries, key=lambda e: (e["offset"], e["length"]))]
        for e in m.entries:
            key = (e["offset"], e["length"])
            label = "%s@member%d" % (e["tag"].decode("latin-1"), i)
            if key in ranges:
                shared += 1
                if ranges[key][1] != e["tag"]:
                    p.bad("ttc-sharing", "range [%d,+%d) is table %s in one member and %s in another"
                          % (key[0], key[1], ranges[key][1].decode("latin-1"), e["tag"].decode("latin-1")))
            else:
                ranges[key] = (label, e["tag"])
                if e["length"]:
                    claimed.append((e["offset"], e["offset"] + e["length"], label))
        for f, msg, d in m.problems:
            p.problems.append((f, "member %d: %s" % (i, msg), dict(d, member=i)))
    # no partial overlaps; everything not claimed must be zero padding (< 4 bytes)
    claimed.sort()
    pos = 0
    for a, b, label in claimed:
        if a < pos:
            p.bad("overlap", "%s [%d,%d) overlaps the preceding block (ends %d)" % (label, a, b, pos), block=label.split("@")[0])
        elif a > pos:
            if any(data[pos:a]):
                p.bad("padding", "non-zero bytes in the gap before %s" % label, block=label.split("@")[0])
            if a - pos >= 4:
                p.bad("packing", "%d unused bytes before %s" % (a - pos, label), block=label.split("@")[0])
        pos = max(pos, b)
    if pos <= len(data) and any(data[pos:]):
        p.bad("padding", "non-zero bytes after the last block")
    if len(data) != pad4(pos) and len(data) != pos:
        p.bad("file-length", "file is %d bytes, blocks end at %d" % (len(data), pos))
    p.info = {"numFonts": n, "version": version, "shared_records": shared, "dsig": dsig is not None,
              "distinct_ranges": len(ranges)}
    return p


def build_sfnt(version, tables_in_physical_order):
    """Assemble a plain sfnt from (tag, data) pairs laid out in the given physical
    order (directory sorted by tag), and return (file bytes, checkSumAdjustment that
    the file must carry).  Used to verify WOFF's head.checkSumAdjustment."""
    n = len(tables_in_physical_order)
    sr, es, rs = search_fields(n) or (0, 0, 0)
    off = 12 + 16 * n
    recs, blobs = [], []
    for tag, body in tables_in_physical_order:
        recs.append((tag, table_checksum(tag, body), off, len(body)))
        blobs.append(bytes(body) + b"\0" * (pad4(len(body)) - len(body)))
        off += pad4(len(body))
    out = struct.pack(">4sHHHH", version, n, sr, es, rs)
    head_off = None
    for tag, cs, o, l in sorted(recs):
        out += struct.pack(">4sIII", tag, cs, o, l)
        if tag == b"head":
            head_off = o
    out += b"".join(blobs)
    adj = whole_file_adjustment(out, head_off) if head_off is not None else None
    return out, adj
