"""Spec-written WOFF 2.0 reader/validator (W3C Recommendation, §4–§6).

Independent of fontTools; brotli is the reference decompressor.  The transformed
`glyf` table is reconstructed into the glyph model of oracle.derived (points,
on-curve flags, contour ends, instructions, bbox, overlap bit, composite records),
not into bytes: the byte form of a reconstructed glyf table is not unique.  The
transformed `hmtx` table is reconstructed into bytes (that form is unique)."""
import struct

import brotli

from .sfnt import Parsed, pad4, SFNT_VERSIONS
from . import derived

KNOWN_TAGS = [
    b"cmap", b"head", b"hhea", b"hmtx", b"maxp", b"name", b"OS/2", b"post", b"cvt ", b"fpgm", b"glyf", b"loca",
    b"prep", b"CFF ", b"VORG", b"EBDT", b"EBLC", b"gasp", b"hdmx", b"kern", b"LTSH", b"PCLT", b"VDMX", b"vhea",
    b"vmtx", b"BASE", b"GDEF", b"GPOS", b"GSUB", b"EBSC", b"JSTF", b"MATH", b"CBDT", b"CBLC", b"COLR", b"CPAL",
    b"SVG ", b"sbix", b"acnt", b"avar", b"bdat", b"bloc", b"bsln", b"cvar", b"fdsc", b"feat", b"fmtx", b"fvar",
    b"gvar", b"hsty", b"just", b"lcar", b"mort", b"morx", b"opbd", b"prop", b"trak", b"Zapf", b"Silf", b"Glat",
    b"Gloc", b"Feat", b"Sill",
]
assert len(KNOWN_TAGS) == 63


class Bad(Exception):
    pass


def read_base128(d, pos):
    """UIntBase128 (§4.1): at most 5 bytes, no leading zeros, value < 2^32."""
    acc = 0
    for i in range(5):
        if pos + i >= len(d):
            raise Bad("UIntBase128 truncated")
        b = d[pos + i]
        if i == 0 and b == 0x80:
            raise Bad("UIntBase128 with leading zeros")
        if acc & 0xFE000000:
            raise Bad("UIntBase128 overflows 32 bits")
        acc = (acc << 7) | (b & 0x7F)
        if not b & 0x80:
            return acc, pos + i + 1
    raise Bad("UIntBase128 longer than 5 bytes")


def read_255(d, pos):
    """255UInt16 (§4.2)."""
    try:
        c = d[pos]
        if c == 253:
            return (d[pos + 1] << 8) | d[pos + 2], pos + 3
        if c == 255:
            return d[pos + 1] + 253, pos + 2
        if c == 254:
            return d[pos + 1] + 506, pos + 2
        return c, pos + 1
    except IndexError:
        raise Bad("255UInt16 truncated")


def _triplet_table():
    """The 128-row triplet encoding table of §5.2, generated from its regular structure:
    (bytes after the flag, xBits, yBits, deltaX base, deltaY base, xSign, ySign)."""
    rows = []
    for i in range(128):
        if i < 10:
            rows.append((1, 0, 8, 0, (i >> 1) * 256, 0, 1 if i & 1 else -1))
        elif i < 20:
            rows.append((1, 8, 0, ((i - 10) >> 1) * 256, 0, 1 if i & 1 else -1, 0))
        elif i < 84:
            b = i - 20
            rows.append((1, 4, 4, 1 + 16 * (b >> 4), 1 + 16 * ((b >> 2) & 3), 1 if b & 1 else -1, 1 if b & 2 else -1))
        elif i < 120:
            b = i - 84
            rows.append((2, 8, 8, 1 + 256 * (b // 12), 1 + 256 * ((b % 12) >> 2), 1 if b & 1 else -1, 1 if b & 2 else -1))
        elif i < 124:
            b = i - 120
            rows.append((3, 12, 12, 0, 0, 1 if b & 1 else -1, 1 if b & 2 else -1))
        else:
            b = i - 124
            rows.append((4, 16, 16, 0, 0, 1 if b & 1 else -1, 1 if b & 2 else -1))
    return rows


TRIPLETS = _triplet_table()
# spot rows quoted from the specification's table
assert TRIPLETS[0] == (1, 0, 8, 0, 0, 0, -1) and TRIPLETS[1] == (1, 0, 8, 0, 0, 0, 1)
assert TRIPLETS[9] == (1, 0, 8, 0, 1024, 0, 1) and TRIPLETS[10] == (1, 8, 0, 0, 0, -1, 0)
assert TRIPLETS[20] == (1, 4, 4, 1, 1, -1, -1) and TRIPLETS[23] == (1, 4, 4, 1, 1, 1, 1)
assert TRIPLETS[24] == (1, 4, 4, 1, 17, -1, -1) and TRIPLETS[36] == (1, 4, 4, 17, 1, -1, -1)
assert TRIPLETS[83] == (1, 4, 4, 49, 49, 1, 1) and TRIPLETS[84] == (2, 8, 8, 1, 1, -1, -1)
assert TRIPLETS[88] == (2, 8, 8, 1, 257, -1, -1) and TRIPLETS[96] == (2, 8, 8, 257, 1, -1, -1)
assert TRIPLETS[119] == (2, 8, 8, 513, 513, 1, 1) and TRIPLETS[120] == (3, 12, 12, 0, 0, -1, -1)
assert TRIPLETS[127] == (4, 16, 16, 0, 0, 1, 1)


class _Stream:
    def __init__(self, d, name):
        self.d, self.pos, self.name = d, 0, name

    def take(self, n):
        if self.pos + n > len(self.d):
            raise Bad("%s exhausted" % self.name)
        r = self.d[self.pos:self.pos + n]
        self.pos += n
        return r

    def u255(self):
        v, self.pos = read_255(self.d, self.pos)
        return v

    def done(self):
        return self.pos == len(self.d)


def reconstruct_glyf(d):
    """Transformed glyf table (§5.1) -> (glyph list, info dict).  Raises Bad."""
    if len(d) < 36:
        raise Bad("transformed glyf header truncated")
    (reserved, option_flags, n, index_format, s_ncont, s_npts, s_flag, s_glyph, s_comp, s_bbox, s_instr) = \
        struct.unpack_from(">HHHHIIIIIII", d, 0)
    if reserved != 0:
        raise Bad("transformed glyf: reserved/version = %d" % reserved)
    if option_flags & ~1:
        raise Bad("transformed glyf: reserved optionFlags bits set (0x%04X)" % option_flags)
    if index_format not in (0, 1):
        raise Bad("transformed glyf: indexFormat %d" % index_format)
    pos = 36
    streams = []
    for size, name in ((s_ncont, "nContourStream"), (s_npts, "nPointsStream"), (s_flag, "flagStream"),
                       (s_glyph, "glyphStream"), (s_comp, "compositeStream"), (s_bbox, "bboxStream"),
                       (s_instr, "instructionStream")):
        if pos + size > len(d):
            raise Bad("%s runs past the end of the transformed table" % name)
        streams.append(_Stream(d[pos:pos + size], name))
        pos += size
    ncont, npts, flagS, glyphS, compS, bboxS, instrS = streams
    overlap_bits = None
    if option_flags & 1:
        osz = (n + 7) >> 3
        if pos + osz > len(d):
            raise Bad("overlapSimpleBitmap truncated")
        overlap_bits = d[pos:pos + osz]
        pos += osz
    if pos != len(d):
        raise Bad("transformed glyf table is %d bytes, streams account for %d" % (len(d), pos))
    if s_ncont != 2 * n:
        raise Bad("nContourStream is %d bytes for %d glyphs" % (s_ncont, n))
    bitmap = bboxS.take(((n + 31) >> 5) << 2)
    glyphs = []
    explicit_bbox = 0
    for gid in range(n):
        g = derived.G()
        (g.nc,) = struct.unpack(">h", ncont.take(2))
        has_bbox = bool(bitmap[gid >> 3] & (0x80 >> (gid & 7)))
        if g.nc == 0:
            if has_bbox:
                raise Bad("glyph %d is empty but has an explicit bbox" % gid)
            glyphs.append(g)
            continue
        if g.nc > 0:
            end = -1
            for _ in range(g.nc):
                k = npts.u255()
                end += k
                g.ends.append(end)
            total = end + 1
            x = y = 0
            for f in flagS.take(total):
                nbytes, xbits, ybits, dx0, dy0, xs, ys = TRIPLETS[f & 0x7F]
                raw = glyphS.take(nbytes)
                v = int.from_bytes(raw, "big")
                yv = v & ((1 << ybits) - 1)
                xv = (v >> ybits) & ((1 << xbits) - 1)
                x += xs * (dx0 + xv)
                y += ys * (dy0 + yv)
                g.pts.append((x, y, 0 if f & 0x80 else 1))
            ilen = glyphS.u255()
            g.instr = bytes(instrS.take(ilen))
            if overlap_bits is not None and overlap_bits[gid >> 3] & (0x80 >> (gid & 7)):
                g.overlap = True
            if has_bbox:
                g.bbox = struct.unpack(">hhhh", bboxS.take(8))
                explicit_bbox += 1
            else:
                xs_ = [p[0] for p in g.pts]
                ys_ = [p[1] for p in g.pts]
                g.bbox = (min(xs_), min(ys_), max(xs_), max(ys_))
        else:
            if g.nc != -1:
                raise Bad("glyph %d: nContours %d" % (gid, g.nc))
            try:
                g.comps, have_instr, used = derived.read_components(compS.d, compS.pos)
            except (derived.Bad, struct.error) as e:
                raise Bad("glyph %d: compositeStream: %s" % (gid, e))
            compS.pos = used
            if have_instr:
                ilen = glyphS.u255()
                g.instr = bytes(instrS.take(ilen))
            if not has_bbox:
                raise Bad("composite glyph %d has no explicit bbox" % gid)
            g.bbox = struct.unpack(">hhhh", bboxS.take(8))
            explicit_bbox += 1
        glyphs.append(g)
    for s in streams:
        if not s.done():
            raise Bad("%s has %d unused bytes" % (s.name, len(s.d) - s.pos))
    return glyphs, {"numGlyphs": n, "indexFormat": index_format, "optionFlags": option_flags,
                    "explicit_bbox": explicit_bbox, "overlap_bitmap": overlap_bits is not None}


def reconstruct_hmtx(d, n_hmetrics, n_glyphs, xmins):
    """Transformed hmtx (§5.4) -> original table bytes.  xmins[gid] = glyph xMin (0 for empty)."""
    if not d:
        raise Bad("transformed hmtx empty")
    flags = d[0]
    if flags & 0xFC:
        raise Bad("transformed hmtx: reserved flag bits set (0x%02X)" % flags)
    if not flags & 3:
        raise Bad("transformed hmtx: neither lsb array is elided (flags 0)")
    if n_hmetrics < 1 or n_hmetrics > n_glyphs:
        raise Bad("numberOfHMetrics %d with %d glyphs" % (n_hmetrics, n_glyphs))
    pos = 1
    need = 2 * n_hmetrics + (0 if flags & 1 else 2 * n_hmetrics) + (0 if flags & 2 else 2 * (n_glyphs - n_hmetrics))
    if len(d) != 1 + need:
        raise Bad("transformed hmtx is %d bytes, expected %d" % (len(d), 1 + need))
    adv = struct.unpack_from(">%dH" % n_hmetrics, d, pos)
    pos += 2 * n_hmetrics
    if flags & 1:
        lsb = [xmins[i] for i in range(n_hmetrics)]
    else:
        lsb = struct.unpack_from(">%dh" % n_hmetrics, d, pos)
        pos += 2 * n_hmetrics
    rest = n_glyphs - n_hmetrics
    if flags & 2:
        lsb2 = [xmins[i] for i in range(n_hmetrics, n_glyphs)]
    else:
        lsb2 = struct.unpack_from(">%dh" % rest, d, pos)
    out = b"".join(struct.pack(">Hh", a, l) for a, l in zip(adv, lsb))
    return out + struct.pack(">%dh" % rest, *lsb2), flags


def validate_woff2(data):
    p = Parsed("woff2")
    data = bytes(data)
    if len(data) < 48:
        p.bad("truncated", "WOFF2 header truncated")
        return p
    (sig, flavor, length, n, reserved, total_sfnt, total_comp, major, minor,
     meta_off, meta_len, meta_orig, priv_off, priv_len) = struct.unpack_from(">4s4sIHHIIHHIIIII", data, 0)
    if sig != b"wOF2":
        p.bad("signature", "signature %r" % sig)
        return p
    p.version = flavor
    if flavor == b"ttcf":
        p.bad("unsupported", "WOFF2 collections are not handled by this oracle")
        return p
    if flavor not in SFNT_VERSIONS:
        p.bad("sfntVersion", "unknown flavor %r" % flavor)
    if length != len(data):
        p.bad("length", "header length %d, file is %d bytes" % (length, len(data)))
    if reserved:
        p.bad("reserved", "reserved = %d" % reserved)
    pos = 48
    entries = []
    try:
        for i in range(n):
            if pos >= len(data):
                raise Bad("table directory truncated")
            fl = data[pos]
            pos += 1
            idx = fl & 0x3F
            if idx == 63:
                tag = data[pos:pos + 4]
                pos += 4
                if tag in KNOWN_TAGS:
                    p.bad("known-tag", "tag %r is in the known-tag table but is spelled out" % tag)
            else:
                tag = KNOWN_TAGS[idx]
            ver = fl >> 6
            orig, pos = read_base128(data, pos)
            transformed = (ver != 3) if tag in (b"glyf", b"loca") else (ver != 0)
            tlen = None
            if transformed:
                tlen, pos = read_base128(data, pos)
            entries.append({"tag": tag, "length": orig, "transformLength": tlen, "version": ver})
    except Bad as e:
        p.bad("directory", str(e))
        return p
    p.entries = entries
    tags = [e["tag"] for e in entries]
    p.order = list(tags)
    if any(a >= b for a, b in zip(tags, tags[1:])):
        p.bad("directory-order", "WOFF2 table directory not in strictly ascending tag order: %s"
              % b" ".join(tags).decode("latin-1"))
    by = {e["tag"]: e for e in entries}
    if len(by) != len(entries):
        p.bad("directory", "duplicate tags")
    gt = by.get(b"glyf", {}).get("transformLength") is not None
    lt = by.get(b"loca", {}).get("transformLength") is not None
    if (b"glyf" in by) != (b"loca" in by) or gt != lt:
        p.bad("glyf-loca", "glyf and loca must both be present and use the same transform")
    if gt and lt and tags.index(b"loca") < tags.index(b"glyf"):
        # (adjacency is only required inside collection directories, §4.2)
        p.bad("glyf-loca", "transformed loca precedes glyf in the directory")
    if lt and by[b"loca"]["transformLength"] != 0:
        p.bad("transformLength", "transformed loca has transformLength %d (must be 0)" % by[b"loca"]["transformLength"])
    for e in entries:
        if e["tag"] not in (b"glyf", b"loca", b"hmtx") and e["version"] != 0:
            p.bad("transform-version", "table %s has transform version %d" % (e["tag"].decode("latin-1"), e["version"]))
        if e["tag"] == b"hmtx" and e["version"] not in (0, 1):
            p.bad("transform-version", "hmtx transform version %d" % e["version"])
        if e["tag"] in (b"glyf", b"loca") and e["version"] not in (0, 3):
            p.bad("transform-version", "%s transform version %d" % (e["tag"].decode("latin-1"), e["version"]))
    want_total = 12 + 16 * n + sum(pad4(e["length"]) for e in entries)
    if total_sfnt != want_total:
        p.bad("totalSfntSize", "totalSfntSize %d, expected 12+16*%d+padded origLengths = %d" % (total_sfnt, n, want_total))
    if b"DSIG" in by:
        p.bad("DSIG", "DSIG table kept in a WOFF2 file although glyf/loca/head were rewritten")
    if pos + total_comp > len(data):
        p.bad("totalCompressedSize", "compressed stream [%d,+%d) runs past the end of the file" % (pos, total_comp))
        return p
    try:
        stream = brotli.decompress(data[pos:pos + total_comp])
    except brotli.error as e:
        p.bad("brotli", "compressed stream: %s" % e)
        return p
    pos += total_comp
    want_len = sum(e["length"] if e["transformLength"] is None else e["transformLength"] for e in entries)
    if len(stream) != want_len:
        p.bad("stream-length", "decompressed stream is %d bytes, directory lengths add up to %d" % (len(stream), want_len))
        return p
    # trailing blocks
    end = pad4(pos)
    if meta_len or priv_len:
        if any(data[pos:end]):
            p.bad("padding", "padding after the compressed stream is not zero")
    if meta_len == 0:
        if meta_off or meta_orig:
            p.bad("metadata", "metaLength 0 but metaOffset %d metaOrigLength %d" % (meta_off, meta_orig))
        cur = pos
    else:
        if meta_off != end:
            p.bad("metadata", "metaOffset %d, expected %d" % (meta_off, end))
        try:
            md = brotli.decompress(data[meta_off:meta_off + meta_len])
            if len(md) != meta_orig:
                p.bad("metadata", "metaOrigLength %d, decompressed %d" % (meta_orig, len(md)))
            p.info["metadata"] = md
        except brotli.error as e:
            p.bad("metadata", "metadata brotli: %s" % e)
        cur = meta_off + meta_len
    if priv_len == 0:
        if priv_off:
            p.bad("private", "privLength 0 but privOffset %d" % priv_off)
    else:
        if any(data[cur:pad4(cur)]):
            p.bad("padding", "padding before the private block is not zero")
        if priv_off != pad4(cur):
            p.bad("private", "privOffset %d, expected %d" % (priv_off, pad4(cur)))
        p.info["private"] = data[priv_off:priv_off + priv_len]
        cur = priv_off + priv_len
    if cur == pos:
        # nothing after the stream: the file is padded to a multiple of 4 with zeros
        if any(data[pos:]) or len(data) not in (pos, pad4(pos)):
            p.bad("file-length", "file is %d bytes, compressed stream ends at %d" % (len(data), pos))
    elif cur != len(data):
        p.bad("file-length", "file is %d bytes, last block ends at %d" % (len(data), cur))
    # split the stream
    off = 0
    raw = {}
    for e in entries:
        l = e["length"] if e["transformLength"] is None else e["transformLength"]
        raw[e["tag"]] = stream[off:off + l]
        off += l
        if e["transformLength"] is None:
            p.tables[e["tag"]] = raw[e["tag"]]
    p.info.update({"numTables": n, "transformed": sorted(e["tag"].decode("latin-1") for e in entries
                                                         if e["transformLength"] is not None)})
    # head: bit 11 of flags must be set (§5: lossless modifying transform)
    if b"head" in p.tables and len(p.tables[b"head"]) >= 18:
        if not struct.unpack_from(">H", p.tables[b"head"], 16)[0] & 0x0800:
            p.bad("head-flags", "head.flags bit 11 is not set in a WOFF2 file")
    # glyf / loca
    p.glyphs = None
    if gt:
        try:
            glyphs, ginfo = reconstruct_glyf(raw[b"glyf"])
        except Bad as e:
            p.bad("glyf-transform", str(e))
        else:
            p.glyphs = glyphs
            p.info["glyf"] = ginfo
            if lt:
                want = (ginfo["numGlyphs"] + 1) * (4 if ginfo["indexFormat"] else 2)
                if by[b"loca"]["length"] != want:
                    p.bad("loca-origLength", "loca origLength %d, numGlyphs %d with indexFormat %d needs %d"
                          % (by[b"loca"]["length"], ginfo["numGlyphs"], ginfo["indexFormat"], want))
    # hmtx
    he = by.get(b"hmtx")
    if he is not None and he["transformLength"] is not None:
        try:
            glyphs = p.glyphs
            if glyphs is None:
                # glyf stored with the null transform: xMin comes from the plain glyf/loca tables
                head = derived.read_head(p.tables[b"head"])
                maxp = derived.read_maxp(p.tables[b"maxp"])
                loca = derived.read_loca(p.tables[b"loca"], head["indexToLocFormat"], maxp["numGlyphs"])
                glyphs, gprobs = derived.read_glyf(p.tables[b"glyf"], loca)
                if any(g is None for g in glyphs):
                    raise Bad("hmtx transform: glyf table unreadable")
            hhea = derived.read_xhea(p.tables[b"hhea"])
            xmins = [g.bbox[0] if g.bbox else 0 for g in glyphs]
            body, hflags = reconstruct_hmtx(raw[b"hmtx"], hhea["numberOfMetrics"], len(glyphs), xmins)
            if len(body) != he["length"]:
                p.bad("hmtx-origLength", "hmtx origLength %d, reconstructed %d bytes" % (he["length"], len(body)))
            p.tables[b"hmtx"] = body
            p.info["hmtx_flags"] = hflags
        except (Bad, derived.Bad, KeyError) as e:
            p.bad("hmtx-transform", str(e))
    return p
