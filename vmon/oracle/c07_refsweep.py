"""Glyph-id reference sweep over the bytes of a saved font (C07 oracle (d), also used by C18).

Written from the OpenType specification with `struct` only; shares no code with
fontTools.  `sweep(data)` walks every table that can name a glyph id
(cmap, glyf composites, GSUB, GPOS, GDEF, COLR v0/v1, MATH, kern, VORG, SVG) and returns

    {"numGlyphs": n,
     "refs":     {"<table>.<where>": set(glyph ids)},     # every glyph id found
     "problems": [(table, kind, detail)],                 # spec-level inconsistencies
     "stats":    Counter of visited structures ("GSUB.type4", "GPOS.type2.f1", ...),
     "cmap":     {code point: gid}  (union of the Unicode subtables, best first)}

`problems` holds only things the specification forbids: an index out of range
(lookup, feature, mark-filtering set), array lengths that must equal a coverage count and do
not, a table whose glyph count disagrees with maxp, an offset that leaves its table.
"""
import struct
from collections import Counter


class Bad(Exception):
    pass


class R:
    """Bounds-checked big-endian reader on one table."""

    def __init__(self, data, tag):
        self.d = data
        self.tag = tag
        self.n = len(data)

    def _chk(self, off, size):
        if off < 0 or off + size > self.n:
            raise Bad("%s: read of %d bytes at %d leaves the table (%d bytes)" % (self.tag, size, off, self.n))

    def u8(self, off):
        self._chk(off, 1)
        return self.d[off]

    def u16(self, off):
        self._chk(off, 2)
        return (self.d[off] << 8) | self.d[off + 1]

    def i16(self, off):
        v = self.u16(off)
        return v - 65536 if v >= 32768 else v

    def u24(self, off):
        self._chk(off, 3)
        return (self.d[off] << 16) | (self.d[off + 1] << 8) | self.d[off + 2]

    def u32(self, off):
        self._chk(off, 4)
        return struct.unpack_from(">L", self.d, off)[0]

    def u16s(self, off, count):
        self._chk(off, 2 * count)
        return list(struct.unpack_from(">%dH" % count, self.d, off)) if count else []

    def u32s(self, off, count):
        self._chk(off, 4 * count)
        return list(struct.unpack_from(">%dL" % count, self.d, off)) if count else []


def directory(data):
    """-> {tag: bytes} of a plain sfnt (first member of a TTC)."""
    if data[:4] == b"ttcf":
        off = struct.unpack_from(">L", data, 12)[0]
    else:
        off = 0
    num = struct.unpack_from(">H", data, off + 4)[0]
    out = {}
    for i in range(num):
        tag, _cs, o, l = struct.unpack_from(">4sLLL", data, off + 12 + 16 * i)
        if o + l > len(data):
            raise Bad("directory entry %r leaves the file" % tag)
        out[tag.decode("latin-1")] = data[o:o + l]
    return out


# ---------------------------------------------------------------- common layout
def coverage(r, off):
    """-> list of glyph ids in coverage-index order."""
    fmt = r.u16(off)
    if fmt == 1:
        n = r.u16(off + 2)
        return r.u16s(off + 4, n)
    if fmt == 2:
        n = r.u16(off + 2)
        out = []
        for i in range(n):
            s, e, sci = r.u16s(off + 4 + 6 * i, 3)
            if e < s:
                raise Bad("%s: coverage range end < start" % r.tag)
            if sci != len(out):
                raise Bad("%s: coverage range startCoverageIndex %d, expected %d" % (r.tag, sci, len(out)))
            out.extend(range(s, e + 1))
        return out
    raise Bad("%s: coverage format %d" % (r.tag, fmt))


def classdef(r, off):
    """-> {gid: class} for the non-zero classes."""
    fmt = r.u16(off)
    out = {}
    if fmt == 1:
        start, n = r.u16s(off + 2, 2)
        for i, c in enumerate(r.u16s(off + 6, n)):
            if c:
                out[start + i] = c
        return out
    if fmt == 2:
        n = r.u16(off + 2)
        for i in range(n):
            s, e, c = r.u16s(off + 4 + 6 * i, 3)
            if e < s:
                raise Bad("%s: classdef range end < start" % r.tag)
            if c:
                for g in range(s, e + 1):
                    out[g] = c
        return out
    raise Bad("%s: classdef format %d" % (r.tag, fmt))


class Sweep:
    def __init__(self):
        self.refs = {}
        self.problems = []
        self.stats = Counter()
        self.numGlyphs = None
        self.cmap = {}
        self.tables = []
        self.mark_set_count = 0
        self.mark_sets_used = set()
        self.features = {}
        self.scripts = {}
        self.required = {}

    def ref(self, where, gids):
        self.refs.setdefault(where, set()).update(gids)

    def problem(self, table, kind, detail):
        if len(self.problems) < 200:
            self.problems.append((table, kind, detail))


# ---------------------------------------------------------------- cmap
def _cmap_subtable(r, off):
    fmt = r.u16(off)
    m = {}
    if fmt == 0:
        for c in range(256):
            g = r.u8(off + 6 + c)
            if g:
                m[c] = g
    elif fmt == 4:
        segx2 = r.u16(off + 6)
        seg = segx2 // 2
        ends = r.u16s(off + 14, seg)
        starts = r.u16s(off + 16 + segx2, seg)
        deltas = r.u16s(off + 16 + 2 * segx2, seg)
        ro_off = off + 16 + 3 * segx2
        ros = r.u16s(ro_off, seg)
        for i in range(seg):
            s, e = starts[i], ends[i]
            if s > e:
                continue
            for c in range(s, e + 1):
                if c == 0xFFFF:
                    continue
                if ros[i] == 0:
                    g = (c + deltas[i]) & 0xFFFF
                else:
                    p = ro_off + 2 * i + ros[i] + 2 * (c - s)
                    g = r.u16(p)
                    if g:
                        g = (g + deltas[i]) & 0xFFFF
                if g:
                    m[c] = g
    elif fmt == 6:
        first, n = r.u16s(off + 6, 2)
        for i, g in enumerate(r.u16s(off + 10, n)):
            if g:
                m[first + i] = g
    elif fmt == 10:
        start, n = r.u32s(off + 12, 2)
        for i, g in enumerate(r.u16s(off + 20, n)):
            if g:
                m[start + i] = g
    elif fmt in (12, 13):
        n = r.u32(off + 12)
        for i in range(n):
            s, e, g0 = r.u32s(off + 16 + 12 * i, 3)
            if e < s or e - s > 0x110000:
                raise Bad("cmap: format %d group end < start" % fmt)
            for c in range(s, e + 1):
                g = g0 + (c - s) if fmt == 12 else g0
                if g:
                    m[c] = g
    elif fmt == 14:
        n = r.u32(off + 6)
        uvs = {}
        for i in range(n):
            p = off + 10 + 11 * i
            vs = r.u24(p)
            nd = r.u32(p + 7)
            if nd:
                q = off + nd
                cnt = r.u32(q)
                for k in range(cnt):
                    u = r.u24(q + 4 + 5 * k)
                    g = r.u16(q + 4 + 5 * k + 3)
                    uvs[(u, vs)] = g
        return fmt, uvs
    elif fmt in (2, 8):
        return fmt, None
    else:
        raise Bad("cmap: unknown subtable format %d" % fmt)
    return fmt, m


def sweep_cmap(S, data):
    r = R(data, "cmap")
    n = r.u16(2)
    seen = {}
    uni = []
    for i in range(n):
        pid, eid = r.u16s(4 + 8 * i, 2)
        off = r.u32(8 + 8 * i)
        if off not in seen:
            seen[off] = _cmap_subtable(r, off)
        fmt, m = seen[off]
        S.stats["cmap.format%d" % fmt] += 1
        if m is None:
            continue
        if fmt == 14:
            S.ref("cmap.uvs", m.values())
            continue
        S.ref("cmap.%d.%d.f%d" % (pid, eid, fmt), m.values())
        if pid == 0 or (pid == 3 and eid in (1, 10)):
            # HarfBuzz preference: 3/10, 0/6, 0/4, 3/1, 0/3, 0/2, 0/1, 0/0
            rank = {(3, 10): 0, (0, 6): 1, (0, 4): 2, (3, 1): 3, (0, 3): 4, (0, 2): 5, (0, 1): 6, (0, 0): 7}.get((pid, eid), 9)
            uni.append((rank, m))
    for _rank, m in sorted(uni, key=lambda t: -t[0]):
        S.cmap.update(m)


# ---------------------------------------------------------------- glyf
def sweep_glyf(S, tables):
    head = R(tables["head"], "head")
    loca = R(tables["loca"], "loca")
    glyf = R(tables["glyf"], "glyf")
    n = S.numGlyphs
    longf = head.i16(50)
    if longf:
        need = 4 * (n + 1)
        if loca.n < need:
            S.problem("loca", "length", "loca has %d bytes, numGlyphs+1 long offsets need %d" % (loca.n, need))
            return
        offs = loca.u32s(0, n + 1)
    else:
        need = 2 * (n + 1)
        if loca.n < need:
            S.problem("loca", "length", "loca has %d bytes, numGlyphs+1 short offsets need %d" % (loca.n, need))
            return
        offs = [2 * v for v in loca.u16s(0, n + 1)]
    comps = set()
    ncomp = 0
    for g in range(n):
        a, b = offs[g], offs[g + 1]
        if b < a or b > glyf.n:
            S.problem("loca", "offsets", "glyph %d: offsets %d..%d outside glyf (%d bytes)" % (g, a, b, glyf.n))
            continue
        if b - a < 10:
            continue
        if glyf.i16(a) >= 0:
            continue
        ncomp += 1
        p = a + 10
        while True:
            flags, gi = glyf.u16s(p, 2)
            comps.add(gi)
            p += 4
            p += 4 if flags & 0x0001 else 2
            if flags & 0x0008:
                p += 2
            elif flags & 0x0040:
                p += 4
            elif flags & 0x0080:
                p += 8
            if not flags & 0x0020:
                break
    S.stats["glyf.composites"] += ncomp
    S.ref("glyf.components", comps)


# ---------------------------------------------------------------- GSUB / GPOS
def _vsize(fmt):
    return 2 * bin(fmt & 0xFF).count("1")


class Layout:
    def __init__(self, S, data, tag):
        self.S, self.tag = S, tag
        self.r = R(data, tag)
        self.nlookups = 0

    def ref(self, where, gids):
        self.S.ref("%s.%s" % (self.tag, where), gids)

    def run(self):
        r = self.r
        major, minor, so, fo, lo = r.u16s(0, 5)
        fvo = r.u32(10) if (major == 1 and minor >= 1) else 0
        nfeat = 0
        self.nlookups = r.u16(lo) if lo else 0
        if fo:
            nfeat = r.u16(fo)
            for i in range(nfeat):
                r._chk(fo + 2 + 6 * i, 4)
                self.S.features.setdefault(self.tag, []).append(r.d[fo + 2 + 6 * i:fo + 6 + 6 * i].decode("latin-1"))
                foff = fo + r.u16(fo + 2 + 6 * i + 4)
                self._feature(foff, "feature[%d]" % i)
        if so:
            ns = r.u16(so)
            for i in range(ns):
                sc = so + r.u16(so + 2 + 6 * i + 4)
                dl = r.u16(sc)
                nl = r.u16(sc + 2)
                r._chk(so + 2 + 6 * i, 4)
                stag = r.d[so + 2 + 6 * i:so + 6 + 6 * i].decode("latin-1")
                langs = [r.d[sc + 4 + 6 * k:sc + 8 + 6 * k].decode("latin-1") for k in range(nl)]
                self.S.scripts.setdefault(self.tag, {})[stag] = (["dflt"] if dl else []) + langs
                lss = ([sc + dl] if dl else []) + [sc + r.u16(sc + 4 + 6 * k + 4) for k in range(nl)]
                lnames = (["dflt"] if dl else []) + langs
                for ls, lname in zip(lss, lnames):
                    req = r.u16(ls + 2)
                    cnt = r.u16(ls + 4)
                    idx = r.u16s(ls + 6, cnt)
                    if req != 0xFFFF:
                        idx = idx + [req]
                        self.S.required.setdefault(self.tag, []).append((stag, lname, req))
                    for fi in idx:
                        if fi >= nfeat:
                            self.S.problem(self.tag, "feature-index", "LangSys names feature %d of %d" % (fi, nfeat))
            self.S.stats["%s.scripts" % self.tag] += ns
        if fvo:
            nrec = r.u32(fvo + 4)
            for i in range(nrec):
                cso, fto = r.u32s(fvo + 8 + 8 * i, 2)
                if fto:
                    t = fvo + fto
                    cnt = r.u16(t + 4)
                    for k in range(cnt):
                        fi = r.u16(t + 6 + 6 * k)
                        ao = r.u32(t + 6 + 6 * k + 2)
                        if fi >= nfeat:
                            self.S.problem(self.tag, "feature-index", "FeatureVariations substitutes feature %d of %d" % (fi, nfeat))
                        self._feature(t + ao, "featurevariation")
            self.S.stats["%s.featureVariationRecords" % self.tag] += nrec
        if lo:
            for i in range(self.nlookups):
                self._lookup(lo + r.u16(lo + 2 + 2 * i), i)

    def _feature(self, off, what):
        r = self.r
        cnt = r.u16(off + 2)
        for li in r.u16s(off + 4, cnt):
            if li >= self.nlookups:
                self.S.problem(self.tag, "lookup-index", "%s names lookup %d of %d" % (what, li, self.nlookups))

    def _lookup(self, off, index):
        r = self.r
        ltype, flag, cnt = r.u16s(off, 3)
        subs = r.u16s(off + 6, cnt)
        if flag & 0x10:
            mfs = r.u16(off + 6 + 2 * cnt)
            self.S.mark_sets_used.add(mfs)
        for so in subs:
            self._subtable(ltype, off + so)

    def _subtable(self, ltype, off):
        r = self.r
        ext = 7 if self.tag == "GSUB" else 9
        if ltype == ext:
            fmt, et = r.u16s(off, 2)
            eo = r.u32(off + 4)
            self.S.stats["%s.extension" % self.tag] += 1
            if et == ext:
                raise Bad("%s: extension of extension" % self.tag)
            return self._subtable(et, off + eo)
        fmt = r.u16(off)
        self.S.stats["%s.type%d.f%d" % (self.tag, ltype, fmt)] += 1
        name = "type%d" % ltype
        if self.tag == "GSUB":
            if ltype == 1:
                cov = coverage(r, off + r.u16(off + 2))
                self.ref(name + ".coverage", cov)
                if fmt == 1:
                    d = r.u16(off + 4)
                    self.ref(name + ".out", [(g + d) & 0xFFFF for g in cov])
                elif fmt == 2:
                    n = r.u16(off + 4)
                    self._count(name, "substitutes", n, len(cov))
                    self.ref(name + ".out", r.u16s(off + 6, n))
                else:
                    raise Bad("GSUB type 1 format %d" % fmt)
            elif ltype in (2, 3):
                cov = coverage(r, off + r.u16(off + 2))
                self.ref(name + ".coverage", cov)
                n = r.u16(off + 4)
                self._count(name, "sequences", n, len(cov))
                for so in r.u16s(off + 6, n):
                    k = r.u16(off + so)
                    self.ref(name + ".out", r.u16s(off + so + 2, k))
            elif ltype == 4:
                cov = coverage(r, off + r.u16(off + 2))
                self.ref(name + ".coverage", cov)
                n = r.u16(off + 4)
                self._count(name, "ligatureSets", n, len(cov))
                for so in r.u16s(off + 6, n):
                    ls = off + so
                    for lo in r.u16s(ls + 2, r.u16(ls)):
                        lig = ls + lo
                        self.ref(name + ".out", [r.u16(lig)])
                        cc = r.u16(lig + 2)
                        self.ref(name + ".components", r.u16s(lig + 4, max(cc - 1, 0)))
            elif ltype == 5:
                self._context(name, off, fmt)
            elif ltype == 6:
                self._chain(name, off, fmt)
            elif ltype == 8:
                cov = coverage(r, off + r.u16(off + 2))
                self.ref(name + ".coverage", cov)
                p = off + 4
                for which in ("backtrack", "lookahead"):
                    n = r.u16(p)
                    for co in r.u16s(p + 2, n):
                        self.ref(name + "." + which, coverage(r, off + co))
                    p += 2 + 2 * n
                n = r.u16(p)
                self._count(name, "substitutes", n, len(cov))
                self.ref(name + ".out", r.u16s(p + 2, n))
            else:
                raise Bad("GSUB lookup type %d" % ltype)
            return
        # GPOS
        if ltype == 1:
            cov = coverage(r, off + r.u16(off + 2))
            self.ref(name + ".coverage", cov)
            if fmt == 2:
                self._count(name, "values", r.u16(off + 6), len(cov))
        elif ltype == 2:
            cov = coverage(r, off + r.u16(off + 2))
            self.ref(name + ".coverage", cov)
            vf1, vf2 = r.u16s(off + 4, 2)
            if fmt == 1:
                n = r.u16(off + 8)
                self._count(name, "pairSets", n, len(cov))
                rec = 2 + _vsize(vf1) + _vsize(vf2)
                for po in r.u16s(off + 10, n):
                    ps = off + po
                    k = r.u16(ps)
                    r._chk(ps + 2, rec * k)
                    self.ref(name + ".second", [r.u16(ps + 2 + rec * j) for j in range(k)])
            elif fmt == 2:
                cd1 = classdef(r, off + r.u16(off + 8))
                cd2 = classdef(r, off + r.u16(off + 10))
                c1, c2 = r.u16s(off + 12, 2)
                self.ref(name + ".classdef1", cd1)
                self.ref(name + ".classdef2", cd2)
                if cd1 and max(cd1.values()) >= c1:
                    self.S.problem("GPOS", "class-count", "PairPos f2: class1 %d used, class1Count %d" % (max(cd1.values()), c1))
                if cd2 and max(cd2.values()) >= c2:
                    self.S.problem("GPOS", "class-count", "PairPos f2: class2 %d used, class2Count %d" % (max(cd2.values()), c2))
                r._chk(off + 16, c1 * c2 * (_vsize(vf1) + _vsize(vf2)))
            else:
                raise Bad("GPOS type 2 format %d" % fmt)
        elif ltype == 3:
            cov = coverage(r, off + r.u16(off + 2))
            self.ref(name + ".coverage", cov)
            self._count(name, "entryExit", r.u16(off + 4), len(cov))
        elif ltype in (4, 5, 6):
            mcov = coverage(r, off + r.u16(off + 2))
            bcov = coverage(r, off + r.u16(off + 4))
            self.ref(name + ".markCoverage", mcov)
            self.ref(name + ".baseCoverage", bcov)
            ncls = r.u16(off + 6)
            ma = off + r.u16(off + 8)
            ba = off + r.u16(off + 10)
            mc = r.u16(ma)
            self._count(name, "markArray", mc, len(mcov))
            for j in range(mc):
                c = r.u16(ma + 2 + 4 * j)
                if c >= ncls:
                    self.S.problem("GPOS", "class-count", "mark class %d, classCount %d" % (c, ncls))
            self._count(name, "baseArray", r.u16(ba), len(bcov))
        elif ltype == 7:
            self._context(name, off, fmt)
        elif ltype == 8:
            self._chain(name, off, fmt)
        else:
            raise Bad("GPOS lookup type %d" % ltype)

    def _count(self, name, what, got, want):
        if got != want:
            self.S.problem(self.tag, "array-vs-coverage", "%s: %d %s for %d covered glyphs" % (name, got, what, want))

    def _records(self, p, n, seqlen, name):
        r = self.r
        for i in range(n):
            si, li = r.u16s(p + 4 * i, 2)
            if li >= self.nlookups:
                self.S.problem(self.tag, "lookup-index", "%s: nested lookup %d of %d" % (name, li, self.nlookups))
            if seqlen is not None and si >= seqlen:
                self.S.problem(self.tag, "sequence-index", "%s: sequence index %d in input of %d" % (name, si, seqlen))

    def _context(self, name, off, fmt):
        r = self.r
        if fmt == 1:
            cov = coverage(r, off + r.u16(off + 2))
            self.ref(name + ".coverage", cov)
            n = r.u16(off + 4)
            self._count(name, "ruleSets", n, len(cov))
            for so in r.u16s(off + 6, n):
                if not so:
                    continue
                rs = off + so
                for ro in r.u16s(rs + 2, r.u16(rs)):
                    ru = rs + ro
                    gc, lc = r.u16s(ru, 2)
                    self.ref(name + ".input", r.u16s(ru + 4, max(gc - 1, 0)))
                    self._records(ru + 4 + 2 * max(gc - 1, 0), lc, gc, name)
        elif fmt == 2:
            cov = coverage(r, off + r.u16(off + 2))
            self.ref(name + ".coverage", cov)
            cd = classdef(r, off + r.u16(off + 4))
            self.ref(name + ".classdef", cd)
            n = r.u16(off + 6)  # classes beyond the last class set simply have no rules
            for so in r.u16s(off + 8, n):
                if not so:
                    continue
                rs = off + so
                for ro in r.u16s(rs + 2, r.u16(rs)):
                    ru = rs + ro
                    gc, lc = r.u16s(ru, 2)
                    self._records(ru + 4 + 2 * max(gc - 1, 0), lc, gc, name)
        elif fmt == 3:
            gc, lc = r.u16s(off + 2, 2)
            for co in r.u16s(off + 6, gc):
                self.ref(name + ".input", coverage(r, off + co))
            self._records(off + 6 + 2 * gc, lc, gc, name)
        else:
            raise Bad("%s context format %d" % (self.tag, fmt))

    def _chain(self, name, off, fmt):
        r = self.r
        if fmt == 1:
            cov = coverage(r, off + r.u16(off + 2))
            self.ref(name + ".coverage", cov)
            n = r.u16(off + 4)
            self._count(name, "chainRuleSets", n, len(cov))
            for so in r.u16s(off + 6, n):
                if not so:
                    continue
                rs = off + so
                for ro in r.u16s(rs + 2, r.u16(rs)):
                    p = rs + ro
                    bc = r.u16(p)
                    self.ref(name + ".backtrack", r.u16s(p + 2, bc))
                    p += 2 + 2 * bc
                    ic = r.u16(p)
                    self.ref(name + ".input", r.u16s(p + 2, max(ic - 1, 0)))
                    p += 2 + 2 * max(ic - 1, 0)
                    lc = r.u16(p)
                    self.ref(name + ".lookahead", r.u16s(p + 2, lc))
                    p += 2 + 2 * lc
                    self._records(p + 2, r.u16(p), ic, name)
        elif fmt == 2:
            cov = coverage(r, off + r.u16(off + 2))
            self.ref(name + ".coverage", cov)
            for k, which in enumerate(("backtrackClassDef", "inputClassDef", "lookaheadClassDef")):
                co = r.u16(off + 4 + 2 * k)
                if co:
                    cd = classdef(r, off + co)
                    self.ref(name + "." + which, cd)
            n = r.u16(off + 10)
            for so in r.u16s(off + 12, n):
                if not so:
                    continue
                rs = off + so
                for ro in r.u16s(rs + 2, r.u16(rs)):
                    p = rs + ro
                    bc = r.u16(p)
                    p += 2 + 2 * bc
                    ic = r.u16(p)
                    p += 2 + 2 * max(ic - 1, 0)
                    lc = r.u16(p)
                    p += 2 + 2 * lc
                    self._records(p + 2, r.u16(p), ic, name)
        elif fmt == 3:
            p = off + 2
            ic = None
            for which in ("backtrack", "input", "lookahead"):
                n = r.u16(p)
                if which == "input":
                    ic = n
                for co in r.u16s(p + 2, n):
                    self.ref(name + "." + which, coverage(r, off + co))
                p += 2 + 2 * n
            self._records(p + 2, r.u16(p), ic, name)
        else:
            raise Bad("%s chain context format %d" % (self.tag, fmt))


# ---------------------------------------------------------------- GDEF
def sweep_gdef(S, data):
    r = R(data, "GDEF")
    major, minor, gcd, al, lcl, macd = r.u16s(0, 6)
    mgs = r.u16(12) if minor >= 2 else 0
    if gcd:
        S.ref("GDEF.glyphClassDef", classdef(r, gcd))
    if al:
        cov = coverage(r, al + r.u16(al))
        S.ref("GDEF.attachList", cov)
        if r.u16(al + 2) != len(cov):
            S.problem("GDEF", "array-vs-coverage", "AttachList: %d points for %d covered glyphs" % (r.u16(al + 2), len(cov)))
    if lcl:
        cov = coverage(r, lcl + r.u16(lcl))
        S.ref("GDEF.ligCaretList", cov)
        if r.u16(lcl + 2) != len(cov):
            S.problem("GDEF", "array-vs-coverage", "LigCaretList: %d entries for %d covered glyphs" % (r.u16(lcl + 2), len(cov)))
    if macd:
        S.ref("GDEF.markAttachClassDef", classdef(r, macd))
    S.mark_set_count = 0
    if mgs:
        n = r.u16(mgs + 2)
        S.mark_set_count = n
        for o in r.u32s(mgs + 4, n):
            S.ref("GDEF.markGlyphSets", coverage(r, mgs + o))
    S.stats["GDEF"] += 1


# ---------------------------------------------------------------- COLR
_PAINT_CHILD24 = set(range(12, 32)) | {10}


def sweep_colr(S, data):
    r = R(data, "COLR")
    version, nbase = r.u16s(0, 2)
    bo, lo = r.u32s(4, 2)
    nlay = r.u16(12)
    for i in range(nbase):
        g, first, cnt = r.u16s(bo + 6 * i, 3)
        S.ref("COLR.baseGlyph", [g])
        if first + cnt > nlay:
            S.problem("COLR", "layer-index", "base glyph %d: layers %d+%d of %d" % (g, first, cnt, nlay))
    for i in range(nlay):
        S.ref("COLR.layerGlyph", [r.u16(lo + 4 * i)])
    S.stats["COLR.v0.baseGlyphs"] += nbase
    if version < 1:
        return
    bgl, ll, cl = r.u32s(14, 3)
    layer_paints = []
    if ll:
        n = r.u32(ll)
        layer_paints = [ll + o for o in r.u32s(ll + 4, n)]
    seen = set()
    stack = []
    if bgl:
        n = r.u32(bgl)
        for i in range(n):
            g = r.u16(bgl + 4 + 6 * i)
            po = r.u32(bgl + 4 + 6 * i + 2)
            S.ref("COLR.baseGlyphPaint", [g])
            stack.append(bgl + po)
        S.stats["COLR.v1.baseGlyphPaints"] += n
    stack.extend(layer_paints)
    while stack:
        p = stack.pop()
        if p in seen:
            continue
        seen.add(p)
        fmt = r.u8(p)
        S.stats["COLR.paint%d" % fmt] += 1
        if fmt == 1:
            cnt = r.u8(p + 1)
            first = r.u32(p + 2)
            if first + cnt > len(layer_paints):
                S.problem("COLR", "layer-index", "PaintColrLayers %d+%d of %d" % (first, cnt, len(layer_paints)))
            else:
                stack.extend(layer_paints[first:first + cnt])
        elif fmt == 10:
            stack.append(p + r.u24(p + 1))
            S.ref("COLR.paintGlyph", [r.u16(p + 4)])
        elif fmt == 11:
            S.ref("COLR.paintColrGlyph", [r.u16(p + 1)])
        elif fmt in _PAINT_CHILD24:
            stack.append(p + r.u24(p + 1))
        elif fmt == 32:
            stack.append(p + r.u24(p + 1))
            stack.append(p + r.u24(p + 5))
        elif 2 <= fmt <= 9:
            pass
        else:
            raise Bad("COLR: paint format %d" % fmt)
    if cl:
        n = r.u32(cl + 1)
        clip = set()
        for i in range(n):
            s, e = r.u16s(cl + 5 + 7 * i, 2)
            if e < s:
                raise Bad("COLR: clip range end < start")
            clip.update((s, e))
        S.ref("COLR.clipRangeEnds", clip)


# ---------------------------------------------------------------- MATH
def sweep_math(S, data):
    r = R(data, "MATH")
    _maj, _min, _co, gio, vo = r.u16s(0, 5)
    if gio:
        ic, ta, es, ki = r.u16s(gio, 4)
        for name, o in (("italicsCorrection", ic), ("topAccent", ta), ("kernInfo", ki)):
            if o:
                t = gio + o
                cov = coverage(r, t + r.u16(t))
                S.ref("MATH." + name, cov)
                if r.u16(t + 2) != len(cov):
                    S.problem("MATH", "array-vs-coverage", "%s: %d values for %d covered glyphs" % (name, r.u16(t + 2), len(cov)))
        if es:
            S.ref("MATH.extendedShape", coverage(r, gio + es))
    if vo:
        vco, hco, vc, hc = r.u16s(vo + 2, 4)
        offs = r.u16s(vo + 10, vc + hc)
        for name, co, cnt, sl in (("vert", vco, vc, offs[:vc]), ("horiz", hco, hc, offs[vc:])):
            cov = coverage(r, vo + co) if co else []
            S.ref("MATH.%sCoverage" % name, cov)
            if cnt != len(cov):
                S.problem("MATH", "array-vs-coverage", "%s constructions: %d for %d covered glyphs" % (name, cnt, len(cov)))
            for o in sl:
                gc = vo + o
                ao, n = r.u16s(gc, 2)
                S.ref("MATH.variants", [r.u16(gc + 4 + 4 * k) for k in range(n)])
                if ao:
                    a = gc + ao
                    pc = r.u16(a + 4)
                    S.ref("MATH.assemblyParts", [r.u16(a + 6 + 10 * k) for k in range(pc)])
    S.stats["MATH"] += 1


# ---------------------------------------------------------------- small ones
def sweep_kern(S, data):
    r = R(data, "kern")
    if r.u16(0) != 0:
        return
    n = r.u16(2)
    p = 4
    gl = set()
    for _ in range(n):
        _v, length, cov = r.u16s(p, 3)
        if (cov >> 8) == 0:
            np_ = r.u16(p + 6)
            for k in range(np_):
                gl.update(r.u16s(p + 14 + 6 * k, 2))
            S.stats["kern.format0.pairs"] += np_
            if length < 14 + 6 * np_ and np_ < 10920:
                S.problem("kern", "length", "subtable length %d < %d pairs" % (length, np_))
            p += max(length, 14 + 6 * np_)
        else:
            p += length
            if length == 0:
                break
    S.ref("kern.pairs", gl)


def sweep_vorg(S, data):
    r = R(data, "VORG")
    n = r.u16(6)
    S.ref("VORG", [r.u16(8 + 4 * i) for i in range(n)])


def sweep_svg(S, data):
    r = R(data, "SVG ")
    lo = r.u32(2)
    n = r.u16(lo)
    ends = set()
    for i in range(n):
        s, e = r.u16s(lo + 2 + 12 * i, 2)
        ends.update((s, e))
    S.ref("SVG.docRangeEnds", ends)


def sweep_counts(S, T):
    """Per-glyph arrays whose length is tied to maxp.numGlyphs."""
    n = S.numGlyphs
    if "hhea" in T and "hmtx" in T:
        nh = R(T["hhea"], "hhea").u16(34)
        if nh > n or nh == 0 and n:
            S.problem("hmtx", "count", "numberOfHMetrics %d, numGlyphs %d" % (nh, n))
        elif len(T["hmtx"]) < 4 * nh + 2 * (n - nh):
            S.problem("hmtx", "length", "%d bytes for %d long + %d short metrics" % (len(T["hmtx"]), nh, n - nh))
    if "vhea" in T and "vmtx" in T:
        nv = R(T["vhea"], "vhea").u16(34)
        if nv > n:
            S.problem("vmtx", "count", "numOfLongVerMetrics %d, numGlyphs %d" % (nv, n))
        elif len(T["vmtx"]) < 4 * nv + 2 * (n - nv):
            S.problem("vmtx", "length", "%d bytes for %d long + %d short metrics" % (len(T["vmtx"]), nv, n - nv))
    if "gvar" in T:
        gc = R(T["gvar"], "gvar").u16(12)
        if gc != n:
            S.problem("gvar", "count", "gvar glyphCount %d, numGlyphs %d" % (gc, n))
    if "post" in T:
        r = R(T["post"], "post")
        if r.u32(0) == 0x00020000:
            pc = r.u16(32)
            if pc != n:
                S.problem("post", "count", "post numGlyphs %d, maxp %d" % (pc, n))


SWEEPERS = {"GDEF": sweep_gdef, "COLR": sweep_colr, "MATH": sweep_math, "kern": sweep_kern,
            "VORG": sweep_vorg, "SVG ": sweep_svg, "cmap": sweep_cmap}


def sweep(data):
    S = Sweep()
    try:
        T = directory(data)
    except (Bad, struct.error) as e:
        S.problem("sfnt", "parse", str(e))
        return S
    S.tables = sorted(T)
    if "maxp" not in T:
        S.problem("maxp", "missing", "no maxp")
        return S
    S.numGlyphs = R(T["maxp"], "maxp").u16(4)
    S.mark_set_count = 0
    S.mark_sets_used = set()
    order = ["GDEF"] + [t for t in sorted(T) if t != "GDEF"]
    for tag in order:
        if tag not in T:
            continue
        try:
            if tag in SWEEPERS:
                SWEEPERS[tag](S, T[tag])
            elif tag in ("GSUB", "GPOS"):
                Layout(S, T[tag], tag).run()
            elif tag == "glyf" and "loca" in T and "head" in T:
                sweep_glyf(S, T)
        except (Bad, struct.error, IndexError, RecursionError) as e:
            S.problem(tag, "parse", "%s: %s" % (type(e).__name__, str(e)[:160]))
    try:
        sweep_counts(S, T)
    except (Bad, struct.error) as e:
        S.problem("counts", "parse", str(e)[:160])
    for m in sorted(S.mark_sets_used):
        if m >= S.mark_set_count:
            S.problem("GDEF", "mark-set-index", "a lookup uses mark filtering set %d of %d" % (m, S.mark_set_count))
    return S
