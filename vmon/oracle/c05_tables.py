"""Spec-written readers for the sfnt directory, `fvar` and `avar` (version 1 maps) and
an exact `Fraction` model of user-space -> normalised-space conversion (OpenType
"Coordinate scales and normalization" + avar segment maps).  Independent of fontTools.
"""
import struct
from fractions import Fraction


class Bad(Exception):
    pass


def sfnt_tables(data):
    """-> {tag: bytes} for a plain (non-WOFF, non-TTC) sfnt."""
    if len(data) < 12:
        raise Bad("short sfnt")
    ver = data[:4]
    if ver in (b"wOFF", b"wOF2", b"ttcf"):
        raise Bad("container %r not handled here" % ver)
    n = struct.unpack(">H", data[4:6])[0]
    out = {}
    for i in range(n):
        tag, _cs, off, ln = struct.unpack(">4sLLL", data[12 + 16 * i:28 + 16 * i])
        out[tag.decode("latin-1")] = data[off:off + ln]
    return out


def _fixed(b):
    return Fraction(struct.unpack(">l", b)[0], 65536)


def read_fvar(tbl):
    """-> [(tag, min, default, max)] as Fractions (16.16)."""
    major, minor, axesOff, _res, axisCount, axisSize, instCount, instSize = struct.unpack(">HHHHHHHH", tbl[:16])
    axes = []
    for i in range(axisCount):
        p = axesOff + i * axisSize
        tag = tbl[p:p + 4].decode("latin-1")
        axes.append((tag, _fixed(tbl[p + 4:p + 8]), _fixed(tbl[p + 8:p + 12]), _fixed(tbl[p + 12:p + 16])))
    return axes


def read_avar(tbl):
    """-> (majorVersion, [ [(from, to), ...] per axis ]) with F2Dot14 as Fractions."""
    major, minor, _res, axisCount = struct.unpack(">HHHH", tbl[:8])
    p = 8
    segs = []
    for i in range(axisCount):
        n = struct.unpack(">H", tbl[p:p + 2])[0]
        p += 2
        m = []
        for k in range(n):
            f, t = struct.unpack(">hh", tbl[p:p + 4])
            p += 4
            m.append((Fraction(f, 16384), Fraction(t, 16384)))
        segs.append(m)
    return major, segs


def normalize_default(v, lo, dflt, hi):
    """fvar default normalisation (no rounding), clamped to the axis range."""
    v = Fraction(v)
    v = max(lo, min(hi, v))
    if v == dflt:
        return Fraction(0)
    if v < dflt:
        return (v - dflt) / (dflt - lo)      # dflt > lo here because lo <= v < dflt
    return (v - dflt) / (hi - dflt)


def avar_map(v, seg):
    """Piecewise-linear map through the segment list [(from, to)] (avar v1).
    Returns (mapped, slope) where slope is the largest slope of the segment(s)
    touching v (used for the quantisation budget of an integer implementation)."""
    if not seg:
        return v, Fraction(1)
    seg = sorted(seg)
    if v <= seg[0][0]:
        return v + (seg[0][1] - seg[0][0]), Fraction(1)
    if v >= seg[-1][0]:
        return v + (seg[-1][1] - seg[-1][0]), Fraction(1)
    slope = Fraction(0)
    out = None
    for (f0, t0), (f1, t1) in zip(seg, seg[1:]):
        if f0 == f1:
            continue
        s = (t1 - t0) / (f1 - f0)
        if f0 <= v <= f1:
            slope = max(slope, abs(s))
            if out is None or v == f0:
                # at a knot both neighbouring segments agree (continuous map)
                out = t0 + (v - f0) * s
    if out is None:
        # v coincides with a duplicated knot only
        for f, t in seg:
            if f == v:
                return t, Fraction(1)
    return out, slope


class Normalizer:
    """Exact reference for TTFont.normalizeLocation on fonts with fvar (+ avar v1)."""

    def __init__(self, data):
        t = sfnt_tables(data)
        if "fvar" not in t:
            raise Bad("no fvar")
        self.axes = read_fvar(t["fvar"])
        self.avar_major = None
        self.segs = None
        if "avar" in t:
            self.avar_major, self.segs = read_avar(t["avar"])
            if len(self.segs) != len(self.axes):
                raise Bad("avar axis count differs from fvar")

    def normalize(self, user):
        """user: {tag: number} (missing axes = default) ->
        ([exact normalised value per axis], [pre-avar value], [slope per axis])."""
        out, pre, slopes = [], [], []
        for i, (tag, lo, dflt, hi) in enumerate(self.axes):
            v = user.get(tag, dflt) if user else dflt
            n = normalize_default(Fraction(v), lo, dflt, hi)
            pre.append(n)
            s = Fraction(1)
            if self.segs is not None:
                n, s = avar_map(n, self.segs[i])
            out.append(n)
            slopes.append(s)
        return out, pre, slopes

    def denormalize(self, i, n):
        """pre-avar normalised value n of axis i -> user value (Fraction)."""
        tag, lo, dflt, hi = self.axes[i]
        n = Fraction(n)
        if n >= 0:
            return dflt + n * (hi - dflt)
        return dflt + n * (dflt - lo)

    def knots(self, i):
        if not self.segs:
            return []
        return [f for f, t in self.segs[i]]
