"""Minimal spec-written reader of sfnt / TTC headers and table directories
(private to C01/C03; independent of fontTools.ttLib.sfnt).

tables(data, fontNumber=0) -> {tag(str, latin-1): bytes} exactly `length` bytes
per table, no padding.  WOFF/WOFF2 are not handled here (kind() tells).
"""
import struct


class BadSfnt(Exception):
    pass


def kind(data):
    sig = bytes(data[:4])
    if sig == b"wOFF":
        return "woff"
    if sig == b"wOF2":
        return "woff2"
    if sig == b"ttcf":
        return "ttc"
    if sig in (b"\x00\x01\x00\x00", b"OTTO", b"true", b"typ1"):
        return "sfnt"
    return None


def ttc_offsets(data):
    if len(data) < 12:
        raise BadSfnt("short TTC header")
    _tag, _ver, n = struct.unpack(">4sLL", data[:12])
    if len(data) < 12 + 4 * n:
        raise BadSfnt("short TTC offset array")
    return list(struct.unpack(">%dL" % n, data[12:12 + 4 * n]))


def directory(data, fontNumber=0):
    """-> (sfntVersion bytes, [(tag, checksum, offset, length)] in file order)"""
    k = kind(data)
    if k == "ttc":
        offs = ttc_offsets(data)
        if not 0 <= fontNumber < len(offs):
            raise BadSfnt("no such TTC member")
        base = offs[fontNumber]
    elif k == "sfnt":
        base = 0
    else:
        raise BadSfnt("not an sfnt/TTC: %r" % bytes(data[:4]))
    if len(data) < base + 12:
        raise BadSfnt("short offset table")
    ver, n = struct.unpack(">4sH", data[base:base + 6])
    if len(data) < base + 12 + 16 * n:
        raise BadSfnt("short directory")
    ents = []
    for i in range(n):
        tag, cs, off, ln = struct.unpack(">4sLLL", data[base + 12 + 16 * i: base + 28 + 16 * i])
        if off + ln > len(data):
            raise BadSfnt("table %r out of bounds" % tag)
        ents.append((tag.decode("latin-1"), cs, off, ln))
    return ver, ents


def tables(data, fontNumber=0):
    _ver, ents = directory(data, fontNumber)
    out = {}
    for tag, _cs, off, ln in ents:
        if tag in out:
            raise BadSfnt("duplicate tag %r" % tag)
        out[tag] = bytes(data[off:off + ln])
    return out


def order(data, fontNumber=0):
    return [e[0] for e in directory(data, fontNumber)[1]]


# ---------------------------------------------------------------- writer (spec-level)
def checksum(data):
    data = bytes(data) + b"\0" * ((-len(data)) % 4)
    return sum(struct.unpack(">%dL" % (len(data) // 4), data)) & 0xFFFFFFFF


def build(sfnt_version, tables):
    """Assemble a plain sfnt from {tag: bytes} (tags sorted, tables 4-byte aligned, table and
    whole-file checksums set).  Used to splice hand-written tables into fonts without going
    through fontTools' writer."""
    tags = sorted(tables)
    n = len(tags)
    es = 0
    while (1 << (es + 1)) <= n:
        es += 1
    sr = (1 << es) * 16
    ver = sfnt_version if isinstance(sfnt_version, bytes) else sfnt_version.encode("latin-1")
    header = ver + struct.pack(">HHHH", n, sr, es, n * 16 - sr)
    off = 12 + 16 * n
    directory, body = b"", b""
    datas = {}
    for t in tags:
        d = bytes(tables[t])
        if t == "head" and len(d) >= 12:
            d = d[:8] + b"\0\0\0\0" + d[12:]
        datas[t] = d
    for t in tags:
        d = datas[t]
        directory += struct.pack(">4sLLL", t.encode("latin-1"), checksum(d), off, len(d))
        pad = b"\0" * ((-len(d)) % 4)
        body += d + pad
        off += len(d) + len(pad)
    out = bytearray(header + directory + body)
    if "head" in datas and len(datas["head"]) >= 12:
        adj = (0xB1B0AFBA - checksum(bytes(out))) & 0xFFFFFFFF
        hoff = 12 + 16 * n + sum(len(datas[t]) + ((-len(datas[t])) % 4) for t in tags[:tags.index("head")])
        out[hoff + 8:hoff + 12] = struct.pack(">L", adj)
    return bytes(out)
