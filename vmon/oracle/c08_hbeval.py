"""HarfBuzz evaluation helpers shared by C08 and C10: snapshots of a font at one location
(outlines, advances, font-wide metrics, shaping), distances between snapshots, and the
*location sensitivity* of a font (how far its values move when a normalised coordinate
moves by a few F2Dot14 steps), measured on the independent engine itself.

Why sensitivity is needed: both checks compare two fonts at "the same" user-space
location, but every engine quantises normalised coordinates to F2Dot14 and the
library quantises axis limits / master peaks / avar knots as well, so the two fonts are
really evaluated up to K steps of 1/16384 apart (K is derived in the checks from the
number of independent quantisations and the avar slopes).  The effect of K steps on an
outline is font-specific (steep tents x large deltas); it is measured here by moving the
*reference* font by +-K steps per axis through HarfBuzz and taking the largest movement.
"""
import uharfbuzz as hb

from . import geom
from .hbft import HB

METRIC_TAGS = [t for t in hb.OTMetricsTag]
# MVAR tags that HarfBuzz resolves through either OS/2 typo or hhea depending on
# USE_TYPO_METRICS (the MVAR spec attaches them to OS/2 only)
TYPO_OR_HHEA = {"HORIZONTAL_ASCENDER", "HORIZONTAL_DESCENDER", "HORIZONTAL_LINE_GAP"}


class View:
    def __init__(self, data):
        self.data = data
        self.h = HB(data)
        self.n = self.h.glyph_count
        self.axes = [(a.tag, a.min_value, a.default_value, a.max_value) for a in self.h.face.axis_infos]
        self.tags = set(self.h.table_tags())

    def at_user(self, loc):
        """Set a user-space location (missing axes -> default); returns normalised coords."""
        full = {t: d for t, lo, d, hi in self.axes}
        full.update(loc or {})
        if self.axes:
            self.h.font.set_variations(full)
            return list(self.h.font.get_var_coords_normalized())
        return []

    def at_norm(self, coords):
        if self.axes:
            self.h.font.set_var_coords_normalized([max(-1.0, min(1.0, c)) for c in coords])

    def norm(self):
        return list(self.h.font.get_var_coords_normalized()) if self.axes else []

    def snapshot(self, gids, texts=(), features=None, metrics=False):
        h = self.h
        s = {"out": {}, "adv": {}, "vadv": {}, "met": {}, "shape": []}
        vert = "vmtx" in self.tags
        for g in gids:
            s["out"][g] = h.outline(g)
            s["adv"][g] = h.h_advance(g)
            if vert:
                s["vadv"][g] = h.v_advance(g)
        if metrics:
            for t in METRIC_TAGS:
                s["met"][t.name] = h.font.get_metric_position(t)
        for t in texts:
            s["shape"].append(h.shape(t, features))
        return s


# ---------------------------------------------------------------- outline distances
def _flat(rec):
    """-> (signature, points in drawing order, contour starts).  A trailing lineTo that
    lands exactly on the contour's start (HarfBuzz closes open paths that way) is dropped:
    it is not an operand of its own."""
    sig, pts = [], []
    start = None
    for i, (op, args) in enumerate(rec):
        if op == "moveTo":
            start = args[0]
            sig.append("m")
            pts.append(args[0])
        elif op == "lineTo":
            nxt = rec[i + 1][0] if i + 1 < len(rec) else None
            if nxt == "closePath" and start is not None and tuple(args[0]) == tuple(start):
                continue
            sig.append("l")
            pts.append(args[0])
        elif op in ("curveTo", "qCurveTo"):
            sig.append(op[0] + str(len(args)))
            pts.extend(args)
        elif op in ("closePath", "endPath"):
            sig.append("z")
    return tuple(sig), pts


def rel_dist(recA, recB):
    """Largest difference between corresponding *relative* vectors (each point minus the
    previous point in drawing order, first point minus the origin) - for CFF/CFF2, where
    every charstring operand is such a relative vector and rounding is per operand.
    None when the two records do not have the same operator sequence.

    The vector of a moveTo other than the first is halved: HarfBuzz reports an explicit
    closing operand and its own synthesised closing line identically, _flat drops both, so
    that vector may be the sum of two operands (closing line + rmoveto)."""
    sa, pa = _flat(recA)
    sb, pb = _flat(recB)
    if sa != sb or len(pa) != len(pb):
        return None
    # index of the first point of each operator
    first_of_move = set()
    i = 0
    for op in sa:
        if op == "m":
            first_of_move.add(i)
            i += 1
        elif op == "l":
            i += 1
        elif op != "z":
            i += int(op[1:])
    worst = 0.0
    pxa = pya = pxb = pyb = 0.0
    for k, ((xa, ya), (xb, yb)) in enumerate(zip(pa, pb)):
        d = max(abs((xa - pxa) - (xb - pxb)), abs((ya - pya) - (yb - pyb)))
        if k in first_of_move and k:
            d /= 2.0
        if d > worst:
            worst = d
        pxa, pya, pxb, pyb = xa, ya, xb, yb
    return worst


def match_xy(recA, recB, tol_x, tol_y):
    """geom.outlines_match with different budgets for x and y (x is scaled so that one
    tolerance applies).  -> (ok, stage, reason)"""
    if tol_x == tol_y or tol_x <= 0:
        return geom.outlines_match(recA, recB, tol_y)
    r = tol_y / tol_x
    f = lambda p: (p[0] * r, p[1])
    return geom.outlines_match(geom.transform_rec(recA, f), geom.transform_rec(recB, f), tol_y)


def abs_dist(recA, recB):
    return geom.max_point_diff(recA, recB)


def npoints(rec):
    return len(_flat(rec)[1])


# ---------------------------------------------------------------- shaping distances
def shape_dist(sa, sb):
    """-> (same glyph sequence?, max |position field difference|)"""
    if [x[0] for x in sa] != [x[0] for x in sb] or [x[1] for x in sa] != [x[1] for x in sb]:
        return False, None
    worst = 0
    for a, b in zip(sa, sb):
        for i in (2, 3, 4, 5):
            worst = max(worst, abs(a[i] - b[i]))
    return True, worst


# ---------------------------------------------------------------- sensitivity
def sensitivity(view, base_norm, steps, gids, texts=(), features=None, metrics=False, rel=False, base=None):
    """Move `view` (already showing `base_norm`) by +-steps[a]/16384 along each axis a in turn.
    -> dict out[g], adv[g], met[name], shape[i] (sum over axes of the larger of the two
    movements; float('inf') where the structure itself changes), and 'shape_alt': for each
    text the set of glyph-id sequences seen in the neighbourhood."""
    if base is None:
        view.at_norm(base_norm)
        base = view.snapshot(gids, texts, features, metrics)
    res = {"out": {g: 0.0 for g in gids}, "adv": {g: 0.0 for g in gids}, "vadv": {g: 0.0 for g in base["vadv"]}, "met": {k: 0.0 for k in base["met"]},
           "shape": [0.0 for _ in texts], "shape_alt": [set() for _ in texts]}
    dist = rel_dist if rel else abs_dist
    for ai in range(len(base_norm)):
        k = steps[ai]
        if not k:
            continue
        acc = {"out": {g: 0.0 for g in gids}, "adv": {g: 0.0 for g in gids}, "vadv": {g: 0.0 for g in base["vadv"]},
               "met": {m: 0.0 for m in base["met"]}, "shape": [0.0 for _ in texts]}
        for sign in (-1, 1):
            c = list(base_norm)
            c[ai] = c[ai] + sign * k / 16384.0
            if c[ai] > 1.0 or c[ai] < -1.0:
                c[ai] = max(-1.0, min(1.0, c[ai]))
            view.at_norm(c)
            s = view.snapshot(gids, texts, features, metrics)
            for g in gids:
                d = dist(base["out"][g], s["out"][g])
                d = float("inf") if d is None else d
                acc["out"][g] = max(acc["out"][g], d)
                acc["adv"][g] = max(acc["adv"][g], abs(base["adv"][g] - s["adv"][g]))
                if g in base["vadv"]:
                    acc["vadv"][g] = max(acc["vadv"][g], abs(base["vadv"][g] - s["vadv"].get(g, 0)))
            for m, v in base["met"].items():
                w = s["met"].get(m)
                if v is None or w is None:
                    if v is not w:
                        acc["met"][m] = float("inf")
                else:
                    acc["met"][m] = max(acc["met"][m], abs(v - w))
            for i in range(len(texts)):
                same, d = shape_dist(base["shape"][i], s["shape"][i])
                res["shape_alt"][i].add(tuple(x[0] for x in s["shape"][i]))
                if same:
                    acc["shape"][i] = max(acc["shape"][i], d)
                else:
                    acc["shape"][i] = float("inf")
        for g in gids:
            res["out"][g] += acc["out"][g]
            res["adv"][g] += acc["adv"][g]
            if g in res["vadv"]:
                res["vadv"][g] += acc["vadv"][g]
        for m in acc["met"]:
            res["met"][m] += acc["met"][m]
        for i in range(len(texts)):
            res["shape"][i] += acc["shape"][i]
    view.at_norm(base_norm)
    return res, base
