"""Independent interpreter of SVG path data (SVG 1.1 section 8.3, without elliptical arcs)
and a generator of path strings, for C14 (SVGPathPen <-> svgLib.path.parse_path).

`interpret(d)` returns a segment record over Fractions (decimal literals are exact):
moveTo / lineTo / curveTo(c1, c2, p) / qCurveTo(c, p) / closePath / endPath.

Rules implemented from the specification:
* a command letter may be followed by several argument groups (implicit repetition); extra
  pairs after M/m are implicit L/l;
* upper case = absolute, lower case = relative to the current point (every group of a
  repeated relative command is relative to the point reached by the previous group);
* Z/z closes the subpath, the current point becomes its start point;
* S/s: the first control point is the reflection of the second control point of the previous
  command about the current point if the previous command was C, c, S or s (an implicitly
  repeated one included), otherwise the current point; T/t likewise with Q, q, T, t;
* a subpath not closed by Z ends open.
"""
import re
from fractions import Fraction as F

NUM = re.compile(r"[-+]?(?:[0-9]+(?:\.[0-9]*)?|\.[0-9]+)(?:[eE][-+]?[0-9]+)?")
ARITY = {"M": 2, "L": 2, "H": 1, "V": 1, "C": 6, "S": 4, "Q": 4, "T": 2, "Z": 0}


def tokenize(d):
    out = []
    i, n = 0, len(d)
    while i < n:
        c = d[i]
        if c in " \t\r\n,":
            i += 1
        elif c.upper() in ARITY:
            out.append(c)
            i += 1
        else:
            m = NUM.match(d, i)
            if not m:
                raise ValueError("bad path data at %d: %r" % (i, d[i:i + 10]))
            out.append(F(m.group(0)))
            i = m.end()
    return out


def interpret(d):
    toks = tokenize(d)
    rec = []
    cur = (F(0), F(0))
    start = None          # start point of the open subpath, None if no subpath is open
    prev = None           # previous command (upper case), implicit repetitions included
    ctrl = None           # last control point of the previous curve command
    i = 0
    cmd = None
    while i < len(toks):
        t = toks[i]
        if isinstance(t, str):
            cmd = t
            i += 1
            if cmd.upper() == "Z":
                if start is not None:
                    rec.append(("closePath", ()))
                    cur = start
                    start = None
                prev = "Z"
                cmd = None
                continue
        elif cmd is None:
            raise ValueError("numbers without a command")
        up = cmd.upper()
        rel = cmd != up
        k = ARITY[up]
        args = toks[i:i + k]
        if len(args) < k or any(isinstance(a, str) for a in args):
            raise ValueError("not enough arguments for %s" % cmd)
        i += k

        def pt(x, y):
            return (cur[0] + x, cur[1] + y) if rel else (x, y)

        if up == "M":
            p = pt(args[0], args[1])
            if start is not None:
                rec.append(("endPath", ()))
            rec.append(("moveTo", (p,)))
            cur = start = p
            prev = "M"
            cmd = "l" if rel else "L"       # further pairs are implicit linetos
            continue
        if start is None:
            # drawing command without an open subpath (after Z): SVG starts a new subpath at the current point
            rec.append(("moveTo", (cur,)))
            start = cur
        if up == "L":
            p = pt(args[0], args[1])
            rec.append(("lineTo", (p,)))
        elif up == "H":
            p = (cur[0] + args[0], cur[1]) if rel else (args[0], cur[1])
            rec.append(("lineTo", (p,)))
        elif up == "V":
            p = (cur[0], cur[1] + args[0]) if rel else (cur[0], args[0])
            rec.append(("lineTo", (p,)))
        elif up == "C":
            c1, c2, p = pt(args[0], args[1]), pt(args[2], args[3]), pt(args[4], args[5])
            rec.append(("curveTo", (c1, c2, p)))
            ctrl = c2
        elif up == "S":
            c1 = (2 * cur[0] - ctrl[0], 2 * cur[1] - ctrl[1]) if prev in ("C", "S") else cur
            c2, p = pt(args[0], args[1]), pt(args[2], args[3])
            rec.append(("curveTo", (c1, c2, p)))
            ctrl = c2
        elif up == "Q":
            c, p = pt(args[0], args[1]), pt(args[2], args[3])
            rec.append(("qCurveTo", (c, p)))
            ctrl = c
        elif up == "T":
            c = (2 * cur[0] - ctrl[0], 2 * cur[1] - ctrl[1]) if prev in ("Q", "T") else cur
            p = pt(args[0], args[1])
            rec.append(("qCurveTo", (c, p)))
            ctrl = c
        cur = p
        prev = up
    if start is not None:
        rec.append(("endPath", ()))
    return rec


# ------------------------------------------------------------------ generator
def _num(rnd, mode):
    if mode == "int":
        return str(rnd.randint(-100, 100))
    r = rnd.random()
    if r < 0.4:
        return str(rnd.randint(-100, 100))
    if r < 0.6:
        return "%s.%s" % (rnd.randint(-100, 100), rnd.choice(["5", "25", "125", "75", "0", "375"]))
    if r < 0.7:
        return rnd.choice(["", "-"]) + "." + rnd.choice(["5", "25", "75", "125"])
    if r < 0.8:
        return "%de%d" % (rnd.randint(-9, 9), rnd.choice([0, 1, 2]))
    if r < 0.9:
        return "%d.5e%s%d" % (rnd.randint(1, 9), rnd.choice(["", "+", "-"]), rnd.choice([0, 1]))
    return rnd.choice(["0", "-0", "+7", "1E1", "100", "-100"])


def gen_commands(rnd):
    """-> list of (letter, [groups of number strings]); a path as a command list"""
    mode = rnd.choice(["int", "int", "mixed"])
    cmds = []
    for _ in range(rnd.choice([1, 1, 2, 3])):
        cmds.append((rnd.choice("Mm") if cmds else rnd.choice("MMm"), [[_num(rnd, mode), _num(rnd, mode)] for _ in range(rnd.choice([1, 1, 1, 2, 3]))]))
        for _ in range(rnd.choice([0, 1, 2, 3, 4, 6])):
            letter = rnd.choice("LlHhVvCcSsQqTtSsTt")
            k = ARITY[letter.upper()]
            groups = [[_num(rnd, mode) for _ in range(k)] for _ in range(rnd.choice([1, 1, 2, 2, 3, 4]))]
            cmds.append((letter, groups))
        if rnd.random() < 0.6:
            cmds.append((rnd.choice("Zz"), []))
    return cmds


def _join(nums, rnd, compact):
    out, prev = "", None
    for s in nums:
        if prev is None:
            out = s
        else:
            sep = rnd.choice([" ", ",", ", ", " ,", "  "])
            if compact and s[0] == "-":
                sep = rnd.choice(["", sep])          # "10-5" is two numbers
            elif compact and s[0] == "." and "." in prev and "e" not in prev.lower():
                sep = rnd.choice(["", sep])          # "1.5.5" is 1.5 and .5
            out += sep + s
        prev = s
    return out


def render(cmds, rnd, implicit=True, compact=False):
    """Spell the command list as path data: implicit=True writes the letter once per command,
    implicit=False repeats the letter for every argument group (M followed by L/l for the extra pairs)."""
    parts = []
    for letter, groups in cmds:
        if not groups:
            parts.append(letter)
            continue
        if implicit:
            nums = [x for g in groups for x in g]
            parts.append(letter + rnd.choice(["", " "]) + _join(nums, rnd, compact))
        else:
            for gi, g in enumerate(groups):
                l = letter
                if letter in "Mm" and gi > 0:
                    l = "l" if letter == "m" else "L"
                parts.append(l + " " + " ".join(g))
    return rnd.choice(["", " "]).join(parts) if implicit else " ".join(parts)
