"""Snapshots of designspace / glyph objects into plain trees (own asdict-style walk)
and the *expected value after a write→read*, i.e. the input with the documented
normalisations of the writers applied (DESIGN §4 C19 "Guards").  Nothing here calls
the library's readers or writers."""
import copy
import math
import os
import posixpath

from .c19_model import Approx, PLMap

# ---------------------------------------------------------------------------
# designspace snapshot
# ---------------------------------------------------------------------------


def _loc(loc):
    if not loc:
        return {}
    return {k: (tuple(v) if isinstance(v, (tuple, list)) else v) for k, v in loc.items()}


def _ga(o, name, default=None):
    return getattr(o, name, default)


def snap_axis_label(l):
    return {"name": l.name, "userValue": l.userValue, "userMinimum": l.userMinimum, "userMaximum": l.userMaximum,
            "linkedUserValue": l.linkedUserValue, "elidable": bool(l.elidable), "olderSibling": bool(l.olderSibling),
            "labelNames": dict(l.labelNames or {})}


def snap_axis(a):
    d = {"name": a.name, "tag": a.tag, "hidden": bool(a.hidden), "labelNames": dict(a.labelNames or {}),
         "map": [tuple(p) for p in (a.map or [])], "axisOrdering": a.axisOrdering,
         "axisLabels": [snap_axis_label(l) for l in (a.axisLabels or [])], "default": a.default}
    if hasattr(a, "values"):
        d.update(kind="discrete", values=list(a.values))
    else:
        d.update(kind="continuous", minimum=a.minimum, maximum=a.maximum)
    return d


def snap_source(s):
    return {"filename": s.filename, "path": s.path, "name": s.name, "layerName": s.layerName,
            "designLocation": _loc(s.designLocation), "familyName": s.familyName, "styleName": s.styleName,
            "localisedFamilyName": dict(s.localisedFamilyName or {}),
            "copyLib": bool(s.copyLib), "copyInfo": bool(s.copyInfo), "copyGroups": bool(s.copyGroups),
            "copyFeatures": bool(s.copyFeatures), "muteKerning": bool(s.muteKerning), "muteInfo": bool(s.muteInfo),
            "mutedGlyphNames": list(s.mutedGlyphNames or [])}


def snap_instance(i):
    return {"filename": i.filename, "path": i.path, "name": i.name, "locationLabel": i.locationLabel,
            "designLocation": _loc(i.designLocation), "userLocation": _loc(i.userLocation),
            "familyName": i.familyName, "styleName": i.styleName, "postScriptFontName": i.postScriptFontName,
            "styleMapFamilyName": i.styleMapFamilyName, "styleMapStyleName": i.styleMapStyleName,
            "localisedFamilyName": dict(i.localisedFamilyName or {}), "localisedStyleName": dict(i.localisedStyleName or {}),
            "localisedStyleMapFamilyName": dict(i.localisedStyleMapFamilyName or {}),
            "localisedStyleMapStyleName": dict(i.localisedStyleMapStyleName or {}),
            "glyphs": copy.deepcopy(dict(i.glyphs or {})), "kerning": bool(i.kerning), "info": bool(i.info),
            "lib": copy.deepcopy(dict(i.lib or {}))}


def snap_subset(s):
    if hasattr(s, "userValue"):
        return {"kind": "value", "name": s.name, "userValue": s.userValue}
    return {"kind": "range", "name": s.name, "userMinimum": s.userMinimum, "userDefault": s.userDefault,
            "userMaximum": s.userMaximum}


def snap_doc(doc):
    ft = doc.formatTuple
    return {
        "formatTuple": tuple(ft), "elidedFallbackName": doc.elidedFallbackName,
        "axes": [snap_axis(a) for a in doc.axes],
        "axisMappings": [{"inputLocation": _loc(m.inputLocation), "outputLocation": _loc(m.outputLocation),
                          "description": _ga(m, "description"), "groupDescription": _ga(m, "groupDescription")}
                         for m in (doc.axisMappings or [])],
        "locationLabels": [{"name": l.name, "elidable": bool(l.elidable), "olderSibling": bool(l.olderSibling),
                            "userLocation": _loc(l.userLocation), "labelNames": dict(l.labelNames or {})}
                           for l in (doc.locationLabels or [])],
        "rules": [{"name": r.name,
                   "conditionSets": [[{"name": c.get("name"), "minimum": c.get("minimum"), "maximum": c.get("maximum")} for c in cs]
                                     for cs in (r.conditionSets or [])],
                   "subs": [tuple(s) for s in (r.subs or [])]} for r in (doc.rules or [])],
        "rulesProcessingLast": bool(_ga(doc, "rulesProcessingLast", False)),
        "sources": [snap_source(s) for s in doc.sources],
        "variableFonts": [{"name": v.name, "filename": v.filename, "axisSubsets": [snap_subset(s) for s in (v.axisSubsets or [])],
                           "lib": copy.deepcopy(dict(v.lib or {}))} for v in (doc.variableFonts or [])],
        "instances": [snap_instance(i) for i in doc.instances],
        "lib": copy.deepcopy(dict(doc.lib or {})),
    }


# ---------------------------------------------------------------------------
# designspace: expected value after write -> read
# ---------------------------------------------------------------------------


def effective_format(s):
    """Lowest format able to carry the document (xml.rst ".. versionadded:: 5.0/5.1" notes)."""
    ft = tuple(s["formatTuple"])
    need5 = (any(a["kind"] == "discrete" or a["axisOrdering"] is not None or a["axisLabels"] for a in s["axes"])
             or s["locationLabels"] or any(src["localisedFamilyName"] for src in s["sources"]) or s["variableFonts"]
             or any(i["locationLabel"] or i["userLocation"] for i in s["instances"]))
    if need5 and ft < (5, 0):
        ft = (5, 0)
    if s["axisMappings"] and ft < (5, 1):
        ft = (5, 1)
    return ft


def axis_default_design(a):
    if a["kind"] == "discrete":
        for k, v in a["map"]:
            if k == a["default"]:
                return v
        return a["default"]
    if not a["map"]:
        return a["default"]
    return float(PLMap(a["map"]).forward(a["default"]))


def _drop_en(d):
    return {k: v for k, v in d.items() if k != "en"}


def expected_after(snap, docpath):
    """The snapshot a reader must produce after the writer wrote `snap`.
    `docpath` None for tostring/fromstring."""
    s = snap
    e = copy.deepcopy(s)
    eff = effective_format(s)
    e["formatTuple"] = eff
    axes = [a["name"] for a in s["axes"]]
    defaults = {a["name"]: axis_default_design(a) for a in s["axes"]}

    def v4loc(loc):
        return {n: (loc[n] if n in loc else Approx(defaults[n])) for n in axes}

    def v5loc(design, user):
        d, u = {}, {}
        for n in axes:
            if design is not None and n in design:
                d[n] = design[n]
            elif user is not None and n in user:
                u[n] = user[n]
        return d, u

    def relname(desc):
        if docpath is not None and desc["path"] is not None:
            return posixpath.join(*os.path.relpath(desc["path"], os.path.dirname(docpath)).split(os.path.sep))
        return desc["filename"]

    for idx, src in enumerate(e["sources"]):
        if src["name"] is None or src["name"].startswith("temp_master"):
            src["name"] = "temp_master.%d" % idx
        src["localisedFamilyName"] = _drop_en(src["localisedFamilyName"])
        if eff >= (5, 0):
            src["designLocation"] = v5loc(src["designLocation"], None)[0]
        else:
            src["designLocation"] = v4loc(src["designLocation"])
        src["filename"] = relname(src)
        src["path"] = (None if docpath is None or src["filename"] is None else
                       os.path.abspath(os.path.join(os.path.dirname(docpath), src["filename"])))
    for inst in e["instances"]:
        for k in ("localisedFamilyName", "localisedStyleName", "localisedStyleMapFamilyName", "localisedStyleMapStyleName"):
            inst[k] = _drop_en(inst[k])
        if eff >= (5, 0):
            if inst["locationLabel"] is not None:
                inst["designLocation"], inst["userLocation"] = {}, {}
            else:
                inst["designLocation"], inst["userLocation"] = v5loc(inst["designLocation"], inst["userLocation"])
            inst["glyphs"], inst["kerning"], inst["info"] = {}, True, True    # deprecated in 5.0, not serialised
        else:
            inst["designLocation"] = v4loc(inst["designLocation"])
            glyphs = {}
            for gname, data in inst["glyphs"].items():
                g = {}
                if data.get("mute"):
                    g["mute"] = True
                if data.get("unicodes") is not None:
                    g["unicodes"] = list(data["unicodes"])
                if data.get("note") is not None:
                    g["note"] = data["note"]
                if data.get("instanceLocation") is not None:
                    g["instanceLocation"] = v4loc(data["instanceLocation"])
                if data.get("masters") is not None:
                    g["masters"] = [{"font": m.get("font"),
                                     "location": (v4loc(m["location"]) if m.get("location") is not None else None),
                                     "glyphName": m.get("glyphName") if m.get("glyphName") is not None else gname}
                                    for m in data["masters"]]
                glyphs[gname] = g
            inst["glyphs"] = glyphs
        inst["filename"] = relname(inst)
        inst["path"] = (None if docpath is None or inst["filename"] is None else
                        os.path.join(os.path.dirname(docpath), inst["filename"]))
    rules = []
    for r in e["rules"]:
        r["conditionSets"] = [[c for c in cs if not (c["minimum"] is None and c["maximum"] is None)] for cs in r["conditionSets"]]
        if r["conditionSets"] or r["subs"]:
            rules.append(r)
    e["rules"] = rules
    if not s["rules"]:
        e["rulesProcessingLast"] = False
    for l in e["locationLabels"]:
        l["userLocation"] = v5loc(None, l["userLocation"])[1]
    return e


def normpaths(snap):
    for d in snap["sources"] + snap["instances"]:
        if d["path"] is not None:
            d["path"] = os.path.normpath(os.path.abspath(d["path"]))
    return snap


FREE_FIELDS = {"designLocation", "userLocation", "labelNames", "localisedFamilyName", "localisedStyleName",
               "localisedStyleMapFamilyName", "localisedStyleMapStyleName", "lib", "glyphs", "inputLocation",
               "outputLocation"}


def ds_field(path):
    """Stable field class of a deep_diff path inside a designspace snapshot."""
    import re
    parts = [re.sub(r"\[\d+\]", "[]", p) for p in path.split("/") if p]
    out = []
    for p in parts:
        out.append(p)
        if p.replace("[]", "") in FREE_FIELDS:
            break
    return "/".join(out)


# ---------------------------------------------------------------------------
# XML facts vs expected snapshot (writer checked without the library's reader)
# ---------------------------------------------------------------------------


def facts_expected(e):
    """Project an expected snapshot onto the shape returned by c19_model.ds_xml_facts."""
    eff = tuple(e["formatTuple"])

    def locfacts(design, user):
        out = {}
        for k, v in (design or {}).items():
            out[k] = ("design", v)
        for k, v in (user or {}).items():
            out[k] = ("user", v)
        return out or None

    f = {"elidedfallbackname": e["elidedFallbackName"], "axes": [], "mappings": [], "rules": [], "sources": [],
         "instances": [], "vfs": [], "labels": []}
    for a in e["axes"]:
        d = {"name": a["name"], "tag": a["tag"], "default": a["default"], "hidden": a["hidden"], "map": list(a["map"]),
             "labelNames": a["labelNames"], "ordering": a["axisOrdering"],
             "labels": [{"name": l["name"], "uservalue": l["userValue"], "userminimum": l["userMinimum"],
                         "usermaximum": l["userMaximum"], "linkeduservalue": l["linkedUserValue"], "elidable": l["elidable"],
                         "oldersibling": l["olderSibling"], "labelNames": l["labelNames"]} for l in a["axisLabels"]]}
        if a["kind"] == "discrete":
            d["values"] = a["values"]
        else:
            d["minimum"], d["maximum"] = a["minimum"], a["maximum"]
        f["axes"].append(d)
    for m in e["axisMappings"]:
        f["mappings"].append({"group": m["groupDescription"], "description": m["description"],
                              "input": m["inputLocation"], "output": m["outputLocation"]})
    f["processing"] = ("last" if e["rulesProcessingLast"] else None) if e["rules"] else None
    for r in e["rules"]:
        f["rules"].append({"name": r["name"], "conditionsets": r["conditionSets"], "subs": r["subs"]})
    for s in e["sources"]:
        f["sources"].append({
            "filename": s["filename"], "name": None if s["name"].startswith("temp_master") else s["name"],
            "familyname": s["familyName"], "stylename": s["styleName"], "layer": s["layerName"],
            "location": locfacts(s["designLocation"], None) if (eff >= (5, 0)) else (locfacts(s["designLocation"], None) or {}),
            "localisedFamilyName": s["localisedFamilyName"], "copyLib": s["copyLib"], "copyGroups": s["copyGroups"],
            "copyFeatures": s["copyFeatures"], "copyInfo": s["copyInfo"], "muteInfo": s["muteInfo"],
            "muteKerning": s["muteKerning"], "mutedGlyphNames": s["mutedGlyphNames"]})
    for i in e["instances"]:
        loc = locfacts(i["designLocation"], i["userLocation"])
        if eff < (5, 0) and loc is None:
            loc = {}
        f["instances"].append({
            "filename": i["filename"], "name": i["name"], "familyname": i["familyName"], "stylename": i["styleName"],
            "postscriptfontname": i["postScriptFontName"], "stylemapfamilyname": i["styleMapFamilyName"],
            "stylemapstylename": i["styleMapStyleName"], "locationLabel": i["locationLabel"], "location": loc,
            "localisedStyleName": i["localisedStyleName"], "localisedFamilyName": i["localisedFamilyName"],
            "localisedStyleMapStyleName": i["localisedStyleMapStyleName"],
            "localisedStyleMapFamilyName": i["localisedStyleMapFamilyName"],
            "glyphs": sorted(i["glyphs"]), "has_lib": bool(i["lib"])})
    for v in e["variableFonts"]:
        subs = []
        for s in v["axisSubsets"]:
            if s["kind"] == "value":
                subs.append({"name": s["name"], "uservalue": s["userValue"], "userminimum": None, "userdefault": None, "usermaximum": None})
            else:
                subs.append({"name": s["name"], "uservalue": None,
                             "userminimum": None if s["userMinimum"] == -math.inf else s["userMinimum"],
                             "userdefault": s["userDefault"],
                             "usermaximum": None if s["userMaximum"] == math.inf else s["userMaximum"]})
        f["vfs"].append({"name": v["name"], "filename": v["filename"], "subsets": subs, "has_lib": bool(v["lib"])})
    for l in e["locationLabels"]:
        f["labels"].append({"name": l["name"], "elidable": l["elidable"], "oldersibling": l["olderSibling"],
                            "location": locfacts(None, l["userLocation"]), "labelNames": l["labelNames"]})
    f["has_lib"] = bool(e["lib"])
    return f


# ---------------------------------------------------------------------------
# glyph records
# ---------------------------------------------------------------------------
TRANSFORM_DEFAULTS = (("xScale", 1), ("xyScale", 0), ("yxScale", 0), ("yScale", 1), ("xOffset", 0), ("yOffset", 0))


class RecPen:
    """PointPen that records calls as a plain outline list."""

    def __init__(self):
        self.out = []
        self.cur = None

    def beginPath(self, identifier=None, **kw):
        self.cur = {"identifier": identifier, "points": []}

    def endPath(self):
        self.out.append(("contour", self.cur))
        self.cur = None

    def addPoint(self, pt, segmentType=None, smooth=False, name=None, identifier=None, **kw):
        self.cur["points"].append({"x": pt[0], "y": pt[1], "type": segmentType, "smooth": bool(smooth),
                                   "name": name, "identifier": identifier})

    def addComponent(self, baseGlyphName, transformation, identifier=None, **kw):
        self.out.append(("component", {"base": baseGlyphName, "transformation": tuple(transformation),
                                       "identifier": identifier}))


def draw_outline(outline):
    def draw(pen):
        for kind, d in outline:
            if kind == "contour":
                try:
                    pen.beginPath(identifier=d["identifier"])
                except TypeError:
                    pen.beginPath()
                for p in d["points"]:
                    pen.addPoint((p["x"], p["y"]), segmentType=p["type"], smooth=p["smooth"], name=p["name"],
                                 identifier=p["identifier"])
                pen.endPath()
            else:
                pen.addComponent(d["base"], d["transformation"], identifier=d["identifier"])
    return draw


GLYPH_ATTRS = ("width", "height", "unicodes", "note", "image", "guidelines", "anchors", "lib")


def snap_glyph(obj, outline):
    g = {k: copy.deepcopy(getattr(obj, k, None)) for k in GLYPH_ATTRS} if obj is not None else {k: None for k in GLYPH_ATTRS}
    g["outline"] = copy.deepcopy(outline)
    return g


def norm_note(n):
    if not n:
        return None
    out = "\n".join(line.strip() for line in n.split("\n") if line.strip())
    return out or None


def _norm_transform(t):
    return tuple(d if v == d else v for v, (_, d) in zip(t, TRANSFORM_DEFAULTS))


def norm_outline(outline, fmt):
    out = []
    for kind, d in (outline or []):
        d = copy.deepcopy(d)
        if fmt == 1:
            d["identifier"] = None
        if kind == "contour":
            for p in d["points"]:
                if p["type"] == "offcurve":
                    p["type"] = None
                p["smooth"] = bool(p["smooth"])
                if fmt == 1:
                    p["identifier"] = None
        else:
            d["transformation"] = _norm_transform(d["transformation"])
        out.append((kind, d))
    return out


def expected_glyph(g, fmt):
    """Expected read-back of glyph snapshot `g` written as GLIF `fmt` (1 or 2)."""
    e = {k: None for k in GLYPH_ATTRS}
    w, h = g["width"] or 0, g["height"] or 0
    if w or h:
        e["width"], e["height"] = (w if w else 0), (h if h else 0)
    if g["unicodes"]:
        u = [g["unicodes"]] if isinstance(g["unicodes"], int) else list(g["unicodes"])
        e["unicodes"] = list(dict.fromkeys(u)) or None
    e["note"] = norm_note(g["note"])
    if g["lib"]:
        e["lib"] = dict(g["lib"])
    outline = norm_outline(g["outline"], fmt) if g["outline"] is not None else None
    if fmt >= 2:
        if g["image"]:
            img = {"fileName": g["image"]["fileName"]}
            for k, d in TRANSFORM_DEFAULTS:
                v = g["image"].get(k, d)
                img[k] = d if v == d else v
            if g["image"].get("color") is not None:
                img["color"] = g["image"]["color"]
            e["image"] = img
        if g["guidelines"]:
            e["guidelines"] = [{k: v for k, v in gl.items() if v is not None} for gl in g["guidelines"]]
        if g["anchors"]:
            e["anchors"] = [{k: v for k, v in a.items() if v is not None} for a in g["anchors"]]
    else:
        anchors = []
        if outline is None and g["anchors"]:
            outline = []        # GLIF 1 stores anchors as one-point contours: they need an <outline>
        if outline is not None:
            kept = []
            for kind, d in outline:
                if kind == "contour" and len(d["points"]) == 1 and d["points"][0]["type"] == "move" and d["points"][0]["name"] is not None:
                    p = d["points"][0]
                    anchors.append({"x": p["x"], "y": p["y"], "name": p["name"]})
                else:
                    kept.append((kind, d))
            outline = kept
            for a in (g["anchors"] or []):
                if a.get("name") is not None:
                    anchors.append({"x": a["x"], "y": a["y"], "name": a["name"]})
                else:
                    outline.append(("contour", {"identifier": None, "points": [
                        {"x": a["x"], "y": a["y"], "type": "move", "smooth": False, "name": None, "identifier": None}]}))
        e["anchors"] = anchors or None
    e["outline"] = outline if outline is not None else []
    return e


def read_norm(g, fmt):
    """Normalise a snapshot produced by a reader for comparison (symmetric parts only)."""
    r = dict(g)
    r["note"] = norm_note(g["note"])
    r["outline"] = norm_outline(g["outline"], 2)
    for k in ("unicodes", "guidelines", "anchors", "lib", "image"):
        if not r[k]:
            r[k] = None
    if not r["width"] and not r["height"]:
        r["width"] = r["height"] = None
    return r


def glyph_field(path):
    import re
    parts = [re.sub(r"\[\d+\]", "[]", p) for p in path.split("/") if p]
    out = []
    for p in parts:
        out.append(p)
        if p in ("lib",):
            break
    return "/".join(out[:4])
