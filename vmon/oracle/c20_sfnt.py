"""Spec-written sfnt / TTC / WOFF / WOFF2 *directory* readers and a plain sfnt
builder, independent of fontTools.ttLib.sfnt (used by C20 to locate header, directory
and table boundaries, to transplant damaged table payloads into an otherwise valid
container, and to read back the bytes of a re-saved table)."""
import struct


class Bad(Exception):
    pass


def _need(data, off, n):
    if off < 0 or off + n > len(data):
        raise Bad("short read at %d (+%d) of %d" % (off, n, len(data)))


def sfnt_directory(data, base=0):
    """[(tag(bytes), checksum, offset, length)] of the sfnt whose offset table starts at base."""
    _need(data, base, 12)
    ver, n = struct.unpack(">4sH", data[base:base + 6])
    out = []
    for i in range(n):
        o = base + 12 + 16 * i
        _need(data, o, 16)
        out.append(struct.unpack(">4sLLL", data[o:o + 16]))
    return ver, out


def sfnt_tables(data, base=0):
    """{tag(str latin-1): bytes} of a plain sfnt (bounds-checked)."""
    ver, ents = sfnt_directory(data, base)
    out = {}
    for tag, cs, off, ln in ents:
        _need(data, off, ln)
        out[tag.decode("latin-1")] = bytes(data[off:off + ln])
    return ver, out


def checksum(b):
    b = bytes(b) + b"\0" * (-len(b) % 4)
    return sum(struct.unpack(">%dL" % (len(b) // 4), b)) & 0xFFFFFFFF


def build_sfnt(ver, tables, order=None):
    """Assemble a plain sfnt from {tag: bytes} (tags sorted in the directory as the
    spec requires; data laid out in `order` or directory order; 4-byte padded; correct
    table checksums; head.checkSumAdjustment recomputed when head is >= 12 bytes)."""
    tags = sorted(tables, key=lambda t: t.encode("latin-1"))
    n = len(tags)
    es = 0
    while (2 << es) <= n:
        es += 1
    sr = (1 << es) * 16 if n else 0
    hdr = struct.pack(">4sHHHH", ver, n, sr, es if n else 0, max(0, n * 16 - sr))
    off = 12 + 16 * n
    lay = list(order) if order else tags
    offs = {}
    body = b""
    for t in lay:
        d = tables[t]
        offs[t] = off + len(body)
        body += d + b"\0" * (-len(d) % 4)
    direc = b""
    for t in tags:
        d = tables[t]
        if t == "head" and len(d) >= 12:
            cs = checksum(d[:8] + b"\0\0\0\0" + d[12:])
        else:
            cs = checksum(d)
        direc += struct.pack(">4sLLL", t.encode("latin-1"), cs, offs[t], len(d))
    out = bytearray(hdr + direc + body)
    if "head" in tables and len(tables["head"]) >= 12:
        o = offs["head"] + 8
        out[o:o + 4] = b"\0\0\0\0"
        adj = (0xB1B0AFBA - checksum(out)) & 0xFFFFFFFF
        out[o:o + 4] = struct.pack(">L", adj)
    return bytes(out)


def build_ttc(ver, members):
    """A version-1 TTC from [{tag: bytes}]: byte-identical tables are stored once and shared, as the
    format intends; table checksums are correct, head.checkSumAdjustment is left as found."""
    n = len(members)
    pos = 12 + 4 * n
    dir_offsets = []
    for tabs in members:
        dir_offsets.append(pos)
        pos += 12 + 16 * len(tabs)
    body = b""
    where = {}
    dirs = []
    for tabs in members:
        tags = sorted(tabs, key=lambda t: t.encode("latin-1"))
        nt = len(tags)
        es = 0
        while (2 << es) <= nt:
            es += 1
        sr = (1 << es) * 16 if nt else 0
        d = struct.pack(">4sHHHH", ver, nt, sr, es if nt else 0, max(0, nt * 16 - sr))
        for t in tags:
            b = tabs[t]
            key = (t, b)
            if key not in where:
                where[key] = pos + len(body)
                body += b + b"\0" * (-len(b) % 4)
            cs = checksum(b[:8] + b"\0\0\0\0" + b[12:]) if (t == "head" and len(b) >= 12) else checksum(b)
            d += struct.pack(">4sLLL", t.encode("latin-1"), cs, where[key], len(b))
        dirs.append(d)
    return b"ttcf" + struct.pack(">LL", 0x00010000, n) + struct.pack(">%dL" % n, *dir_offsets) + b"".join(dirs) + body


def ttc_offsets(data):
    _need(data, 0, 12)
    tag, ver, n = struct.unpack(">4sLL", data[:12])
    if tag != b"ttcf":
        raise Bad("not ttcf")
    _need(data, 12, 4 * n)
    return ver, list(struct.unpack(">%dL" % n, data[12:12 + 4 * n]))


def woff_directory(data):
    _need(data, 0, 44)
    sig, flav, length, n = struct.unpack(">4s4sLH", data[:14])
    ents = []
    for i in range(n):
        o = 44 + 20 * i
        _need(data, o, 20)
        ents.append(struct.unpack(">4sLLLL", data[o:o + 20]))  # tag, offset, compLength, origLength, checksum
    return flav, ents


_W2_KNOWN = 63


def _base128(data, pos):
    v = 0
    for i in range(5):
        _need(data, pos, 1)
        b = data[pos]
        pos += 1
        if i == 0 and b == 0x80:
            raise Bad("leading zero")
        if v & 0xFE000000:
            raise Bad("overflow")
        v = (v << 7) | (b & 0x7F)
        if not b & 0x80:
            return v, pos
    raise Bad("base128 too long")


def woff2_directory_end(data):
    """Offset of the first byte after the WOFF2 table directory (start of the
    compressed stream) and the number of tables."""
    _need(data, 0, 48)
    n = struct.unpack(">H", data[12:14])[0]
    pos = 48
    for i in range(n):
        _need(data, pos, 1)
        flags = data[pos]
        pos += 1
        tagidx = flags & 0x3F
        xform = flags >> 6
        if tagidx == _W2_KNOWN:
            _need(data, pos, 4)
            tag = bytes(data[pos:pos + 4])
            pos += 4
        else:
            tag = None
        _, pos = _base128(data, pos)
        # glyf (10) / loca (11): transform 0 carries transformLength; others: any non-zero
        has_tl = (xform == 0) if tagidx in (10, 11) else (xform != 0)
        if has_tl:
            _, pos = _base128(data, pos)
    return pos, n


def regions(data):
    """{"container", "dir": [(start, end) byte ranges of header and directories],
    "bounds": [table boundary offsets]} for the four containers."""
    magic = bytes(data[:4])
    if magic == b"wOFF":
        flav, ents = woff_directory(data)
        end = 44 + 20 * len(ents)
        b = sorted({o for _, o, l, _, _ in ents} | {o + l for _, o, l, _, _ in ents})
        return {"container": "woff", "dir": [(0, end)], "bounds": b}
    if magic == b"wOF2":
        end, n = woff2_directory_end(data)
        return {"container": "woff2", "dir": [(0, end)], "bounds": [end, len(data)]}
    if magic == b"ttcf":
        ver, offs = ttc_offsets(data)
        end = 12 + 4 * len(offs) + (12 if ver >= 0x00020000 else 0)
        b = set()
        dirs = [(0, end)]
        for o in offs:
            v, ents = sfnt_directory(data, o)
            dirs.append((o, o + 12 + 16 * len(ents)))
            for _, _, off, ln in ents:
                b.add(off)
                b.add(off + ln)
        return {"container": "ttc", "dir": dirs, "bounds": sorted(b)}
    ver, ents = sfnt_directory(data)
    end = 12 + 16 * len(ents)
    b = sorted({off for _, _, off, ln in ents} | {off + ln for _, _, off, ln in ents})
    return {"container": "sfnt", "dir": [(0, end)], "bounds": b}
