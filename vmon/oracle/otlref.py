"""Reference interpreter of OpenType Layout over a *rule-level* model (DESIGN §3.3).

The model is what a generator (vmon/gen/c11_fea.py, vmon/gen/c06_spec.py) says the
rules MEAN; it is never derived from compiled tables.  The interpreter follows the
OpenType processing model as HarfBuzz implements it for a default-shaper script with
all features in one stage:

* the lookups of all enabled features are applied in lookup-list order, each once;
* a lookup walks the glyph string left to right (reverse chaining: right to left); at
  each glyph its lookup flag does not skip, the subtables are tried in order and the
  first rule that matches is applied; the walk continues after the consumed input;
* glyphs skipped by the lookup flag (GDEF class / mark attachment class / mark filtering
  set) are transparent to input, backtrack and lookahead matching;
* contextual rules apply their nested lookups at the recorded sequence positions, in
  order, with the nested lookup's own flag; positions shift when a nested lookup changes
  the length of the string;
* ligatures: longest component list first inside one subtable, as the feature-file
  specification prescribes for the compiler;
* pair positioning: specific pairs before class pairs, the first subtable that covers
  the first glyph decides (class 0 shadows later subtables); a non-empty second value
  record makes the next pair start after the second glyph;
* positioning is accumulated in (x_advance, y_advance, x_offset, y_offset); in
  horizontal text only XAdvance changes an advance; glyphs of GDEF class mark end up
  with zero advance; an attached mark's offset is baseAnchor - markAnchor minus the
  advances between the base and the mark; cursive attachment (LTR, RightToLeft flag
  off) aligns exit/entry anchors and accumulates the cross-stream shift.

Where the outcome would depend on HarfBuzz heuristics that neither OpenType nor the
feature-file specification fixes (ligature-component bookkeeping of marks, attaching
marks to the parts of a multiple substitution, two features driving one alternate
lookup, script fallbacks beyond DFLT) the interpreter raises `Undetermined` and the
caller does not judge that text.

Model (plain dicts / lists, JSON friendly)::

    {"advances": {glyph: int},
     "gdef": {glyph: 1|2|3|4} | None,
     "GSUB": [lookup, ...], "GPOS": [lookup, ...],          # lookup-list order
     "langsys": {"GSUB": {script: {lang: {"features": {tag: [lookup index]},
                                           "required": [lookup index]}}}, "GPOS": ...}}

    lookup = {"kind": ..., "flag": {"ignore": [1,2,3 subset], "mat": [glyphs]|None,
                                     "mfs": [glyphs]|None, "rtl": bool}, ...}
    kinds:  subst   "subtables": [[(input tuple, output tuple), ...], ...]
            alt     "alternates": {glyph: [glyph, ...]}
            chain   "subtables": [[{"back": [set..] (reading order), "input": [set..],
                                    "ahead": [set..], "lookups": [[ref, ...] per input position]}]]
                    ref = int (index in the same table's list) or an inline lookup dict
            rchain  "rules": [{"back", "ahead", "map": {glyph: glyph}}]
            spos    "values": {glyph: (xPla, yPla, xAdv, yAdv)}
            ppos    "pairs": {(a, b): (v1|None, v2|None)},
                    "classes": [[(set1, set2, v1|None, v2|None), ...], ...]
            curs    "anchors": {glyph: (entry|None, exit|None)}
            mbase   "marks": {glyph: (class, (x, y))}, "bases": {glyph: {class: (x, y)}}
            mmark   same with "bases" being marks
            mlig    "marks", "ligs": {glyph: [{class: (x, y)}, ... per component]}
"""

from fractions import Fraction as _F

BASE, LIG, MARK, COMP = 1, 2, 3, 4
F_HALF, F_EPS = _F(1, 2), _F(1, 200)
MAX_NEST = 6


class Undetermined(Exception):
    """The model does not determine the outcome without shaper-specific heuristics."""


class Glyph(object):
    __slots__ = ("name", "cl", "xa", "ya", "xo", "yo", "atype", "achain",
                 "multcomp", "ligmark", "ligated", "src")

    def __init__(self, name, cl, src=None):
        self.name, self.cl = name, cl
        self.xa = self.ya = self.xo = self.yo = 0
        self.atype = 0      # 1 mark attachment, 2 cursive
        self.achain = 0     # relative index of the parent
        self.multcomp = 0   # index inside a multiple-substitution output (>0: not first)
        self.ligmark = False  # mark whose ligature component bookkeeping was touched
        self.ligated = False
        self.src = src

    def copy(self, name, cl):
        g = Glyph(name, cl, self.src)
        g.ligmark = self.ligmark
        return g


def _sets(seq):
    return [frozenset(s) for s in seq]


class Flag(object):
    __slots__ = ("ignore", "mat", "mfs", "rtl")

    def __init__(self, d):
        d = d or {}
        self.ignore = frozenset(d.get("ignore") or ())
        self.mat = None if d.get("mat") is None else frozenset(d["mat"])
        self.mfs = None if d.get("mfs") is None else frozenset(d["mfs"])
        self.rtl = bool(d.get("rtl"))

    def skips(self, g):
        if g.cl in self.ignore:
            return True
        if g.cl == MARK:
            if self.mfs is not None:
                return g.name not in self.mfs
            if self.mat is not None:
                return g.name not in self.mat
        return False


_NOFLAG = Flag(None)


class Interp(object):
    def __init__(self, model):
        self.m = model
        self.gdef = model.get("gdef")
        self.adv = model["advances"]
        self._flags = {}
        self.trace = []          # (table, lookup index, position, kind) of rules that fired
        for tab in ("GSUB", "GPOS"):
            for lk in model.get(tab, []):
                self._prep(lk)
        if self.gdef is None:
            for tab in ("GSUB", "GPOS"):
                for lk in model.get(tab, []):
                    if self._any_flag(lk):
                        raise Undetermined("lookup flag without glyph classes")

    # -- preparation --------------------------------------------------------
    def _any_flag(self, lk):
        f = self.flag(lk)
        if f.ignore or f.mat is not None or f.mfs is not None:
            return True
        if lk["kind"] in ("chain", "cpos"):
            for st in lk["subtables"]:
                for r in st:
                    for refs in r["lookups"]:
                        for ref in refs or ():
                            if isinstance(ref, dict) and self._any_flag(ref):
                                return True
        return False

    def _prep(self, lk):
        if id(lk) in self._flags:
            return
        self._flags[id(lk)] = Flag(lk.get("flag"))
        k = lk["kind"]
        if k in ("chain", "cpos"):
            for st in lk["subtables"]:
                for r in st:
                    r["_b"], r["_i"], r["_a"] = _sets(r["back"]), _sets(r["input"]), _sets(r["ahead"])
                    for refs in r["lookups"]:
                        for ref in refs or ():
                            if isinstance(ref, dict):
                                self._prep(ref)
        elif k == "subst":
            idx = []
            for st in lk["subtables"]:
                d = {}
                for r in st:
                    d.setdefault(r[0][0], []).append(r)
                for v in d.values():
                    v.sort(key=lambda r: -len(r[0]))      # stable: file order among equal lengths
                idx.append(d)
            lk["_idx"] = idx
        elif k == "rchain":
            for r in lk["rules"]:
                r["_b"], r["_a"] = _sets(r["back"]), _sets(r["ahead"])
        elif k == "ppos":
            lk["_classes"] = [[(frozenset(a), frozenset(b), v1, v2) for a, b, v1, v2 in st] for st in lk.get("classes", [])]
            cidx = []
            for st in lk["_classes"]:
                left, right, vals, lid, rid = {}, {}, {}, {}, {}
                for n_, (a, b, v1, v2) in enumerate(st):
                    li = lid.setdefault(a, len(lid))
                    ri = rid.setdefault(b, len(rid))
                    vals.setdefault((li, ri), (n_, v1, v2))
                for a, li in lid.items():
                    for x in a:
                        left.setdefault(x, []).append(li)
                for b, ri in rid.items():
                    for x in b:
                        right.setdefault(x, []).append(ri)
                cidx.append((left, right, vals, any(v2 is not None for a, b, v1, v2 in st)))
            lk["_cidx"] = cidx
            lk["_pairs"] = {tuple(k_): v for k_, v in (lk.get("pairs") or {}).items()} if isinstance(lk.get("pairs"), dict) else \
                {(a, b): (v1, v2) for a, b, v1, v2 in (lk.get("pairs") or [])}

    def flag(self, lk):
        return self._flags[id(lk)]

    def gclass(self, name):
        if self.gdef is None:
            return BASE
        return self.gdef.get(name, 0)

    # -- language system ----------------------------------------------------
    def _select(self, table, script, lang):
        scripts = (self.m.get("langsys") or {}).get(table) or {}
        if not scripts:
            return None
        if script in scripts:
            s = scripts[script]
        elif "DFLT" in scripts:
            s = scripts["DFLT"]
        elif "dflt" in scripts or "latn" in scripts:
            raise Undetermined("script fallback beyond DFLT")
        else:
            return None
        if lang in s:
            return s[lang]
        return s.get("dflt")

    def active(self, table, features, script="DFLT", lang="dflt"):
        """[(lookup index, feature value or None if ambiguous)] sorted by index."""
        ls = self._select(table, script, lang)
        if ls is None:
            return []
        vals = {}
        for li in ls.get("required") or ():
            vals.setdefault(li, []).append(1)
        for tag, v in features.items():
            v = int(v)
            if not v:
                continue
            for li in ls["features"].get(tag, ()):
                vals.setdefault(li, []).append(v)
        return [(li, vs[0] if len(vs) == 1 else None) for li, vs in sorted(vals.items())]

    # -- driver ---------------------------------------------------------------
    def shape(self, text, features, script="DFLT", lang="dflt", ppem=None, loc=None):
        """-> [(glyph, x_advance, y_advance, x_offset, y_offset)]; `ppem` = pixels per em the
        shaper is told (hinting Device tables act), `loc` = user coordinate on the model's axis"""
        self.trace = []
        self.ppem, self.loc, self.upem = ppem, loc, self.m.get("upem", 1000)
        buf = [Glyph(n, self.gclass(n), i) for i, n in enumerate(text)]
        for li, val in self.active("GSUB", features, script, lang):
            self._run(buf, "GSUB", li, val)
        for g in buf:
            g.xa, g.ya, g.xo, g.yo = self.adv[g.name], 0, 0, 0
        has_gpos = bool(self.m.get("GPOS")) or bool((self.m.get("langsys") or {}).get("GPOS"))
        for li, val in self.active("GPOS", features, script, lang):
            self._run(buf, "GPOS", li, val)
        for g in buf:
            if g.cl == MARK:
                if not has_gpos:
                    g.xo -= g.xa
                    g.yo -= g.ya
                g.xa = g.ya = 0
        self._finish(buf)
        return [(g.name, g.xa, g.ya, g.xo, g.yo) for g in buf]

    def _run(self, buf, table, li, val):
        lk = self.m[table][li]
        fl = self.flag(lk)
        if lk["kind"] == "rchain":
            idx = len(buf) - 1
            while idx >= 0:
                if not fl.skips(buf[idx]):
                    self._rchain_at(buf, idx, lk, fl, li)
                idx -= 1
            return
        idx = 0
        guard = 0
        while idx < len(buf):
            guard += 1
            if guard > 100000:
                raise Undetermined("runaway")
            if not fl.skips(buf[idx]):
                n = self._apply(buf, idx, table, lk, val, 0, li)
                if n is not None:
                    idx = n
                    continue
            idx += 1

    # -- matching helpers -----------------------------------------------------
    @staticmethod
    def _next(buf, i, fl):
        i += 1
        while i < len(buf) and fl.skips(buf[i]):
            i += 1
        return i if i < len(buf) else None

    @staticmethod
    def _prev(buf, i, fl):
        i -= 1
        while i >= 0 and fl.skips(buf[i]):
            i -= 1
        return i if i >= 0 else None

    def _match_input(self, buf, idx, sets, fl):
        """sets[0] is assumed to match buf[idx]; -> positions or None"""
        pos = [idx]
        i = idx
        for s in sets[1:]:
            i = self._next(buf, i, fl)
            if i is None or buf[i].name not in s:
                return None
            pos.append(i)
        if len(pos) > 1 and any(buf[p].ligmark for p in pos):
            raise Undetermined("input sequence over marks with ligature-component state")
        return pos

    def _match_back(self, buf, idx, sets_reading_order, fl):
        i = idx
        for s in reversed(sets_reading_order):
            i = self._prev(buf, i, fl)
            if i is None or buf[i].name not in s:
                return False
        return True

    def _match_ahead(self, buf, start, sets, fl):
        i = start - 1
        for s in sets:
            i = self._next(buf, i, fl)
            if i is None or buf[i].name not in s:
                return False
        return True

    # -- one lookup at one position -------------------------------------------
    def _apply(self, buf, idx, table, lk, val, nest, li):
        k = lk["kind"]
        fl = self.flag(lk)
        r = getattr(self, "_k_" + k)(buf, idx, lk, fl, val, nest, table, li)
        if r is not None:
            self.trace.append((table, li, idx, k))
        return r

    def _setname(self, g, name):
        g.name = name
        g.cl = self.gclass(name)

    def _k_subst(self, buf, idx, lk, fl, val, nest, table, li):
        g = buf[idx]
        for st in lk["_idx"]:
            cands = st.get(g.name)
            if not cands:
                continue
            for inp, out in cands:
                pos = self._match_input(buf, idx, [(x,) for x in inp], fl)
                if pos is None:
                    continue
                if len(inp) == 1:
                    if len(out) == 1:
                        self._setname(g, out[0])
                        return idx + 1
                    new = []
                    for i, o in enumerate(out):
                        ng = g.copy(o, self.gclass(o))
                        ng.multcomp = i
                        new.append(ng)
                    buf[idx:idx + 1] = new
                    return idx + len(out)
                # ligature
                end = pos[-1] + 1
                comps = [buf[p] for p in pos]
                skipped = [buf[i] for i in range(idx + 1, end) if i not in pos]
                all_marks = all(c.cl == MARK for c in comps)
                base_lig = comps[0].cl == BASE and all(c.cl == MARK for c in comps[1:])
                is_lig = not all_marks and not base_lig
                ng = g.copy(out[0], self.gclass(out[0]))
                ng.ligated = True
                ng.ligmark = False
                if is_lig:
                    for s in skipped:
                        s.ligmark = True
                    j = end
                    while j < len(buf) and buf[j].cl == MARK:
                        buf[j].ligmark = True
                        j += 1
                elif skipped or any(c.ligmark for c in comps):
                    raise Undetermined("mark ligature over skipped glyphs")
                buf[idx:end] = [ng] + skipped
                return idx + 1 + len(skipped)
        return None

    def _k_alt(self, buf, idx, lk, fl, val, nest, table, li):
        g = buf[idx]
        alts = lk["alternates"].get(g.name)
        if alts is None:
            return None
        if val is None:
            raise Undetermined("alternate lookup driven by two features")
        if val < 1 or val > len(alts):
            return None
        self._setname(g, alts[val - 1])
        return idx + 1

    def _k_chain(self, buf, idx, lk, fl, val, nest, table, li):
        g = buf[idx]
        for st in lk["subtables"]:
            for r in st:
                if g.name not in r["_i"][0]:
                    continue
                pos = self._match_input(buf, idx, r["_i"], fl)
                if pos is None:
                    continue
                end = pos[-1] + 1
                if not self._match_ahead(buf, end, r["_a"], fl):
                    continue
                if not self._match_back(buf, idx, r["_b"], fl):
                    continue
                return self._apply_nested(buf, pos, end, r, table, val, nest, li)
        return None

    _k_cpos = _k_chain

    def _apply_nested(self, buf, pos, end, rule, table, val, nest, li):
        pos = list(pos)
        count = len(pos)
        records = []
        for seq, refs in enumerate(rule["lookups"]):
            for ref in refs or ():
                records.append((seq, ref))
        if records and nest >= MAX_NEST:
            raise Undetermined("nesting too deep")
        for seq, ref in records:
            if seq >= count:
                continue
            if pos[seq] >= len(buf):
                continue
            nl = self.m[table][ref] if isinstance(ref, int) else ref
            if nl["kind"] == "rchain":
                continue
            if isinstance(ref, int) and ref == li and seq == 0:
                continue
            orig = len(buf)
            r = self._apply(buf, pos[seq], table, nl, val, nest + 1, ref if isinstance(ref, int) else -1)
            if r is None:
                continue
            delta = len(buf) - orig
            if not delta:
                continue
            end += delta
            if end < pos[seq]:
                delta += pos[seq] - end
                end = pos[seq]
            nxt = seq + 1
            if delta > 0:
                if delta + count > 64:
                    break
                pos[nxt:nxt] = [0] * delta
            else:
                delta = max(delta, nxt - count)
                del pos[nxt:nxt - delta]
            count += delta
            nn = nxt + max(delta, 0)
            for j in range(seq + 1, nn):
                pos[j] = pos[j - 1] + 1
            for j in range(nn, count):
                pos[j] += delta
        return max(end, 0)

    def _rchain_at(self, buf, idx, lk, fl, li):
        g = buf[idx]
        for r in lk["rules"]:
            if g.name not in r["map"]:
                continue
            if not self._match_back(buf, idx, r["_b"], fl):
                continue
            if not self._match_ahead(buf, idx + 1, r["_a"], fl):
                continue
            self._setname(g, r["map"][g.name])
            self.trace.append(("GSUB", li, idx, "rchain"))
            return True
        return False

    def _k_rchain(self, buf, idx, lk, fl, val, nest, table, li):
        return None  # never applied as a nested lookup

    # -- GPOS -------------------------------------------------------------------
    # A value record is (xPla, yPla, xAdv, yAdv) or (xPla, yPla, xAdv, yAdv, extra) and an anchor is
    # (x, y) or (x, y, extra); `extra` maps a field ("xp","yp","xa","ya" / "x","y") to
    #   {"dev": {ppem: pixels}}         hinting Device table: adds trunc(pixels * upem / ppem) at that ppem
    #   {"var": [(user location, value), ...]}   value at the masters of the single variation axis
    #                                   (piecewise linear in normalised space, rounded like HarfBuzz)
    def _field(self, plain, ex):
        if not ex:
            return plain
        v = plain
        var = ex.get("var")
        if var and self.loc is not None:
            v = self._var_value(var)
        dev = ex.get("dev")
        if dev and self.ppem:
            px = dev.get(self.ppem, 0)
            if px:
                q = abs(px) * self.upem // self.ppem
                v += q if px > 0 else -q
        return v

    def _norm(self, u):
        from fractions import Fraction as F

        tag, lo, df, hi = self.m["axis"]
        u = F(min(max(u, lo), hi))
        if u < df:
            return -(df - u) / F(df - lo)
        if u > df:
            return (u - df) / F(hi - df)
        return F(0)

    def _var_value(self, masters):
        """One axis, masters on a line: the variation model is piecewise linear through the
        masters (normalised space); HarfBuzz adds roundf(delta) to the default value."""
        pts = sorted((self._norm(u), v) for u, v in masters)
        t = self._norm(self.loc)
        dflt = [v for n_, v in pts if n_ == 0]
        if not dflt:
            raise Undetermined("variable value without a default master")
        if t < pts[0][0] or t > pts[-1][0]:
            raise Undetermined("location outside the masters")
        for (a, va), (b, vb) in zip(pts, pts[1:]):
            if a <= t <= b and b > a:
                d = va + (vb - va) * (t - a) / (b - a) - dflt[0]
                frac = abs(d) - int(abs(d))
                if abs(frac - F_HALF) < F_EPS:
                    raise Undetermined("delta at a rounding tie")
                r = int(abs(d) + F_HALF)
                return dflt[0] + (r if d >= 0 else -r)
        return pts[0][1]

    def _value(self, g, v):
        if v is None:
            return
        ex = v[4] if len(v) > 4 and v[4] else {}
        g.xo += self._field(v[0], ex.get("xp"))
        g.yo += self._field(v[1], ex.get("yp"))
        g.xa += self._field(v[2], ex.get("xa"))
        # v[3] (YAdvance) does not act on horizontal text

    def _anchor(self, a):
        if len(a) > 2 and a[2]:
            return self._field(a[0], a[2].get("x")), self._field(a[1], a[2].get("y"))
        return a[0], a[1]

    def _k_spos(self, buf, idx, lk, fl, val, nest, table, li):
        v = lk["values"].get(buf[idx].name)
        if v is None:
            return None
        self._value(buf[idx], v)
        return idx + 1

    def _k_ppos(self, buf, idx, lk, fl, val, nest, table, li):
        g = buf[idx]
        j = self._next(buf, idx, fl)
        if j is None:
            return None
        h = buf[j]
        pairs = lk["_pairs"]
        if (g.name, h.name) in pairs:
            v1, v2 = pairs[(g.name, h.name)]
            self._value(g, v1)
            self._value(h, v2)
            return j + 1 if v2 is not None else j
        for left, right, vals, second in lk["_cidx"]:
            ls = left.get(g.name)
            if ls is None:
                continue
            rs = right.get(h.name)
            if rs is not None:
                # first rule in file order whose classes contain both glyphs
                best = None
                for li in ls:
                    for ri in rs:
                        k_ = vals.get((li, ri))
                        if k_ is not None and (best is None or k_[0] < best[0]):
                            best = k_
                if best is not None:
                    self._value(g, best[1])
                    self._value(h, best[2])
            return j + 1 if second else j
        return None

    def _k_curs(self, buf, idx, lk, fl, val, nest, table, li):
        if fl.rtl:
            raise Undetermined("cursive RightToLeft")
        g = buf[idx]
        rec = lk["anchors"].get(g.name)
        if rec is None or rec[0] is None:
            return None
        i = self._prev(buf, idx, fl)
        if i is None:
            return None
        p = buf[i]
        prec = lk["anchors"].get(p.name)
        if prec is None or prec[1] is None:
            return None
        ex, ey = self._anchor(prec[1])
        nx, ny = self._anchor(rec[0])
        p.xa = ex + p.xo
        d = nx + g.xo
        g.xa -= d
        g.xo -= d
        # child = current glyph, parent = previous one; earlier attachment of the child is undone
        child, parent = idx, i
        self._reverse_cursive(buf, child, parent)
        g.atype = 2
        g.achain = parent - child
        g.yo = ey - ny
        if buf[parent].achain == -g.achain:
            buf[parent].achain = 0
            buf[parent].atype = 0
        return idx + 1

    def _reverse_cursive(self, buf, i, new_parent):
        g = buf[i]
        if not g.achain or g.atype != 2:
            return
        # only arises when one glyph is attached by two cursive lookups in both directions
        raise Undetermined("cursive chain reversal")

    def _find_base(self, buf, idx):
        j = idx - 1
        while j >= 0 and buf[j].cl == MARK:
            j -= 1
        if j < 0:
            return None
        if buf[j].multcomp:
            raise Undetermined("mark after a multiple-substitution component")
        return j

    def _attach(self, buf, idx, j, banchor, manchor):
        g = buf[idx]
        banchor, manchor = self._anchor(banchor), self._anchor(manchor)
        g.xo = banchor[0] - manchor[0]
        g.yo = banchor[1] - manchor[1]
        g.atype = 1
        g.achain = j - idx

    def _mark_guard(self, buf, idx, j):
        if buf[idx].ligmark or any(b.ligmark for b in buf[j:idx]):
            raise Undetermined("mark attachment next to a ligature formed in this run")

    def _k_mbase(self, buf, idx, lk, fl, val, nest, table, li):
        g = buf[idx]
        m = lk["marks"].get(g.name)
        if m is None:
            return None
        j = self._find_base(buf, idx)
        if j is None:
            return None
        b = lk["bases"].get(buf[j].name)
        if b is None:
            return None
        self._mark_guard(buf, idx, j)
        if buf[j].ligated:
            raise Undetermined("mark on a ligature formed in this run")
        a = b.get(m[0])
        if a is None:
            return None
        self._attach(buf, idx, j, a, m[1])
        return idx + 1

    def _k_mlig(self, buf, idx, lk, fl, val, nest, table, li):
        g = buf[idx]
        m = lk["marks"].get(g.name)
        if m is None:
            return None
        j = self._find_base(buf, idx)
        if j is None:
            return None
        comps = lk["ligs"].get(buf[j].name)
        if comps is None:
            return None
        self._mark_guard(buf, idx, j)
        if buf[j].ligated:
            raise Undetermined("mark on a ligature formed in this run")
        if not comps:
            return None
        a = comps[-1].get(m[0])   # a ligature that came straight from the text: last component
        if a is None:
            return None
        self._attach(buf, idx, j, a, m[1])
        return idx + 1

    def _k_mmark(self, buf, idx, lk, fl, val, nest, table, li):
        g = buf[idx]
        m = lk["marks"].get(g.name)
        if m is None:
            return None
        # previous glyph under the mark-filtering part of the flag only
        f2 = Flag({"mat": lk.get("flag", {}).get("mat") if lk.get("flag") else None,
                   "mfs": lk.get("flag", {}).get("mfs") if lk.get("flag") else None})
        j = self._prev(buf, idx, f2)
        if j is None:
            return None
        if buf[j].cl != MARK:
            return None
        if g.ligmark or buf[j].ligmark or g.ligated or buf[j].ligated:
            raise Undetermined("mark-to-mark next to a ligature formed in this run")
        b = lk["bases"].get(buf[j].name)
        if b is None:
            return None
        a = b.get(m[0])
        if a is None:
            return None
        self._attach(buf, idx, j, a, m[1])
        return idx + 1

    # -- finishing ---------------------------------------------------------------
    def _finish(self, buf):
        done = set()

        def prop(i, depth=0):
            g = buf[i]
            if not g.achain or i in done:
                return
            done.add(i)
            j = i + g.achain
            chain, g.achain = g.achain, 0
            if j < 0 or j >= len(buf) or depth > 64:
                return
            prop(j, depth + 1)
            p = buf[j]
            if g.atype == 2:
                g.yo += p.yo
            else:
                g.xo += p.xo
                g.yo += p.yo
                if j < i:
                    for k in range(j, i):
                        g.xo -= buf[k].xa
                        g.yo -= buf[k].ya
                else:
                    raise Undetermined("mark attached forward")

        for i in range(len(buf)):
            prop(i)


# =====================================================================================
# Spec-written structural walker for compiled GSUB / GPOS bytes (C06 monitor 2).
# Written from the OpenType specification (chapters "OpenType Layout Common Table
# Formats", "GSUB", "GPOS"); it does not import fontTools.  Every offset is followed,
# must stay inside the table and must land on an object whose format, counts and
# array sizes are consistent.  Returns statistics; raises BadLayout otherwise.
# =====================================================================================
import struct as _struct
from collections import Counter as _Counter


class BadLayout(Exception):
    def __init__(self, what, path):
        Exception.__init__(self, "%s at %s" % (what, "/".join(path)))
        self.what, self.path = what, list(path)


class _Walker(object):
    def __init__(self, data, tag):
        self.d, self.n, self.tag = data, len(data), tag
        self.stats = _Counter()
        self.path = []
        self.nlookups = 0
        self.max_end = 0
        self.cov_cache = {}
        self.cd_cache = {}
        self.lookup_refs = []
        self.devices = set()  # decoded hinting Device tables (StartSize, EndSize, DeltaFormat, deltas)
        self.extents = {}     # start -> (end, kind) of Device / Anchor / Coverage / ClassDef / CaretValue objects

    # -- primitives
    def bad(self, what):
        raise BadLayout(what, self.path)

    def need(self, pos, size, what="data"):
        if pos < 0 or pos + size > self.n:
            self.bad("%s [%d,+%d) outside the table (%d bytes)" % (what, pos, size, self.n))
        if pos + size > self.max_end:
            self.max_end = pos + size

    def extent(self, pos, size, kind):
        end = pos + size
        old = self.extents.get(pos)
        if old is None or old[0] < end:
            self.extents[pos] = (end, kind)

    def check_extents(self):
        """No object may begin inside another one (identical, i.e. shared, objects are fine)."""
        last_start, last_end, last_kind = -1, -1, None
        for start in sorted(self.extents):
            end, kind = self.extents[start]
            if start < last_end:
                self.path = [self.tag]
                self.bad("%s at %d begins inside the %s at [%d,%d)" % (kind, start, last_kind, last_start, last_end))
            if end > last_end:
                last_start, last_end, last_kind = start, end, kind

    def u16(self, pos):
        self.need(pos, 2)
        return _struct.unpack_from(">H", self.d, pos)[0]

    def u32(self, pos):
        self.need(pos, 4)
        return _struct.unpack_from(">L", self.d, pos)[0]

    def u16s(self, pos, count):
        self.need(pos, 2 * count, "array of %d uint16" % count)
        return _struct.unpack_from(">%dH" % count, self.d, pos)

    def off(self, base, pos, nullable=False, name="offset"):
        o = self.u16(pos)
        if o == 0:
            if nullable:
                return None
            self.bad("NULL %s" % name)
        if base + o >= self.n:
            self.bad("%s %d from %d points outside the table" % (name, o, base))
        return base + o

    class _P(object):
        def __init__(self, w, name):
            self.w, self.name = w, name

        def __enter__(self):
            self.w.path.append(self.name)

        def __exit__(self, et, ev, tb):
            if et is None:
                self.w.path.pop()
            return False

    def at(self, name):
        return self._P(self, name)

    # -- common tables
    def coverage(self, pos):
        if pos in self.cov_cache:
            return self.cov_cache[pos]
        with self.at("Coverage@%d" % pos):
            fmt = self.u16(pos)
            if fmt == 1:
                cnt = self.u16(pos + 2)
                g = self.u16s(pos + 4, cnt)
                if any(g[i] >= g[i + 1] for i in range(cnt - 1)):
                    self.bad("coverage format 1 glyph ids not strictly increasing")
                res = cnt
                self.extent(pos, 4 + 2 * cnt, "Coverage")
            elif fmt == 2:
                cnt = self.u16(pos + 2)
                r = self.u16s(pos + 4, 3 * cnt)
                total, last = 0, -1
                spans = []
                for i in range(cnt):
                    s, e, sci = r[3 * i:3 * i + 3]
                    if s > e or s <= last:
                        self.bad("coverage range %d (%d-%d) out of order" % (i, s, e))
                    spans.append((sci, e - s + 1))
                    total += e - s + 1
                    last = e
                # the coverage indices of all ranges together are 0..total-1, each once (they
                # need not grow with the glyph ids: a coverage may be stored in another order)
                nxt = 0
                for sci, ln in sorted(spans):
                    if sci != nxt:
                        self.bad("coverage ranges do not number the coverage indices N..N exactly once (index %d, expected %d)" % (sci, nxt))
                    nxt += ln
                if spans != sorted(spans):
                    self.stats["Coverage.unsorted-indices"] += 1
                res = total
                self.extent(pos, 4 + 6 * cnt, "Coverage")
            else:
                self.bad("coverage format %d" % fmt)
            self.stats["Coverage.format%d" % fmt] += 1
        self.cov_cache[pos] = res
        return res

    def classdef(self, pos):
        """-> highest class value used"""
        if pos in self.cd_cache:
            return self.cd_cache[pos]
        with self.at("ClassDef@%d" % pos):
            fmt = self.u16(pos)
            if fmt == 1:
                cnt = self.u16(pos + 4)
                vals = self.u16s(pos + 6, cnt)
                res = max(vals) if vals else 0
                self.extent(pos, 6 + 2 * cnt, "ClassDef")
            elif fmt == 2:
                cnt = self.u16(pos + 2)
                r = self.u16s(pos + 4, 3 * cnt)
                last, res = -1, 0
                for i in range(cnt):
                    s, e, c = r[3 * i:3 * i + 3]
                    if s > e or s <= last:
                        self.bad("class range %d (%d-%d) out of order" % (i, s, e))
                    last = e
                    res = max(res, c)
                self.extent(pos, 4 + 6 * cnt, "ClassDef")
            else:
                self.bad("ClassDef format %d" % fmt)
            self.stats["ClassDef.format%d" % fmt] += 1
        self.cd_cache[pos] = res
        return res

    def device(self, pos):
        with self.at("Device@%d" % pos):
            s, e, f = self.u16s(pos, 3)
            if f in (1, 2, 3):
                if s > e:
                    self.bad("device startSize > endSize")
                per = {1: 8, 2: 4, 3: 2}[f]
                words = (e - s + 1 + per - 1) // per
                self.need(pos + 6, 2 * words, "device deltas")
                self.extent(pos, 6 + 2 * words, "Device")
                bits = 16 // per
                deltas = []
                for k in range(e - s + 1):
                    w_ = self.u16(pos + 6 + 2 * (k // per))
                    v_ = (w_ >> (16 - bits * (k % per + 1))) & ((1 << bits) - 1)
                    deltas.append(v_ - (1 << bits) if v_ >> (bits - 1) else v_)
                self.devices.add((s, e, f, tuple(deltas)))
                self.stats["Device.format%d" % f] += 1
            elif f != 0x8000:
                self.bad("device deltaFormat %#x" % f)
            else:
                self.extent(pos, 6, "VariationIndex")
                self.stats["VariationIndex"] += 1

    def anchor(self, pos):
        with self.at("Anchor@%d" % pos):
            fmt = self.u16(pos)
            self.extent(pos, {1: 6, 2: 8, 3: 10}.get(fmt, 2), "Anchor")
            if fmt == 1:
                self.need(pos, 6)
            elif fmt == 2:
                self.need(pos, 8)
            elif fmt == 3:
                self.need(pos, 10)
                for k in (6, 8):
                    o = self.u16(pos + k)
                    if o:
                        self.device(pos + o)
            else:
                self.bad("anchor format %d" % fmt)
            self.stats["Anchor.format%d" % fmt] += 1

    @staticmethod
    def vsize(fmt):
        return 2 * bin(fmt & 0xFF).count("1")

    def value(self, pos, fmt, base):
        """value record at pos; device offsets are relative to base"""
        size = self.vsize(fmt)
        self.need(pos, size, "value record")
        if fmt & 0xF0:
            p = pos
            for bit in (1, 2, 4, 8):
                if fmt & bit:
                    p += 2
            for bit in (0x10, 0x20, 0x40, 0x80):
                if fmt & bit:
                    o = self.u16(p)
                    if o:
                        self.device(base + o)
                    p += 2
        if fmt & 0xFF00:
            self.bad("reserved value format bits %#x" % fmt)
        return size

    def seq_records(self, pos, count, ninput):
        r = self.u16s(pos, 2 * count)
        for i in range(count):
            if ninput is not None and r[2 * i] >= ninput:
                self.bad("sequence index %d >= glyph count %d" % (r[2 * i], ninput))
            self.lookup_refs.append((r[2 * i + 1], list(self.path)))

    # -- header / lists
    def walk(self):
        with self.at(self.tag):
            major, minor = self.u16s(0, 2)
            if major != 1 or minor not in (0, 1):
                self.bad("version %d.%d" % (major, minor))
            sl, fl, ll = self.u16s(4, 3)
            if minor == 1:
                fv = self.u32(10)
                if fv:
                    self.stats["FeatureVariations"] += 1
                    self.need(fv, 8)
            nfeat = 0
            if ll:
                self.lookuplist(ll)
            if fl:
                nfeat = self.featurelist(fl)
            if sl:
                self.scriptlist(sl, nfeat)
            for li, path in self.lookup_refs:
                if li >= self.nlookups:
                    self.path = path
                    self.bad("lookup index %d >= LookupCount %d" % (li, self.nlookups))
        self.check_extents()
        if self.devices:
            self.stats["_devices"] = sorted(self.devices)
        self.stats["lookups"] = self.nlookups
        self.stats["bytes"] = self.n
        self.stats["max_reached"] = self.max_end
        return self.stats

    def walk_gdef(self):
        with self.at("GDEF"):
            major, minor = self.u16s(0, 2)
            if major != 1 or minor not in (0, 2, 3):
                self.bad("version %d.%d" % (major, minor))
            gcd, al, lcl, macd = self.u16s(4, 4)
            if gcd:
                with self.at("GlyphClassDef"):
                    if self.classdef(gcd) > 4:
                        self.bad("glyph class > 4")
            if macd:
                with self.at("MarkAttachClassDef"):
                    self.classdef(macd)
            if al:
                with self.at("AttachList"):
                    n = self.coverage(self.off(al, al, name="coverage offset"))
                    cnt = self.u16(al + 2)
                    if cnt != n:
                        self.bad("AttachList glyphCount %d != coverage %d" % (cnt, n))
                    for i in range(cnt):
                        ap = self.off(al, al + 4 + 2 * i, name="AttachPoint offset")
                        self.u16s(ap + 2, self.u16(ap))
            if lcl:
                with self.at("LigCaretList"):
                    n = self.coverage(self.off(lcl, lcl, name="coverage offset"))
                    cnt = self.u16(lcl + 2)
                    if cnt != n:
                        self.bad("LigGlyphCount %d != coverage %d" % (cnt, n))
                    for i in range(cnt):
                        lg = self.off(lcl, lcl + 4 + 2 * i, name="LigGlyph offset")
                        cc = self.u16(lg)
                        for j in range(cc):
                            cv = self.off(lg, lg + 2 + 2 * j, name="CaretValue offset")
                            with self.at("LigGlyph[%d]/CaretValue[%d]" % (i, j)):
                                fmt = self.u16(cv)
                                self.stats["CaretValue.format%d" % fmt] += 1
                                if fmt in (1, 2):
                                    self.need(cv, 4)
                                    self.extent(cv, 4, "CaretValue")
                                elif fmt == 3:
                                    self.need(cv, 6)
                                    self.extent(cv, 6, "CaretValue")
                                    o = self.u16(cv + 4)
                                    if o:
                                        self.device(cv + o)
                                else:
                                    self.bad("CaretValue format %d" % fmt)
            if minor >= 2:
                mgs = self.u16(12)
                if mgs:
                    with self.at("MarkGlyphSetsDef"):
                        if self.u16(mgs) != 1:
                            self.bad("MarkGlyphSets format")
                        cnt = self.u16(mgs + 2)
                        for i in range(cnt):
                            o = self.u32(mgs + 4 + 4 * i)
                            if not o or mgs + o >= self.n:
                                self.bad("mark glyph set coverage offset")
                            self.coverage(mgs + o)
            if minor >= 3:
                vs = self.u32(14)
                if vs:
                    self.need(vs, 8, "ItemVariationStore")
                    self.stats["VarStore"] += 1
        self.check_extents()
        if self.devices:
            self.stats["_devices"] = sorted(self.devices)
        self.stats["bytes"] = self.n
        return self.stats

    def scriptlist(self, pos, nfeat):
        with self.at("ScriptList"):
            cnt = self.u16(pos)
            self.need(pos + 2, 6 * cnt)
            for i in range(cnt):
                s = self.off(pos, pos + 2 + 6 * i + 4, name="script offset")
                with self.at("Script[%d]" % i):
                    d = self.u16(s)
                    lc = self.u16(s + 2)
                    langs = [s + d] if d else []
                    self.need(s + 4, 6 * lc)
                    for j in range(lc):
                        langs.append(self.off(s, s + 4 + 6 * j + 4, name="langsys offset"))
                    for l in langs:
                        if l >= self.n:
                            self.bad("langsys outside table")
                        req = self.u16(l + 2)
                        fc = self.u16(l + 4)
                        idx = self.u16s(l + 6, fc)
                        if req != 0xFFFF and req >= nfeat:
                            self.bad("required feature index %d >= %d" % (req, nfeat))
                        if any(x >= nfeat for x in idx):
                            self.bad("feature index >= FeatureCount %d" % nfeat)
                        self.stats["LangSys"] += 1

    def featurelist(self, pos):
        with self.at("FeatureList"):
            cnt = self.u16(pos)
            self.need(pos + 2, 6 * cnt)
            for i in range(cnt):
                f = self.off(pos, pos + 2 + 6 * i + 4, name="feature offset")
                with self.at("Feature[%d]" % i):
                    params = self.u16(f)
                    if params:
                        self.need(f + params, 2, "feature params")
                    lc = self.u16(f + 2)
                    for x in self.u16s(f + 4, lc):
                        self.lookup_refs.append((x, list(self.path)))
            return cnt

    def lookuplist(self, pos):
        with self.at("LookupList"):
            cnt = self.u16(pos)
            self.nlookups = cnt
            offs = self.u16s(pos + 2, cnt)
            for i, o in enumerate(offs):
                if o == 0 or pos + o >= self.n:
                    self.bad("lookup offset %d of lookup %d" % (o, i))
                self.lookup(pos + o, i)

    def lookup(self, pos, i):
        with self.at("Lookup[%d]" % i):
            ltype, flag, cnt = self.u16s(pos, 3)
            offs = self.u16s(pos + 6, cnt)
            if flag & 0x10:
                self.need(pos + 6 + 2 * cnt, 2, "markFilteringSet")
            ext = 7 if self.tag == "GSUB" else 9
            if not 1 <= ltype <= ext + (1 if self.tag == "GSUB" else 0):
                self.bad("lookup type %d" % ltype)
            if cnt == 0:
                self.stats["empty-lookup"] += 1
            for j, o in enumerate(offs):
                if o == 0 or pos + o >= self.n:
                    self.bad("subtable offset %d of subtable %d" % (o, j))
                with self.at("SubTable[%d]" % j):
                    self.subtable(pos + o, ltype, True)

    def subtable(self, pos, ltype, may_ext):
        ext = 7 if self.tag == "GSUB" else 9
        if ltype == ext:
            if not may_ext:
                self.bad("extension inside extension")
            fmt, etype = self.u16s(pos, 2)
            eo = self.u32(pos + 4)
            if fmt != 1 or etype == ext or not 1 <= etype <= (8 if self.tag == "GSUB" else 8):
                self.bad("extension format %d type %d" % (fmt, etype))
            if eo == 0 or pos + eo >= self.n:
                self.bad("extension offset %d outside the table" % eo)
            self.stats["Extension"] += 1
            with self.at("Ext"):
                self.subtable(pos + eo, etype, False)
            return
        fmt = self.u16(pos)
        self.stats["%s%d.%d" % (self.tag, ltype, fmt)] += 1
        getattr(self, "%s_%d" % (self.tag, ltype))(pos, fmt)

    # -- GSUB
    def GSUB_1(self, pos, fmt):
        n = self.coverage(self.off(pos, pos + 2, name="coverage offset"))
        if fmt == 1:
            self.need(pos, 6)
        elif fmt == 2:
            cnt = self.u16(pos + 4)
            self.u16s(pos + 6, cnt)
            if cnt != n:
                self.bad("SingleSubst glyphCount %d != coverage %d" % (cnt, n))
        else:
            self.bad("SingleSubst format %d" % fmt)

    def _sets(self, pos, fmt, what, inner):
        if fmt != 1:
            self.bad("%s format %d" % (what, fmt))
        n = self.coverage(self.off(pos, pos + 2, name="coverage offset"))
        cnt = self.u16(pos + 4)
        if cnt != n:
            self.bad("%s count %d != coverage %d" % (what, cnt, n))
        self.need(pos + 6, 2 * cnt)
        for i in range(cnt):
            with self.at("%s[%d]" % (what, i)):
                inner(self.off(pos, pos + 6 + 2 * i, name="%s offset" % what))

    def GSUB_2(self, pos, fmt):
        self._sets(pos, fmt, "Sequence", lambda p: self.u16s(p + 2, self.u16(p)))

    def GSUB_3(self, pos, fmt):
        self._sets(pos, fmt, "AlternateSet", lambda p: self.u16s(p + 2, self.u16(p)))

    def GSUB_4(self, pos, fmt):
        def ligset(p):
            cnt = self.u16(p)
            self.need(p + 2, 2 * cnt)
            for i in range(cnt):
                l = self.off(p, p + 2 + 2 * i, name="ligature offset")
                comp = self.u16(l + 2)
                if comp < 1:
                    self.bad("ligature component count 0")
                self.u16s(l + 4, comp - 1)
        self._sets(pos, fmt, "LigatureSet", ligset)

    def _context(self, pos, fmt, chain):
        if fmt == 1 or fmt == 2:
            n = self.coverage(self.off(pos, pos + 2, name="coverage offset"))
            p = pos + 4
            if fmt == 2:
                for k in range(3 if chain else 1):
                    o = self.u16(p)
                    if o:
                        self.classdef(pos + o)
                    elif not chain or k == 1:
                        self.bad("NULL input ClassDef")
                    p += 2
            cnt = self.u16(p)
            if fmt == 1 and cnt != n:
                self.bad("rule set count %d != coverage %d" % (cnt, n))
            self.need(p + 2, 2 * cnt)
            for i in range(cnt):
                rs = self.off(pos, p + 2 + 2 * i, nullable=True, name="rule set offset")
                if rs is None:
                    continue
                with self.at("RuleSet[%d]" % i):
                    rc = self.u16(rs)
                    self.need(rs + 2, 2 * rc)
                    for j in range(rc):
                        r = self.off(rs, rs + 2 + 2 * j, name="rule offset")
                        with self.at("Rule[%d]" % j):
                            if chain:
                                b = self.u16(r)
                                self.u16s(r + 2, b)
                                q = r + 2 + 2 * b
                                ic = self.u16(q)
                                if ic < 1:
                                    self.bad("input count 0")
                                self.u16s(q + 2, ic - 1)
                                q += 2 + 2 * (ic - 1)
                                la = self.u16(q)
                                self.u16s(q + 2, la)
                                q += 2 + 2 * la
                                sc = self.u16(q)
                                self.seq_records(q + 2, sc, ic)
                            else:
                                ic, sc = self.u16s(r, 2)
                                if ic < 1:
                                    self.bad("glyph count 0")
                                self.u16s(r + 4, ic - 1)
                                self.seq_records(r + 4 + 2 * (ic - 1), sc, ic)
        elif fmt == 3:
            if chain:
                p = pos + 2
                counts = []
                for k in range(3):
                    c = self.u16(p)
                    counts.append(c)
                    self.need(p + 2, 2 * c)
                    for i in range(c):
                        self.coverage(self.off(pos, p + 2 + 2 * i, name="coverage offset"))
                    p += 2 + 2 * c
                if counts[1] < 1:
                    self.bad("input count 0")
                sc = self.u16(p)
                self.seq_records(p + 2, sc, counts[1])
            else:
                gc, sc = self.u16s(pos + 2, 2)
                if gc < 1:
                    self.bad("glyph count 0")
                for i in range(gc):
                    self.coverage(self.off(pos, pos + 6 + 2 * i, name="coverage offset"))
                self.seq_records(pos + 6 + 2 * gc, sc, gc)
        else:
            self.bad("context format %d" % fmt)

    def GSUB_5(self, pos, fmt):
        self._context(pos, fmt, False)

    def GSUB_6(self, pos, fmt):
        self._context(pos, fmt, True)

    def GSUB_8(self, pos, fmt):
        if fmt != 1:
            self.bad("ReverseChainSingleSubst format %d" % fmt)
        n = self.coverage(self.off(pos, pos + 2, name="coverage offset"))
        p = pos + 4
        for k in range(2):
            c = self.u16(p)
            self.need(p + 2, 2 * c)
            for i in range(c):
                self.coverage(self.off(pos, p + 2 + 2 * i, name="coverage offset"))
            p += 2 + 2 * c
        gc = self.u16(p)
        self.u16s(p + 2, gc)
        if gc != n:
            self.bad("substitute count %d != coverage %d" % (gc, n))

    # -- GPOS
    def GPOS_1(self, pos, fmt):
        n = self.coverage(self.off(pos, pos + 2, name="coverage offset"))
        vf = self.u16(pos + 4)
        if fmt == 1:
            self.value(pos + 6, vf, pos)
        elif fmt == 2:
            cnt = self.u16(pos + 6)
            if cnt != n:
                self.bad("SinglePos valueCount %d != coverage %d" % (cnt, n))
            sz = self.vsize(vf)
            self.need(pos + 8, sz * cnt, "value array")
            if vf & 0xF0:
                for i in range(cnt):
                    self.value(pos + 8 + sz * i, vf, pos)
        else:
            self.bad("SinglePos format %d" % fmt)

    def GPOS_2(self, pos, fmt):
        n = self.coverage(self.off(pos, pos + 2, name="coverage offset"))
        vf1, vf2 = self.u16s(pos + 4, 2)
        s1, s2 = self.vsize(vf1), self.vsize(vf2)
        if fmt == 1:
            cnt = self.u16(pos + 8)
            if cnt != n:
                self.bad("PairSetCount %d != coverage %d" % (cnt, n))
            self.need(pos + 10, 2 * cnt)
            for i in range(cnt):
                ps = self.off(pos, pos + 10 + 2 * i, name="PairSet offset")
                with self.at("PairSet[%d]" % i):
                    pc = self.u16(ps)
                    rec = 2 + s1 + s2
                    self.need(ps + 2, rec * pc, "PairValueRecords")
                    last = -1
                    for j in range(pc):
                        g = self.u16(ps + 2 + rec * j)
                        if g <= last:
                            self.bad("PairValueRecords not sorted by second glyph")
                        last = g
                        if (vf1 | vf2) & 0xF0:
                            self.value(ps + 4 + rec * j, vf1, ps)
                            self.value(ps + 4 + rec * j + s1, vf2, ps)
        elif fmt == 2:
            cd1 = self.classdef(self.off(pos, pos + 8, name="ClassDef1 offset"))
            cd2 = self.classdef(self.off(pos, pos + 10, name="ClassDef2 offset"))
            c1, c2 = self.u16s(pos + 12, 2)
            if n == 0 and c1 == 0:
                self.stats["empty-subtable"] += 1      # degenerate but parseable: covers nothing
                return
            if cd1 >= c1:
                self.bad("ClassDef1 uses class %d but Class1Count is %d" % (cd1, c1))
            if cd2 >= c2:
                self.bad("ClassDef2 uses class %d but Class2Count is %d" % (cd2, c2))
            self.need(pos + 16, c1 * c2 * (s1 + s2), "Class1Records")
            if (vf1 | vf2) & 0xF0:
                for k in range(c1 * c2):
                    self.value(pos + 16 + k * (s1 + s2), vf1, pos)
                    self.value(pos + 16 + k * (s1 + s2) + s1, vf2, pos)
        else:
            self.bad("PairPos format %d" % fmt)

    def GPOS_3(self, pos, fmt):
        if fmt != 1:
            self.bad("CursivePos format %d" % fmt)
        n = self.coverage(self.off(pos, pos + 2, name="coverage offset"))
        cnt = self.u16(pos + 4)
        if cnt != n:
            self.bad("EntryExitCount %d != coverage %d" % (cnt, n))
        for o in self.u16s(pos + 6, 2 * cnt):
            if o:
                self.anchor(pos + o)

    def _markarray(self, pos, classcount):
        with self.at("MarkArray@%d" % pos):
            cnt = self.u16(pos)
            r = self.u16s(pos + 2, 2 * cnt)
            for i in range(cnt):
                if r[2 * i] >= classcount:
                    self.bad("mark class %d >= ClassCount %d" % (r[2 * i], classcount))
                if not r[2 * i + 1]:
                    self.bad("NULL mark anchor")
                self.anchor(pos + r[2 * i + 1])
            return cnt

    def _anchor_matrix(self, pos, rows_at, rows, cols, name):
        offs = self.u16s(rows_at, rows * cols)
        for o in offs:
            if o:
                self.anchor(pos + o)

    def GPOS_4(self, pos, fmt, name="BaseArray"):
        if fmt != 1:
            self.bad("Mark attachment format %d" % fmt)
        nm = self.coverage(self.off(pos, pos + 2, name="mark coverage offset"))
        nb = self.coverage(self.off(pos, pos + 4, name="base coverage offset"))
        cc = self.u16(pos + 6)
        mc = self._markarray(self.off(pos, pos + 8, name="MarkArray offset"), cc)
        if mc != nm:
            self.bad("MarkCount %d != mark coverage %d" % (mc, nm))
        ba = self.off(pos, pos + 10, name="%s offset" % name)
        with self.at(name):
            bc = self.u16(ba)
            if bc != nb:
                self.bad("%s count %d != coverage %d" % (name, bc, nb))
            self._anchor_matrix(ba, ba + 2, bc, cc, name)

    def GPOS_6(self, pos, fmt):
        self.GPOS_4(pos, fmt, "Mark2Array")

    def GPOS_5(self, pos, fmt):
        if fmt != 1:
            self.bad("MarkLigPos format %d" % fmt)
        nm = self.coverage(self.off(pos, pos + 2, name="mark coverage offset"))
        nl = self.coverage(self.off(pos, pos + 4, name="ligature coverage offset"))
        cc = self.u16(pos + 6)
        mc = self._markarray(self.off(pos, pos + 8, name="MarkArray offset"), cc)
        if mc != nm:
            self.bad("MarkCount %d != mark coverage %d" % (mc, nm))
        la = self.off(pos, pos + 10, name="LigatureArray offset")
        with self.at("LigatureArray"):
            lc = self.u16(la)
            if lc != nl:
                self.bad("LigatureCount %d != coverage %d" % (lc, nl))
            self.need(la + 2, 2 * lc)
            for i in range(lc):
                att = self.off(la, la + 2 + 2 * i, name="LigatureAttach offset")
                comp = self.u16(att)
                self._anchor_matrix(att, att + 2, comp, cc, "LigatureAttach")

    def GPOS_7(self, pos, fmt):
        self._context(pos, fmt, False)

    def GPOS_8(self, pos, fmt):
        self._context(pos, fmt, True)


def walk_layout(data, tag):
    """Walk compiled GSUB/GPOS/GDEF bytes; -> Counter of statistics, raises BadLayout."""
    try:
        if tag == "GDEF":
            return _Walker(bytes(data), tag).walk_gdef()
        return _Walker(bytes(data), tag).walk()
    except _struct.error as e:  # pragma: no cover  (need() guards every read)
        raise BadLayout("struct error %s" % e, [tag])
