"""Narrow 'free-text whitespace' equivalence for C03 (spec-written, independent of
fontTools): decides whether two `name` tables / two `CFF ` tables differ *only* in
free-text string data whose values are equal after XML whitespace normalisation.

XML whitespace normalisation here = collapse every run of XML white space
(#x20 #x9 #xD #xA) to one space and strip both ends (what survives text-node
stripping and attribute-value normalisation).
"""
import re
import struct

_WS = re.compile(r"[ \t\r\n]+")


def norm(s):
    return _WS.sub(" ", s).strip(" ")


class NotComparable(Exception):
    pass


# ------------------------------------------------------------------ name
def parse_name(data):
    if len(data) < 6:
        raise NotComparable("short name table")
    fmt, count, storage = struct.unpack(">HHH", data[:6])
    if fmt not in (0, 1):
        raise NotComparable("name format %d" % fmt)
    recs = []
    pos = 6
    for _ in range(count):
        pid, eid, lid, nid, ln, off = struct.unpack(">6H", data[pos:pos + 12])
        pos += 12
        raw = data[storage + off: storage + off + ln]
        if len(raw) != ln:
            raise NotComparable("name string out of bounds")
        recs.append(((pid, eid, lid, nid), raw))
    langs = []
    if fmt == 1:
        (n,) = struct.unpack(">H", data[pos:pos + 2])
        pos += 2
        for _ in range(n):
            ln, off = struct.unpack(">HH", data[pos:pos + 4])
            pos += 4
            langs.append(data[storage + off: storage + off + ln])
    return fmt, recs, langs


def _name_text(key, raw):
    pid, eid = key[0], key[1]
    if pid in (0, 3) or (pid == 2 and eid == 1):
        if len(raw) % 2:
            return None
        return raw.decode("utf-16-be", "surrogatepass")
    return raw.decode("latin-1")   # byte-transparent; ASCII white space is what matters


def name_equivalent(a, b):
    """-> (True, n_strings_that_differ_only_in_whitespace) or (False, reason)"""
    try:
        fa, ra, la = parse_name(a)
        fb, rb, lb = parse_name(b)
    except (NotComparable, struct.error) as e:
        return False, "unparseable: %s" % e
    if fa != fb or la != lb:
        return False, "format / langTag records differ"
    if [k for k, _ in ra] != [k for k, _ in rb]:
        return False, "record keys differ"
    n = 0
    for (k, x), (_k, y) in zip(ra, rb):
        if x == y:
            continue
        tx, ty = _name_text(k, x), _name_text(k, y)
        if tx is None or ty is None or norm(tx) != norm(ty):
            if tx is not None and ty is not None and tx.strip() == ty.strip():
                # equal once Unicode spaces (NBSP, U+2028, U+3000 ...) are stripped as well: those
                # are not XML white space, so this is outside the stated normalisation
                return False, "record %r: unicode-space stripped beyond XML white space" % (k,)
            return False, "record %r differs beyond white space" % (k,)
        n += 1
    return True, n


# ------------------------------------------------------------------ CFF
def _index(data, pos):
    """CFF INDEX at pos -> (items, end)"""
    (count,) = struct.unpack(">H", data[pos:pos + 2])
    if count == 0:
        return [], pos + 2
    offsize = data[pos + 2]
    if not 1 <= offsize <= 4:
        raise NotComparable("bad offSize")
    offs = []
    p = pos + 3
    for _ in range(count + 1):
        offs.append(int.from_bytes(data[p:p + offsize], "big"))
        p += offsize
    base = p - 1
    items = [bytes(data[base + offs[i]: base + offs[i + 1]]) for i in range(count)]
    end = base + offs[-1]
    if end > len(data):
        raise NotComparable("INDEX out of bounds")
    return items, end


def _dict(data):
    """CFF DICT -> [(operator, [operands])]; reals kept as their nibble bytes."""
    out, ops, i = [], [], 0
    while i < len(data):
        b0 = data[i]
        if b0 <= 21:
            if b0 == 12:
                op = (12, data[i + 1])
                i += 2
            else:
                op = b0
                i += 1
            out.append((op, ops))
            ops = []
        elif b0 == 28:
            ops.append(struct.unpack(">h", data[i + 1:i + 3])[0])
            i += 3
        elif b0 == 29:
            ops.append(struct.unpack(">l", data[i + 1:i + 5])[0])
            i += 5
        elif b0 == 30:
            j = i + 1
            while j < len(data) and (data[j] & 0x0F) != 0x0F and (data[j] >> 4) != 0x0F:
                j += 1
            ops.append(("real", bytes(data[i + 1:j + 1])))
            i = j + 1
        elif 32 <= b0 <= 246:
            ops.append(b0 - 139)
            i += 1
        elif 247 <= b0 <= 250:
            ops.append((b0 - 247) * 256 + data[i + 1] + 108)
            i += 2
        elif 251 <= b0 <= 254:
            ops.append(-(b0 - 251) * 256 - data[i + 1] - 108)
            i += 2
        else:
            raise NotComparable("reserved DICT byte %d" % b0)
    if ops:
        raise NotComparable("dangling operands")
    return out


_OFFSET_OPS = {15: [0], 16: [0], 17: [0], 18: [1]}   # charset, Encoding, CharStrings, Private(size, offset)
_CID_OPS = {(12, 36), (12, 37), (12, 30)}             # FDArray, FDSelect, ROS -> not handled (absolute offsets in the tail)


def cff_equivalent(a, b):
    """True when two CFF (version 1, single non-CID font) tables are identical except for
    String INDEX entries that are equal after white-space normalisation, and the
    consequent uniform shift of the Top DICT's absolute offsets."""
    try:
        if a[:1] != b"\x01" or b[:1] != b"\x01":
            return False, "not CFF version 1"
        ha, hb = a[2], b[2]
        if a[:ha] != b[:hb]:
            return False, "header differs"
        na, pa = _index(a, ha)
        nb, pb = _index(b, hb)
        if na != nb:
            return False, "Name INDEX differs"
        ta, pa = _index(a, pa)
        tb, pb = _index(b, pb)
        sa, pa = _index(a, pa)
        sb, pb = _index(b, pb)
        if len(ta) != 1 or len(tb) != 1:
            return False, "font set with %d fonts" % len(ta)
        if len(sa) != len(sb):
            return False, "String INDEX count differs"
        n = 0
        for x, y in zip(sa, sb):
            if x != y:
                if norm(x.decode("latin-1")) != norm(y.decode("latin-1")):
                    return False, "a string differs beyond white space"
                n += 1
        if a[pa:] != b[pb:]:
            return False, "data after the String INDEX differs"
        delta = pb - pa
        da, db = _dict(ta[0]), _dict(tb[0])
        if [op for op, _ in da] != [op for op, _ in db]:
            return False, "Top DICT operators differ"
        for (op, xa), (_op, xb) in zip(da, db):
            if op in _CID_OPS:
                return False, "CID-keyed font: not handled"
            if op in _OFFSET_OPS:
                if len(xa) != len(xb):
                    return False, "Top DICT operand count differs"
                for i, (u, v) in enumerate(zip(xa, xb)):
                    if i in _OFFSET_OPS[op]:
                        if op in (15, 16) and u == v and isinstance(u, int) and 0 <= u <= 2:
                            continue   # predefined charset / encoding id, not an offset
                        if not (isinstance(u, int) and isinstance(v, int)) or v - u != delta:
                            return False, "offset operand of op %r not shifted uniformly" % (op,)
                    elif u != v:
                        return False, "Top DICT operand differs"
            elif xa != xb:
                return False, "Top DICT operand of op %r differs" % (op,)
        return True, n
    except (NotComparable, struct.error, IndexError) as e:
        return False, "unparseable: %s" % e
