"""Spec-written `struct` readers of the fixed-layout tables that carry font-wide metrics
(head, hhea, vhea, OS/2, post, hmtx/vmtx side bearings, VORG) and of glyf composite
records.  Used by C17 to compare a font before and after scale_upem field by field,
independently of fontTools' table classes.

Each reader returns {field: value}; DESIGN lists the fields that are in design units
(must scale), DERIVED the ones fontTools recalculates from other scaled data when it
compiles (scale within a larger budget), everything else must be unchanged.
"""
import struct

from .c05_tables import sfnt_tables, Bad  # noqa: F401


def _unpack(fmt, names, data, off=0):
    vals = struct.unpack_from(fmt, data, off)
    return dict(zip(names, vals))


HEAD_FMT = ">llLLHHqqhhhhHHhhh"
HEAD_NAMES = ["version", "fontRevision", "checkSumAdjustment", "magicNumber", "flags", "unitsPerEm", "created",
              "modified", "xMin", "yMin", "xMax", "yMax", "macStyle", "lowestRecPPEM", "fontDirectionHint",
              "indexToLocFormat", "glyphDataFormat"]
HHEA_FMT = ">lhhhHhhhhhhhhhhhH"
HHEA_NAMES = ["version", "ascent", "descent", "lineGap", "advanceWidthMax", "minLeftSideBearing", "minRightSideBearing",
              "xMaxExtent", "caretSlopeRise", "caretSlopeRun", "caretOffset", "reserved0", "reserved1", "reserved2",
              "reserved3", "metricDataFormat", "numberOfMetrics"]
VHEA_NAMES = ["version", "ascent", "descent", "lineGap", "advanceHeightMax", "minTopSideBearing", "minBottomSideBearing",
              "yMaxExtent", "caretSlopeRise", "caretSlopeRun", "caretOffset", "reserved0", "reserved1", "reserved2",
              "reserved3", "metricDataFormat", "numberOfMetrics"]
OS2_V0_FMT = ">HhHHHhhhhhhhhhhh10s4L4sHHHhhhHH"
OS2_V0_NAMES = ["version", "xAvgCharWidth", "usWeightClass", "usWidthClass", "fsType", "ySubscriptXSize", "ySubscriptYSize",
                "ySubscriptXOffset", "ySubscriptYOffset", "ySuperscriptXSize", "ySuperscriptYSize", "ySuperscriptXOffset",
                "ySuperscriptYOffset", "yStrikeoutSize", "yStrikeoutPosition", "sFamilyClass", "panose", "ulUnicodeRange1",
                "ulUnicodeRange2", "ulUnicodeRange3", "ulUnicodeRange4", "achVendID", "fsSelection", "usFirstCharIndex",
                "usLastCharIndex", "sTypoAscender", "sTypoDescender", "sTypoLineGap", "usWinAscent", "usWinDescent"]
POST_FMT = ">llhhLLLLL"
POST_NAMES = ["formatType", "italicAngle", "underlinePosition", "underlineThickness", "isFixedPitch", "minMemType42",
              "maxMemType42", "minMemType1", "maxMemType1"]

DESIGN = {
    "hhea": {"ascent", "descent", "lineGap", "caretOffset"},
    "vhea": {"ascent", "descent", "lineGap", "caretOffset"},
    "OS/2": {"xAvgCharWidth", "ySubscriptXSize", "ySubscriptYSize", "ySubscriptXOffset", "ySubscriptYOffset",
             "ySuperscriptXSize", "ySuperscriptYSize", "ySuperscriptXOffset", "ySuperscriptYOffset", "yStrikeoutSize",
             "yStrikeoutPosition", "sTypoAscender", "sTypoDescender", "sTypoLineGap", "usWinAscent", "usWinDescent",
             "sxHeight", "sCapHeight"},
    "post": {"underlinePosition", "underlineThickness"},
    "head": set(),
}
# recalculated by the compiler from glyph data / metrics (budget depends on the glyphs)
DERIVED = {
    "head": {"xMin", "yMin", "xMax", "yMax"},
    "hhea": {"advanceWidthMax", "minLeftSideBearing", "minRightSideBearing", "xMaxExtent"},
    "vhea": {"advanceHeightMax", "minTopSideBearing", "minBottomSideBearing", "yMaxExtent"},
}
# may legitimately change (encoding choices, checksums, timestamps)
VOLATILE = {
    "head": {"checkSumAdjustment", "modified", "indexToLocFormat", "unitsPerEm"},
    "hhea": {"numberOfMetrics"},
    "vhea": {"numberOfMetrics"},
    "OS/2": set(),
    "post": {"minMemType42", "maxMemType42", "minMemType1", "maxMemType1"},
}


def read_head(t):
    return _unpack(HEAD_FMT, HEAD_NAMES, t)


def read_hhea(t):
    return _unpack(HHEA_FMT, HHEA_NAMES, t)


def read_vhea(t):
    return _unpack(HHEA_FMT, VHEA_NAMES, t)


def read_os2(t):
    d = _unpack(OS2_V0_FMT, OS2_V0_NAMES, t)
    off = struct.calcsize(OS2_V0_FMT)
    v = d["version"]
    if v >= 1 and len(t) >= off + 8:
        d["ulCodePageRange1"], d["ulCodePageRange2"] = struct.unpack_from(">LL", t, off)
        off += 8
    if v >= 2 and len(t) >= off + 10:
        d["sxHeight"], d["sCapHeight"], d["usDefaultChar"], d["usBreakChar"], d["usMaxContext"] = struct.unpack_from(">hhHHH", t, off)
        off += 10
    if v >= 5 and len(t) >= off + 4:
        d["usLowerOpticalPointSize"], d["usUpperOpticalPointSize"] = struct.unpack_from(">HH", t, off)
    return d


def read_post(t):
    d = _unpack(POST_FMT, POST_NAMES, t)
    d["names_blob"] = bytes(t[struct.calcsize(POST_FMT):])
    return d


READERS = {"head": read_head, "hhea": read_hhea, "vhea": read_vhea, "OS/2": read_os2, "post": read_post}


def num_glyphs(tables):
    return struct.unpack_from(">H", tables["maxp"], 4)[0]


def read_mtx(tables, tag):
    """-> [(advance, side bearing)] per glyph id for hmtx / vmtx"""
    hea = tables["hhea" if tag == "hmtx" else "vhea"]
    n_long = struct.unpack_from(">H", hea, 34)[0]
    n = num_glyphs(tables)
    t = tables[tag]
    out = []
    adv = 0
    for i in range(min(n_long, n)):
        adv, sb = struct.unpack_from(">Hh", t, 4 * i)
        out.append((adv, sb))
    p = 4 * n_long
    for i in range(n_long, n):
        if p + 2 <= len(t):
            sb = struct.unpack_from(">h", t, p)[0]
        else:
            sb = 0
        p += 2
        out.append((adv, sb))
    return out


def read_vorg(t):
    major, minor, default, n = struct.unpack_from(">HHhH", t, 0)
    recs = {}
    for i in range(n):
        gid, y = struct.unpack_from(">Hh", t, 8 + 4 * i)
        recs[gid] = y
    return {"default": default, "records": recs}


# ---------------------------------------------------------------- glyf composites
ARG_WORDS, ARGS_XY, SCALE, MORE, XY_SCALE, TWO_BY_TWO, INSTR = 0x1, 0x2, 0x8, 0x20, 0x40, 0x80, 0x100


def read_loca(tables):
    fmt = struct.unpack_from(">h", tables["head"], 50)[0]
    n = num_glyphs(tables)
    t = tables["loca"]
    if fmt == 0:
        return [2 * v for v in struct.unpack_from(">%dH" % (n + 1), t, 0)]
    return list(struct.unpack_from(">%dL" % (n + 1), t, 0))


def read_composites(tables):
    """-> {gid: [(flags, glyphIndex, arg1, arg2, (transform ints...))]} for composite glyphs,
    and {gid: (numberOfContours, xMin, yMin, xMax, yMax)} for all non-empty glyphs."""
    loca = read_loca(tables)
    glyf = tables["glyf"]
    comps, headers = {}, {}
    for gid in range(len(loca) - 1):
        a, b = loca[gid], loca[gid + 1]
        if b <= a:
            continue
        nc, x0, y0, x1, y1 = struct.unpack_from(">hhhhh", glyf, a)
        headers[gid] = (nc, x0, y0, x1, y1)
        if nc >= 0:
            continue
        p = a + 10
        recs = []
        while True:
            flags, gi = struct.unpack_from(">HH", glyf, p)
            p += 4
            if flags & ARG_WORDS:
                a1, a2 = struct.unpack_from(">hh" if flags & ARGS_XY else ">HH", glyf, p)
                p += 4
            else:
                a1, a2 = struct.unpack_from(">bb" if flags & ARGS_XY else ">BB", glyf, p)
                p += 2
            if flags & SCALE:
                tr = struct.unpack_from(">h", glyf, p)
                p += 2
            elif flags & XY_SCALE:
                tr = struct.unpack_from(">hh", glyf, p)
                p += 4
            elif flags & TWO_BY_TWO:
                tr = struct.unpack_from(">hhhh", glyf, p)
                p += 8
            else:
                tr = ()
            recs.append((flags, gi, a1, a2, tr))
            if not flags & MORE:
                break
        comps[gid] = recs
    return comps, headers


# ---------------------------------------------------------------- CFF Top DICT
def _index(data, p, count_size=2):
    """CFF INDEX at p -> (list of byte strings, position after the INDEX)"""
    if count_size == 2:
        count = struct.unpack_from(">H", data, p)[0]
    else:
        count = struct.unpack_from(">L", data, p)[0]
    p += count_size
    if count == 0:
        return [], p
    off_size = data[p]
    p += 1
    offs = [int.from_bytes(data[p + i * off_size:p + (i + 1) * off_size], "big") for i in range(count + 1)]
    p += (count + 1) * off_size
    base = p - 1
    items = [data[base + offs[i]:base + offs[i + 1]] for i in range(count)]
    return items, base + offs[-1]


def _dict(data):
    """CFF DICT bytes -> {operator: [operands]} (operators as int or (12, n))"""
    from . import codecs

    out = {}
    stack = []
    i = 0
    while i < len(data):
        b0 = data[i]
        if b0 <= 21 or b0 in (22, 23, 24):
            if b0 == 12:
                op = (12, data[i + 1])
                i += 2
            else:
                op = b0
                i += 1
            out[op] = stack
            stack = []
        else:
            v, n = codecs.cff_operand(data, i, "cff")
            if isinstance(v, str):
                v = float(codecs.real_value(v))
            stack.append(v)
            i += n
    return out


def cff_font_matrix(tables):
    """FontMatrix of the (first) Top DICT of `CFF ` / `CFF2`, the spec default
    [0.001 0 0 0.001 0 0] when the operator is absent; None when there is no CFF table."""
    if "CFF " in tables:
        t = tables["CFF "]
        hdr = t[2]
        _names, p = _index(t, hdr)
        tops, p = _index(t, p)
        d = _dict(tops[0])
    elif "CFF2" in tables:
        t = tables["CFF2"]
        hdr = t[2]
        tl = struct.unpack_from(">H", t, 3)[0]
        d = _dict(t[hdr:hdr + tl])
    else:
        return None
    fm = d.get((12, 7))
    return ([float(x) for x in fm], True) if fm else ([0.001, 0.0, 0.0, 0.001, 0.0, 0.0], False)


def cff_private_widths(tables):
    """{name: value} for defaultWidthX (20), nominalWidthX (21), StdHW (10), StdVW (11) and
    BlueValues (6, as a delta list) of the Private DICT of a name-keyed `CFF ` font; None for
    CID-keyed fonts (FDArray), CFF2 or when there is no CFF table."""
    if "CFF " not in tables:
        return None
    t = tables["CFF "]
    _names, p = _index(t, t[2])
    tops, p = _index(t, p)
    d = _dict(tops[0])
    if (12, 30) in d or (12, 36) in d or 18 not in d:
        return None
    size, off = d[18]
    pd = _dict(t[int(off):int(off) + int(size)])
    out = {}
    for op, name in ((20, "defaultWidthX"), (21, "nominalWidthX"), (10, "StdHW"), (11, "StdVW")):
        if op in pd and pd[op]:
            out[name] = pd[op][0]
    if 6 in pd:
        out["BlueValues"] = list(pd[6])
    return out
